#!/usr/bin/env python3
"""validate_seed.py <ID> <mN>: confirm a sub-agent's seeded change in a scratch worktree:
   builds, existing tests of touched packages pass with it, demo fails with it and passes without it.
   On success copies it to /verif/seeded/<ID>_<mN>/ ."""
import json, os, subprocess, sys, shutil
ID, M = sys.argv[1], sys.argv[2]
src = f"/tmp/seed/{ID}.out/{M}"
meta = json.load(open(f"{src}/meta.json"))
wt = f"/tmp/seedval/{ID}_{M}"
env = dict(os.environ, GOFLAGS="-mod=mod", GOPROXY="off", GOSUMDB="off", GOTOOLCHAIN="local",
           PATH="/opt/veriftools/go1.26.8/bin:" + os.environ["PATH"])
def sh(cmd, cwd=wt, check=False):
    r = subprocess.run(cmd, shell=True, cwd=cwd, env=env, capture_output=True, text=True)
    return r.returncode, (r.stdout + r.stderr)[-3000:]
os.makedirs("/tmp/seedval", exist_ok=True)
subprocess.run(f"git -C /repo worktree remove --force {wt}", shell=True, capture_output=True)
subprocess.run(f"git -C /repo worktree add -q --detach {wt} HEAD", shell=True, check=True)
log = {}
try:
    os.makedirs(f"{wt}/tun/client/ui/build", exist_ok=True)
    open(f"{wt}/tun/client/ui/build/index.html", "w").write("<html></html>")
    demo_dst = os.path.join(wt, meta["demo_pkg_dir"], meta["demo_file_name"])
    shutil.copy(f"{src}/demo_test.go", demo_dst)
    rc, out = sh(meta["demo_cmd"]); log["demo_without_patch"] = (rc, out[-600:])
    ok = rc == 0
    rc, out = sh(f"git apply {src}/patch.diff"); log["apply"] = (rc, out)
    ok = ok and rc == 0
    rc, out = sh("go build ./..."); log["build"] = (rc, out[-600:])
    ok = ok and rc == 0
    rc, out = sh(meta["demo_cmd"]); log["demo_with_patch"] = (rc, out[-1200:])
    ok = ok and rc != 0
    os.remove(demo_dst)
    # existing tests of the touched packages
    rc, out = sh("git diff --name-only"); files = [f for f in out.split() if f.endswith(".go")]
    pkgs = sorted({"./" + os.path.dirname(f) for f in files})
    extra = {"./spec/chord": ["./chord"], "./kv/memory": ["./kv/aof", "./chord"], "./spec/rpc": ["./gateway", "./tun/server"], "./spec/tun": ["./gateway", "./tun/server"], "./util/hashcash": ["./pki"], "./spec/pow": ["./pki", "./tun/server"]}
    allp = set(pkgs)
    for p in pkgs:
        allp.update(extra.get(p, []))
    rc, out = sh("go test -vet=off -count=1 -timeout 20m " + " ".join(sorted(allp))); log["existing_tests"] = (rc, out[-1500:])
    ok = ok and rc == 0
    log["packages_tested"] = sorted(allp)
finally:
    subprocess.run(f"git -C /repo worktree remove --force {wt}", shell=True, capture_output=True)
log["ok"] = ok
dst = f"/verif/seeded/{ID}_{M}"
if ok:
    os.makedirs(dst, exist_ok=True)
    shutil.copy(f"{src}/patch.diff", dst)
    shutil.copy(f"{src}/demo_test.go", dst)
    meta["validated"] = {"by": "scripts/validate_seed.py in a scratch worktree of /repo at HEAD (includes the fix: commits)", "demo_passes_without_patch": True,
                         "demo_fails_with_patch": True, "build_ok": True, "existing_tests_pass_with_patch": log["packages_tested"]}
    json.dump(meta, open(f"{dst}/meta.json", "w"), indent=1)
print(json.dumps(log, indent=1)[:4000])
sys.exit(0 if ok else 1)
