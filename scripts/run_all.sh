#!/bin/sh
# runs every claimed check once (quick tier) and prints one line each
cd /verif
for id in $(python3 -c "import json;print(' '.join(sorted(json.load(open('checks.json')).keys())))"); do
  out=$(./bin/specv check $id 2>&1); rc=$?
  echo "$id rc=$rc $(echo "$out" | grep '^OK\|^VIOLATION\|^ERROR\|^KNOWN' | head -3 | cut -c1-150 | tr '\n' '|')"
done
