#!/bin/sh
# scr.sh: refresh the development scratch copy /tmp/scr/repo from /repo and the master contract files
mkdir -p /tmp/scr/repo
rsync -a --delete --exclude .git /repo/ /tmp/scr/repo/
rsync -a /verif/contracts/repo/ /tmp/scr/repo/
