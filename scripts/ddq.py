#!/usr/bin/env python3
"""ddq.py <query.smt2> [timeout]: development aid - which single assertion, when removed, lets z3-new prove the goal quickly?"""
import sys, subprocess, concurrent.futures as cf
f=sys.argv[1]; to=sys.argv[2] if len(sys.argv)>2 else '3'
lines=open(f).read().split('\n')
idx=[i for i,l in enumerate(lines) if l.startswith('(assert ') and not l.startswith('(assert (not ')]
goal=[i for i,l in enumerate(lines) if l.startswith('(assert (not ')][-1]
idx=[i for i in idx if i!=goal]
def run(i):
    q='\n'.join(l for k,l in enumerate(lines) if k!=i)
    p='/tmp/ddq_%d.smt2'%i
    open(p,'w').write(q)
    r=subprocess.run(['timeout',to,'z3-new',p],capture_output=True,text=True).stdout.split('\n')[0]
    return i,r
with cf.ThreadPoolExecutor(12) as ex:
    for i,r in ex.map(run,idx):
        if r=='unsat': print('removing line',i+1,'->',r,':',lines[i][:160])
print('done',len(idx))
