#!/usr/bin/env python3
"""splitq.py <query.smt2> [timeout]: development aid - splits the negated goal of a dumped specv query into
its conjuncts and runs z3-new / cvc5 on each, to find which part of a goal is hard."""
import sys, subprocess, re
def items(s):
    s=s.strip(); assert s[0]=='(' and s[-1]==')'
    s=s[1:-1]; out=[]; i=0
    while i<len(s):
        c=s[i]
        if c.isspace(): i+=1
        elif c=='(':
            d=0;j=i
            while True:
                if s[j]=='"':
                    j+=1
                    while s[j]!='"': j+=1
                elif s[j]=='(': d+=1
                elif s[j]==')':
                    d-=1
                    if d==0: break
                j+=1
            out.append(s[i:j+1]); i=j+1
        elif c=='"':
            j=i+1
            while s[j]!='"': j+=1
            out.append(s[i:j+1]); i=j+1
        else:
            j=i
            while j<len(s) and not s[j].isspace() and s[j] not in '()': j+=1
            out.append(s[i:j]); i=j
    return out
def split(g,d=0):
    if d>6 or not g.startswith('('): return [g]
    it=items(g)
    if it[0]=='and': return [x for c in it[1:] for x in split(c,d+1)]
    if it[0]=='=>' and len(it)==3:
        sub=split(it[2],d+1)
        return [g] if len(sub)<=1 else ['(=> %s %s)'%(it[1],c) for c in sub]
    if it[0]=='forall' and len(it)==3:
        bi=items(it[2])
        if bi[0]=='!':
            sub=split(bi[1],d+1)
            return [g] if len(sub)<=1 else ['(forall %s (! %s %s))'%(it[1],c,' '.join(bi[2:])) for c in sub]
        sub=split(it[2],d+1)
        return [g] if len(sub)<=1 else ['(forall %s %s)'%(it[1],c) for c in sub]
    return [g]
def skolem_parts(goal):
    """forall-goal -> (declarations+guard assertions keeping the pattern terms alive, [conclusion conjuncts])"""
    it=items(goal)
    if it[0]!='forall': return None
    binders=items(it[1]); body=it[2]
    bi=items(body); pats=[]
    if bi[0]=='!':
        body=bi[1]
        for k in range(2,len(bi),2):
            if bi[k]==':pattern': pats+=items(bi[k+1])
    bb=items(body)
    if bb[0]!='=>' or len(bb)!=3: return None
    pre=''
    for b in binders:
        n,srt=items(b)[0],b[b.index(' ')+1:-1]
        pre+='(declare-const %s %s)\n'%(n,srt)
    pre+='(assert %s)\n'%bb[1]
    for k,pt in enumerate(pats):
        pre+=''
    return pre,split(bb[2])
f=sys.argv[1]; to=sys.argv[2] if len(sys.argv)>2 else '10'
s=open(f).read()
i=s.rfind('(assert (not ')
j=s.find('\n(check-sat)',i)
goal=items(items(s[i:j])[1])[1]
sk=skolem_parts(goal)
pre=''
if sk: pre,parts=sk
else: parts=split(goal)
print(len(parts),'parts', '(skolemized)' if sk else '')
for k,p in enumerate(parts):
    q=s[:i]+pre+'(assert (not '+p+'))\n(check-sat)\n'
    open('/tmp/splitq_%d.smt2'%k,'w').write(q)
    res=[]
    for solver in (['z3-new','smt.mbqi=false','smt.auto_config=false'],['z3-new'],['cvc5','--strings-exp']):
        try:
            r=subprocess.run(['timeout',to]+solver+['/tmp/splitq_%d.smt2'%k],capture_output=True,text=True).stdout.split('\n')[0]
        except Exception as e: r=str(e)
        res.append(r or 'timeout')
    print(k,res,p[-200:] if len(p)>200 else p)
