#!/bin/sh
# mk_seed_wt.sh <ID>: scratch worktree of /repo for a seeding sub-agent, with the verif contract files hidden
set -e
ID=$1; WT=/tmp/seed/$ID
git -C /repo worktree remove --force $WT 2>/dev/null || true
rm -rf $WT $WT.out; mkdir -p /tmp/seed $WT.out
git -C /repo worktree add -q --detach $WT HEAD
cd $WT
for f in $(git ls-files | grep '_verif\.go$'); do git update-index --skip-worktree $f; rm -f $f; done
mkdir -p tun/client/ui/build; echo '<html></html>' > tun/client/ui/build/index.html
git status --short | head
echo ready $WT
