#!/usr/bin/env python3
"""seed_prompt.py <ID>: prints the prompt given to a seeding sub-agent (property text + worktree path only)."""
import json, sys
ID = sys.argv[1]
BATCH2 = len(sys.argv) > 2 and sys.argv[2] in ('batch2', 'batch3')
A, B = ('m5', 'm6') if (len(sys.argv) > 2 and sys.argv[2] == 'batch3') else ('m3', 'm4')
prop = [json.loads(l) for l in open('/verif/properties.jsonl') if json.loads(l)['id'] == ID][0]
text = (f"""You are helping test a verification effort for the Go project zllovesuki/specter (a reverse-tunnel overlay network whose edge nodes form a Chord DHT with a KV store and leases, over QUIC). You have your own scratch git worktree of the repository at /tmp/seed/{ID} (work ONLY there; never touch /repo or /verif, and do not read anything under /verif). Output goes to /tmp/seed/{ID}.out/ .

Here is one semantic property of the code base that should hold:

{json.dumps(prop, indent=1)}

Your job: produce TWO different, independent changes ("m1", "m2") to the non-test Go source of the repository, each of which BREAKS this property while the project still compiles and the existing test suite of the touched packages (and obviously dependent packages) still passes. Each change must be realistic (the kind of slip or well-meant refactor a maintainer could make: an off-by-one, a reordered pair of statements, a dropped or inverted condition, a wrong field/variable, a missing unlock/rollback, a cache not invalidated, two sites that each look fine alone ...) and must need something SPECIFIC to manifest — a particular interleaving, a crash or fault at a particular point, a multi-step sequence of operations, an unusual input, or two cooperating sites — not something ordinary use would expose at once. Do not change test files, do not add build tags, do not make the change depend on environment variables or magic constants, and keep it small (a few lines).

For each change also write a demonstration: one Go test file (package-internal `_test.go`, placed in the package directory you name) that FAILS with your change applied and PASSES on the unchanged tree. The demonstration should exercise the real code (it may use in-package stubs/mocks, testify, and anything already in go.mod; nothing can be downloaded).

Toolchain (mandatory on every shell call, the sandbox is offline):
  export PATH=/opt/veriftools/go1.26.8/bin:$PATH GOFLAGS=-mod=mod GOPROXY=off GOSUMDB=off GOTOOLCHAIN=local
Build with `go build ./...` and run tests with `go test -vet=off -count=1 -timeout 20m ./<pkg>/...` from /tmp/seed/{ID}. (tun/client needs the placeholder file tun/client/ui/build/index.html, which already exists in your worktree and is git-ignored.) Use a unique test function name starting with TestSeed{ID}.

Procedure for each of m1, m2:
 1. make the change in the worktree; `go build ./...` must succeed;
 2. run the existing tests of every package you touched and of the packages that obviously depend on it — they must pass (run flaky-looking ones twice);
 3. add the demonstration test file, run it: it must fail; `git stash`-free way to check the other direction: save your diff (`git diff > /tmp/seed/{ID}.out/mN/patch.diff`, source change only, not the demo file), `git checkout -- .` to restore the tree (keep the demo file), run the demonstration again: it must pass;
 4. remove the demo file from the worktree, make sure `git status` is clean, then go on to the next change (m2 must be against the unchanged tree too, not stacked on m1).

Write into /tmp/seed/{ID}.out/m1/ and /tmp/seed/{ID}.out/m2/ :
  patch.diff    - the source change, applicable with `git apply` at the repository root
  demo_test.go  - the demonstration test file
  meta.json     - {{"property": "{ID}", "summary": "<what was changed, file and function>", "why_it_breaks": "<how the property statement is violated>", "needs_to_manifest": "<the specific input / sequence / interleaving / fault needed>", "demo_pkg_dir": "<package directory relative to the repo root, e.g. kv/aof>", "demo_file_name": "zz_seed_{ID}_mN_test.go", "demo_cmd": "go test -vet=off -count=1 -run <TestName> ./<pkg>", "existing_tests_run": ["<commands you ran that passed with the change>"]}}

When finished leave the worktree clean (git checkout -- . ; no stray files) and reply with a short summary of the two changes and the exact commands you ran. If you cannot find a second change that passes the existing tests, deliver one and say so.""")
if BATCH2:
    import glob, os
    text = text.replace('"m1"', f'"{A}"').replace('"m2"', f'"{B}"').replace('/m1/', f'/{A}/').replace('/m2/', f'/{B}/').replace('m1, m2', f'{A}, {B}').replace('(m2 must be', f'({B} must be').replace('stacked on m1', f'stacked on {A}')
    known = []
    for d in sorted(glob.glob(f'/verif/seeded/{ID}_m*')):
        try:
            known.append('  - ' + json.load(open(d + '/meta.json'))['summary'])
        except Exception:
            pass
    if known:
        text += "\n\nThese changes are already known; do NOT repeat them or trivial variants of them, and prefer a different function or mechanism of the property:\n" + "\n".join(known)
print(text)
