#!/bin/sh
# lib_probe.sh: runs /verif/libprobe (samples of the ASSUMED library contracts on the real libraries) inside /repo's
# module through `go test -overlay`; nothing is written to /repo. Prints PROBES-OK or the failing probe.
export PATH=/opt/veriftools/go1.26.8/bin:$PATH GOFLAGS=-mod=mod GOPROXY=off GOSUMDB=off GOTOOLCHAIN=local
REPO=${SPECV_REPO:-/repo}
T=$(mktemp -d)
# the probes run as an external test package of an existing directory (the test binary needs a real directory)
sed 's/^package libprobe$/package bufconn_test/' /verif/libprobe/probe_test.go > $T/probe_test.go
printf '{"Replace": {"%s/util/bufconn/zz_libprobe_test.go": "%s/probe_test.go"}}\n' "$REPO" "$T" > $T/ov.json
cd $REPO && go test -overlay $T/ov.json -vet=off -count=1 -timeout 10m -run 'TestProbe' ./util/bufconn 2>&1 | tail -15 > $T/out.txt
rc=1; grep -q "^ok" $T/out.txt && rc=0
cat $T/out.txt; [ $rc = 0 ] && echo PROBES-OK
rm -rf $T; exit $rc
