#!/usr/bin/env python3
# gen_sqltx.py: emits the C23 contracts of the SQLite mutators (one outer function and one transaction body each).
# The output is pasted between the C23 markers of contracts/repo/kv/sqlite3/zz_contracts_verif.go by hand-run:
#   ./scripts/gen_sqltx.py > /tmp/c23.txt
M = [
 # name, params, results, statement field, tracker key, add flag, remove flag, rows-affected check (error when 0 rows), direct return
 ("Put", "ctx context.Context, key []byte, value []byte", "(err error)", "simplePut", "key", "SimpleFlag", "0", None, True),
 ("Delete", "ctx context.Context, key []byte", "(err error)", "simpleDel", "key", "0", "SimpleFlag", None, True),
 ("PrefixAppend", "ctx context.Context, prefix []byte, child []byte", "(err error)", "prefixAppend", "prefix", "PrefixFlag", "0", "chord.ErrKVPrefixConflict", True),
 ("PrefixRemove", "ctx context.Context, prefix []byte, child []byte", "(err error)", "prefixRemove", "prefix", "0", "PrefixFlag", None, True),
 ("Acquire", "ctx context.Context, lease []byte, ttl time.Duration", "(tok uint64, err error)", "leaseAcquire", "lease", "LeaseFlag", "0", "chord.ErrKVLeaseConflict", False),
 ("Renew", "ctx context.Context, lease []byte, ttl time.Duration, prevToken uint64", "(tok uint64, err error)", "leaseRenew", "lease", "LeaseFlag", "0", "chord.ErrKVLeaseExpired", False),
 ("Release", "ctx context.Context, lease []byte, token uint64", "(err error)", "leaseRelease", "lease", "0", "LeaseFlag", "chord.ErrKVLeaseExpired", True),
]
out = []
for name, params, results, stmt, key, add, rem, zero, direct in M:
    out.append(f"//@ func (s *SqliteKV) {name}({params}) {results}")
    out.append("//@   safety off")
    out.append("//@   opt frame=off")
    out.append("//@   ghost txs int = 0")
    out.append("//@   ghost werr error = nil")
    out.append("//@   at call withWriteTx#*: assert one-write-transaction-on-the-writer-connection: callarg1 == s.writer && txs == 0")
    out.append("//@   at after call withWriteTx#*: ghost werr := callresult")
    out.append("//@   at after call withWriteTx#*: ghost txs := txs + 1")
    for f in ("Exec", "ExecContext"):
        out.append(f"//@   at call {f}#?: assert no-statement-changes-the-store-outside-the-transaction: false")
    if direct:
        out.append("//@   ensures local-acknowledged-exactly-when-the-transaction-committed: txs == 1 && err == werr")
    else:
        out.append("//@   ensures local-acknowledged-only-when-the-transaction-committed: err == nil ==> (txs == 1 && werr == nil)")
        out.append("//@   ensures local-a-failed-transaction-is-reported: (txs == 1 && werr != nil) ==> err == werr")
    out.append("")
    out.append(f"//@ func (s *SqliteKV) {name}$1(tx *sql.Tx) (err error)")
    out.append("//@   safety off")
    out.append("//@   opt frame=off")
    out.append("//@   requires the-transaction-and-the-captured-receiver-exist: tx != nil && s != nil")
    out.append("//@   ghost onTx bool = true")
    out.append("//@   ghost lastStmt *sql.Stmt = nil")
    out.append("//@   ghost execs int = 0")
    out.append("//@   ghost xerr error = nil")
    out.append("//@   ghost tracked int = 0")
    out.append("//@   ghost terr error = nil")
    out.append("//@   at call StmtContext#*: ghost onTx := onTx && callarg0 == tx")
    out.append("//@   at call StmtContext#*: ghost lastStmt := callarg2")
    out.append(f"//@   at call Exec#*: assert the-data-statement-runs-once-on-this-transaction-before-the-tracker: onTx && lastStmt == s.stmts.{stmt} && execs == 0 && tracked == 0")
    out.append("//@   at after call Exec#*: ghost xerr := callresult1")
    out.append("//@   at after call Exec#*: ghost execs := execs + 1")
    out.append("//@   at call ExecContext#?: assert no-statement-bypasses-the-transaction: false")
    out.append(f"//@   at call updateKeyTracker#*: assert tracker-updated-in-the-same-transaction-after-the-data-statement-succeeded: callarg2 == tx && execs == 1 && xerr == nil && tracked == 0 && callarg3 == {key} && callarg4 == {add} && callarg5 == {rem}")
    out.append("//@   at after call updateKeyTracker#*: ghost terr := callresult")
    out.append("//@   at after call updateKeyTracker#*: ghost tracked := tracked + 1")
    out.append("//@   ensures local-success-means-data-and-tracker-were-both-written-in-this-transaction: err == nil ==> (execs == 1 && xerr == nil && tracked == 1 && terr == nil)")
    out.append("//@   ensures local-a-failed-statement-fails-the-transaction: (execs == 1 && xerr != nil) ==> err == xerr")
    out.append("//@   ensures local-a-failed-tracker-update-fails-the-transaction: tracked == 1 ==> err == terr")
    if zero:
        out.append("//@   ghost rowsRead bool = false")
        out.append("//@   ghost rows int64 = 0")
        out.append("//@   ghost rerr error = nil")
        out.append("//@   at after call RowsAffected#*: ghost rows := callresult0")
        out.append("//@   at after call RowsAffected#*: ghost rerr := callresult1")
        out.append("//@   at after call RowsAffected#*: ghost rowsRead := true")
        out.append("//@   at call updateKeyTracker#*: assert the-tracker-is-touched-only-after-the-statement-changed-a-row: rowsRead && rerr == nil && rows != 0")
        out.append(f"//@   ensures local-a-statement-that-changed-no-row-is-the-documented-refusal: (rowsRead && rerr == nil && rows == 0) ==> err == {zero}")
        out.append("//@   ensures local-an-unreadable-row-count-fails-the-transaction: (rowsRead && rerr != nil) ==> err == rerr")
        out.append(f"//@   ensures local-errors-come-from-the-statements-or-the-conflict-rule: err == nil || err == xerr || err == terr || err == {zero} || tracked == 0")
    out.append("")
print("\n".join(out))
