#!/usr/bin/env python3
"""gen_checks_table.py: rewrites the table between the CHECKS-TABLE markers of DESIGN.md from checks.json and the
evidence files (units, obligations of the last quick run, dependencies, bounded stand-ins, open findings)."""
import json, os
V = '/verif'
d = json.load(open(f'{V}/checks.json'))
kf = json.load(open(f'{V}/known_findings.json'))
rows = ["| Property | Units | Obligations (last run) | Includes | Bounded stand-ins | Findings | Not decided (first item) |", "|---|---|---|---|---|---|---|"]
for pid in sorted(d):
    c = d[pid]
    ev = {}
    try:
        ev = json.load(open(f'{V}/evidence/{pid}.json'))
    except Exception:
        pass
    cov = ev.get('coverage', {})
    nob = cov.get('obligations', cov.get('discharged', ''))
    f = [("open" if k['status'] == 'open' else k['status']) for k in kf if k['property'] == pid]
    nd = (c.get('not_decided') or [''])[0]
    nd = nd[:140] + ('…' if len(nd) > 140 else '')
    rows.append(f"| {pid} | {len(c['units'])} | {nob} | {', '.join(c.get('depends_on', []))} | {len(c.get('bounded_runs', []) or [])} | {'; '.join(f)} | {nd.replace('|', '/')} |")
p = f'{V}/DESIGN.md'
s = open(p).read()
a = s.index('<!-- CHECKS-TABLE-BEGIN -->') + len('<!-- CHECKS-TABLE-BEGIN -->')
b = s.index('<!-- CHECKS-TABLE-END -->')
open(p, 'w').write(s[:a] + '\n' + '\n'.join(rows) + '\n' + s[b:])
print(len(rows) - 2, 'checks')
