#!/usr/bin/env python3
"""gen_catch_table.py: rewrites the table between the CATCH-TABLE markers of DESIGN.md from seeded/catch_matrix.json
(written by `specv selftest`) and the seeds' meta.json."""
import json, glob, os, re
V = '/verif'
cm = json.load(open(f'{V}/seeded/catch_matrix.json')) if os.path.exists(f'{V}/seeded/catch_matrix.json') else {}
rows = ["| Seed | Change (from the seed's meta.json) | Reported by |", "|---|---|---|"]
nd = []
for d in sorted(glob.glob(f'{V}/seeded/*_m*')):
    name = os.path.basename(d)
    try:
        meta = json.load(open(d + '/meta.json'))
    except Exception:
        continue
    summ = re.sub(r'\s+', ' ', meta.get('summary', '')).replace('|', '\\|')
    if len(summ) > 230:
        summ = summ[:227] + '…'
    e = cm.get(name)
    if e is None:
        by = 'not run yet'
    elif e['detected']:
        obl = [o for o in e.get('obligations', [])]
        short = []
        for o in obl[:3]:
            short.append('`' + o[-90:] + '`')
        by = ', '.join(short) + (' (+more)' if len(obl) > 3 else '')
        if e.get('confirmed_replay'):
            by += ' — replay confirmed'
    else:
        why = meta.get('why_not_detected', '')
        by = '**not detected**' + (': ' + why.replace('|', '\\|') if why else '')
        nd.append(name)
    rows.append(f'| {name} | {summ} | {by} |')
p = f'{V}/DESIGN.md'
s = open(p).read()
a = s.index('<!-- CATCH-TABLE-BEGIN -->') + len('<!-- CATCH-TABLE-BEGIN -->')
b = s.index('<!-- CATCH-TABLE-END -->')
s = s[:a] + '\n' + '\n'.join(rows) + '\n\n' + (f'Not detected: {", ".join(nd)}.\n' if nd else 'Every seeded change in the corpus is reported.\n') + s[b:]
open(p, 'w').write(s)
print(len(rows) - 2, 'seeds,', len(nd), 'not detected')
