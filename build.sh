#!/bin/sh
# builds /verif/bin/specv from vendored sources (offline)
cd "$(dirname "$0")/tool" && GOFLAGS=-mod=vendor GOPROXY=off GOSUMDB=off GOTOOLCHAIN=local PATH=/opt/veriftools/go1.26.8/bin:$PATH go build -o ../bin/specv ./cmd/specv
