//go:build verif

// Contracts for package acme, checked by /verif/bin/specv.
// This file contains no executable code; only the //@ lines are read.
package acme

// ---- C48: the ACME DNS responder
//@ func dnsKeyName(subdomain string) (r string)
//@   pure

//@ func (d *DNS) answerTXT(q dns.Question) (ra []dns.RR, err error)
//@   safety off
//@   opt frame=off
//@   requires d != nil && d.storage != nil
//@   ghost lerr error = nil
//@   ghost listed bool = false
//@   ghost n int = 0
//@   ghost vs gmap[int][]byte
//@   ghost src gmap[int]int
//@   ghost pos gmap[int]int
//@   at call dnsKeyName#1: assert challenges-are-looked-up-under-the-lower-cased-label: indexOf(lower(q.Name), d.domain) >= 1 && callarg0 == substr(lower(q.Name), 0, indexOf(lower(q.Name), d.domain) - 1)
//@   at call PrefixList#1: assert lists-the-labels-challenge-key: str(callarg1) == dnsKeyName(subdomain)
//@   at after call PrefixList#1: ghost lerr := callresult1
//@   at after call PrefixList#1: ghost listed := true
//@   at after call PrefixList#1: ghost n := len(callresult0)
//@   at after call PrefixList#1: ghost vs := snap(callresult0)
//@   at call append#2: assert each-answer-is-its-own-record-with-exactly-that-one-challenge: len(callarg1) == 1 && cast(callarg1[0], "*dns.TXT") == r && len(r.Txt) == 1 && r.Txt[0] == str(v) && r.Hdr.Name == q.Name && r.Hdr.Rrtype == dns.TypeTXT && r.Hdr.Class == dns.ClassINET
//@   at call append#2: ghost src[len(ra)] := rangeindex
//@   at call append#2: ghost pos[rangeindex] := len(ra)
//@   ensures local-a-storage-failure-is-an-error: (listed && lerr != nil) ==> (err != nil && len(ra) == 0)
//@   ensures local-names-outside-the-zone-get-no-txt: !listed ==> (err == nil && len(ra) == 0)
//@   ensures local-only-stored-non-empty-values-are-answered-in-order: (listed && lerr == nil) ==> (err == nil && (forall a int {src[a]} :: (0 <= a && a < len(ra)) ==> (0 <= src[a] && src[a] < n && len(vs[src[a]]) > 0)) && (forall a, b int {src[a], src[b]} :: (0 <= a && a < b && b < len(ra)) ==> src[a] < src[b]))
//@   ensures local-every-stored-non-empty-value-is-answered: (listed && lerr == nil) ==> (forall j int {pos[j]} :: (0 <= j && j < n && len(vs[j]) > 0) ==> (0 <= pos[j] && pos[j] < len(ra) && src[pos[j]] == j))
//@   loop v: invariant idx: -1 <= rangeindex && rangeindex < len(vals) && len(vals) == n && listed && lerr == nil && 0 <= len(ra) && len(ra) <= rangeindex + 1 && (forall j int {vals[j]} :: (0 <= j && j < n) ==> vals[j] == vs[j])
//@   loop v: invariant sound: (forall a int {src[a]} :: (0 <= a && a < len(ra)) ==> (0 <= src[a] && src[a] <= rangeindex && len(vs[src[a]]) > 0)) && (forall a, b int {src[a], src[b]} :: (0 <= a && a < b && b < len(ra)) ==> src[a] < src[b])
//@   loop v: invariant complete: forall j int {pos[j]} :: (0 <= j && j <= rangeindex && len(vs[j]) > 0) ==> (0 <= pos[j] && pos[j] < len(ra) && src[pos[j]] == j)

//@ func (d *DNS) answer(q dns.Question) (rr []dns.RR, rcode int, auth bool)
//@   safety off
//@   opt frame=off
//@   requires d != nil && d.storage != nil
//@   ghost imm bool = false
//@   ghost terr error = nil
//@   ghost ntxt int = 0
//@   ghost asked bool = false
//@   at after call isImmediate#1: ghost imm := callresult
//@   at call answerTXT#1: assert stored-challenges-are-consulted-only-for-txt-queries-on-immediate-names: imm && q.Qtype == dns.TypeTXT && callarg1 == q
//@   at after call answerTXT#1: ghost terr := callresult1
//@   at after call answerTXT#1: ghost ntxt := len(callresult0)
//@   at after call answerTXT#1: ghost asked := true
//@   ensures local-names-too-far-below-the-zone-are-authoritative-name-errors: !imm ==> (len(rr) == 0 && rcode == dns.RcodeNameError && auth)
//@   ensures local-any-is-not-implemented: (imm && q.Qtype == dns.TypeANY) ==> (rcode == dns.RcodeNotImplemented && len(rr) == 0 && !asked)
//@   ensures local-a-storage-failure-is-a-server-failure: (asked && terr != nil) ==> rcode == dns.RcodeServerFailure
//@   ensures local-no-record-is-a-name-error: (imm && q.Qtype != dns.TypeANY && len(rr) == 0 && !(asked && terr != nil)) ==> rcode == dns.RcodeNameError
//@   ensures local-an-answered-query-has-no-error-code: (imm && q.Qtype != dns.TypeANY && len(rr) > 0 && !(asked && terr != nil)) ==> rcode == 0
//@   ensures local-txt-queries-consult-the-stored-challenges: (imm && q.Qtype == dns.TypeTXT) ==> asked
//@   ensures local-txt-answers-are-appended-to-the-static-ones: (asked && terr == nil) ==> len(rr) >= ntxt
//@   loop ri: invariant kept: imm && !asked && rcode == 0 && 0 <= len(rr)

//@ func (d *DNS) readQuery(m *dns.Msg)
//@   safety off
//@   opt frame=off
//@   requires d != nil && d.storage != nil && m != nil
//@   ghost nsAdded bool = false
//@   at call append#2: assert soa-accompanies-only-an-authoritative-name-error: authoritative && m.MsgHdr.Rcode == dns.RcodeNameError
//@   at call append#2: ghost nsAdded := true
//@   ensures local-an-authoritative-name-error-carries-the-soa: (m.MsgHdr.Authoritative && m.MsgHdr.Rcode == dns.RcodeNameError) ==> nsAdded

// ---- C49: certificate storage over the DHT
//@ func kvKeyName(key string) (r string)
//@   pure
//@ pure (*go.miragespace.co/specter/spec/protocol.KeyComposite).GetType
//@ pure (*go.miragespace.co/specter/spec/protocol.KeyComposite).GetKey

//@ func (c *ChordStorage) Store(ctx context.Context, key string, value []byte) (err error)
//@   safety off
//@   opt frame=off
//@   requires c != nil && c.KV != nil
//@   ghost perr error = nil
//@   at call Put#1: assert stores-the-value-under-the-keys-name: callarg0 == ctx && str(callarg1) == kvKeyName(key) && callarg2 == value
//@   at after call Put#1: ghost perr := callresult
//@   ensures local-returns-the-stores-answer: err == perr

//@ func (c *ChordStorage) Delete(ctx context.Context, key string) (err error)
//@   safety off
//@   opt frame=off
//@   requires c != nil && c.KV != nil
//@   ghost derr error = nil
//@   at call Delete#1: assert deletes-the-keys-name: callarg0 == ctx && str(callarg1) == kvKeyName(key)
//@   at after call Delete#1: ghost derr := callresult
//@   ensures local-returns-the-stores-answer: err == derr

//@ func (c *ChordStorage) Load(ctx context.Context, key string) (r []byte, err error)
//@   safety off
//@   opt frame=off
//@   requires c != nil && c.KV != nil
//@   ghost gerr error = nil
//@   ghost got []byte
//@   at call Get#1: assert reads-the-keys-name: str(callarg1) == kvKeyName(key)
//@   at after call Get#1: ghost gerr := callresult1
//@   at after call Get#1: ghost got := callresult0
//@   ensures local-a-read-failure-is-returned: gerr != nil ==> (err == gerr && r == nil)
//@   ensures local-a-nil-value-does-not-exist: (gerr == nil && got == nil) ==> (err == fs.ErrNotExist && r == nil)
//@   ensures local-otherwise-the-stored-value: (gerr == nil && got != nil) ==> (err == nil && r == got)

//@ func (c *ChordStorage) Exists(ctx context.Context, key string) (r bool)
//@   safety off
//@   opt frame=off
//@   requires c != nil && c.KV != nil
//@   ghost gerr error = nil
//@   ghost got []byte
//@   at call Get#1: assert reads-the-keys-name: str(callarg1) == kvKeyName(key)
//@   at after call Get#1: ghost gerr := callresult1
//@   at after call Get#1: ghost got := callresult0
//@   ensures local-exists-iff-a-non-nil-value-was-read: r == (gerr == nil && got != nil)

//@ func (c *ChordStorage) startLeaseRenewal(key string, token uint64) (err error)
//@   safety off
//@   opt frame=off
//@   requires c != nil && c.leaseToken != nil
//@   at call Store#1: assert holder-remembers-the-granted-token-under-the-key: callarg1 == key && callarg2 == h && h.token == token
//@   at go renewLease#1: assert the-lease-is-kept-alive-for-this-holder: callarg1 == key && callarg2 == h
//@   ensures never-fails: err == nil
//@   ensures holder-is-registered: c.leaseToken.keys[key]

//@ func (c *ChordStorage) Lock(ctx context.Context, key string) (err error)
//@   safety off
//@   opt frame=off
//@   requires c != nil && c.KV != nil && c.leaseToken != nil
//@   ghost aerr error = nil
//@   ghost tok uint64 = 0
//@   ghost held bool = false
//@   at call Acquire#1: assert acquires-the-keys-lease: str(callarg1) == kvKeyName(key) && callarg2 == c.leaseTTL
//@   at after call Acquire#1: ghost aerr := callresult1
//@   at after call Acquire#1: ghost tok := callresult0
//@   at call startLeaseRenewal#1: assert lock-is-held-only-after-a-successful-acquire: aerr == nil && callarg1 == key && callarg2 == tok
//@   at call startLeaseRenewal#1: ghost held := true
//@   at recv#1: assert waits-only-on-a-lease-conflict: aerr == chord.ErrKVLeaseConflict
//@   ensures local-success-means-the-lease-was-acquired: err == nil ==> held
//@   ensures local-other-failures-are-returned: (err != nil) ==> (!held && err == aerr && aerr != chord.ErrKVLeaseConflict)

//@ func (c *ChordStorage) Unlock(ctx context.Context, key string) (err error)
//@   safety off
//@   opt frame=off
//@   requires c != nil && c.KV != nil && c.leaseToken != nil
//@   ghost was bool = false
//@   ghost released bool = false
//@   at after call LoadAndDelete#1: ghost was := callresult1
//@   at call LoadAndDelete#1: assert forgets-the-keys-holder: callarg1 == key
//@   at call Release#1: assert releases-the-keys-lease-held-by-this-instance: was && str(callarg1) == kvKeyName(key)
//@   at call Release#1: ghost released := true
//@   ensures local-only-a-holder-releases: !was ==> (err != nil && !released)
//@   ensures holder-is-forgotten: !c.leaseToken.keys[key]

//@ func (c *ChordStorage) List(ctx context.Context, prefix string, recursive bool) (r []string, err error)
//@   safety off
//@   opt frame=off
//@   opt strings=abstract
//@   requires c != nil && c.KV != nil
//@   at call append#1: assert recursive-listing-reports-stored-values-only: key.GetType() == protocol.KeyComposite_SIMPLE
//@   at call append#2: assert non-recursive-listing-reports-each-child-of-a-stored-value-once: key#2.GetType() == protocol.KeyComposite_SIMPLE
//@   ensures non-recursive-children-are-distinct: (!recursive && err == nil) ==> (forall a, b int {r[a], r[b]} :: (0 <= a && a < b && b < len(r)) ==> r[a] != r[b])
//@   loop 2: invariant idx: -1 <= rangeindex#2 && rangeindex#2 < len(keys) && !recursive && fresh(found) && fresh(seen) && 0 <= len(found)
//@   loop 2: invariant seen: forall a int {found[a]} :: (0 <= a && a < len(found)) ==> seen[found[a]]
//@   loop 2: invariant nodup: forall a, b int {found[a], found[b]} :: (0 <= a && a < b && b < len(found)) ==> found[a] != found[b]

// ---- C49: every renewal of a lock's lease, periodic or explicit, renews the key's own lease for the configured TTL
// with the token this instance holds, and records the new token only when the renewal succeeded
//@ func (c *ChordStorage) renewLeaseOnce(ctx context.Context, key string, l *leaseHolder) (err error)
//@   safety off
//@   opt frame=off
//@   requires c != nil
//@   ghost renews int = 0
//@   ghost rerr error = nil
//@   ghost rtok uint64 = 0
//@   ghost stores int = 0
//@   at call Renew#*: assert renews-the-keys-lease-for-the-configured-ttl-with-the-held-token: str(callarg1) == kvKeyName(key) && callarg2 == c.leaseTTL && renews == 0
//@   at after call Renew#*: ghost rtok := callresult0
//@   at after call Renew#*: ghost rerr := callresult1
//@   at after call Renew#*: ghost renews := renews + 1
//@   at call StoreUint64#?: assert the-new-token-is-recorded-only-after-a-successful-renewal: renews == 1 && rerr == nil && callarg1 == rtok
//@   at call StoreUint64#?: ghost stores := stores + 1
//@   ensures local-one-renewal-and-its-error-is-returned: renews == 1 && ((rerr != nil) ==> (err == rerr && stores == 0))

//@ func (c *ChordStorage) RenewLockLease(ctx context.Context, key string, leaseDuration time.Duration) (err error)
//@   safety off
//@   opt frame=off
//@   requires c != nil
//@   ghost calls int = 0
//@   at call renewLeaseOnce#*: assert an-explicit-renewal-is-the-same-renewal-as-the-periodic-one: callarg2 == key && calls == 0
//@   at call renewLeaseOnce#*: ghost calls := calls + 1
//@   at call Renew#?: assert no-renewal-with-other-parameters: false
//@   ensures local-at-most-one-renewal: calls <= 1
