//go:build verif

// Contracts for package gateway, checked by /verif/bin/specv.
// This file contains no executable code; only the //@ lines are read.
package gateway

// ---- C36: status reported for tunnel failures

//@ func (g *Gateway) errorHandler(w http.ResponseWriter, r *http.Request, e error)
//@   safety off
//@   opt frame=off
//@   requires fresh-response: w != nil && w.httpStatus == 0
//@   ensures not-found-404: errors.Is(e, tun.ErrDestinationNotFound) ==> w.httpStatus == 404
//@   ensures not-connected-503: (!errors.Is(e, tun.ErrDestinationNotFound) && errors.Is(e, tun.ErrTunnelClientNotConnected)) ==> w.httpStatus == 503
//@   ensures cancelled-writes-nothing: (!errors.Is(e, tun.ErrDestinationNotFound) && !errors.Is(e, tun.ErrTunnelClientNotConnected) && (errors.Is(e, context.Canceled) || errors.Is(e, io.EOF))) ==> w.httpStatus == 0
//@   ensures timeout-504: (!errors.Is(e, tun.ErrDestinationNotFound) && !errors.Is(e, tun.ErrTunnelClientNotConnected) && !errors.Is(e, context.Canceled) && !errors.Is(e, io.EOF) && tun.IsTimeout(e)) ==> w.httpStatus == 504
//@   ensures otherwise-502: (!errors.Is(e, tun.ErrDestinationNotFound) && !errors.Is(e, tun.ErrTunnelClientNotConnected) && !errors.Is(e, context.Canceled) && !errors.Is(e, io.EOF) && !tun.IsTimeout(e)) ==> w.httpStatus == 502

//@ func (g *Gateway) httpConnect(w http.ResponseWriter, r *http.Request)
//@   safety off
//@   opt frame=off
//@   requires fresh-response: w != nil && w.httpStatus == 0
//@   ghost dialErr error = nil
//@   ghost recvErr error = nil
//@   ghost hijacked bool = false
//@   ghost piped bool = false
//@   at after call connectDialer#1: ghost dialErr := callresult1
//@   at after call connectDialer#1: assume dial-success-gives-a-connection: callresult1 == nil ==> callresult0 != nil
//@   at after call BoundedReceive#1: ghost recvErr := callresult
//@   at call Hijack#1: assert hijack-only-after-ok-status: dialErr == nil && recvErr == nil && status.Status == protocol.TunnelStatusCode_STATUS_OK && w.httpStatus == 0
//@   at call Hijack#1: ghost hijacked := true
//@   at call Pipe#1: ghost piped := true
//@   ensures dial-failure-404: dialErr != nil ==> w.httpStatus == 404 && !hijacked
//@   ensures receive-failure-502: (dialErr == nil && recvErr != nil) ==> w.httpStatus == 502 && !hijacked
//@   ensures bad-status-503: (dialErr == nil && recvErr == nil && status.Status != protocol.TunnelStatusCode_STATUS_OK) ==> w.httpStatus == 503 && !hijacked
//@   ensures piped-only-when-hijacked: piped ==> hijacked

//@ func (g *Gateway) forwardTCP(ctx context.Context, host string, remote string, conn DeadlineReadWriteCloser) (ferr error)
//@   safety off
//@   opt frame=off
//@   requires conn != nil
//@   requires roots-are-lower-case: forall d string :: isRoot(g, d) ==> lower(d) == d
//@   ghost sentStatus bool = false
//@   ghost sentErr error = nil
//@   ghost closed bool = false
//@   ghost piped bool = false
//@   at $1/call SendStatusProto#1: assert status-before-close: !closed
//@   at $1/call SendStatusProto#1: ghost sentStatus := true
//@   at $1/call SendStatusProto#1: ghost sentErr := callarg1
//@   at $1/call Close#1: assert close-after-status: sentStatus
//@   at $1/call Close#1: ghost closed := true
//@   at $1/call Pipe#1: assert pipe-only-without-error: err == nil && !sentStatus && !closed
//@   at $1/call Pipe#1: ghost piped := true
//@   ensures failure-sends-status-then-closes: ferr != nil ==> (sentStatus && sentErr == ferr && closed && !piped)
//@   ensures success-pipes: ferr == nil ==> (piped && !sentStatus && !closed)

// ---- C34: request host -> tunnel name

//@ macro isRoot(g *Gateway, d string) bool = slices.Contains(g.RootDomains, d)

//@ func (g *Gateway) extractHostname(host string) (hostname string, err error)
//@   opt frame=off
//@   requires roots-are-lower-case: forall d string :: isRoot(g, d) ==> lower(d) == d
//@   ensures ip-refused: net.ParseIP(host) != nil ==> err != nil
//@   ensures too-few-labels-refused: strCount(host, ".") < 2 ==> err != nil
//@   ensures refused-means-empty: err != nil ==> hostname == ""
//@   ensures under-root-domain-gives-label: (err == nil && isRoot(g, lower(substr(host, indexOf(host, ".") + 1, len(host) - indexOf(host, ".") - 1)))) ==> hostname == lower(substr(host, 0, indexOf(host, ".")))
//@   ensures otherwise-whole-host: (err == nil && !isRoot(g, lower(substr(host, indexOf(host, ".") + 1, len(host) - indexOf(host, ".") - 1)))) ==> hostname == lower(host)
