//go:build verif

// Contracts for package gateway, checked by /verif/bin/specv.
// This file contains no executable code; only the //@ lines are read.
package gateway

// ---- C36: status reported for tunnel failures

//@ func (g *Gateway) errorHandler(w http.ResponseWriter, r *http.Request, e error)
//@   safety off
//@   opt frame=off
//@   requires fresh-response: w != nil && w.httpStatus == 0
//@   ensures not-found-404: errors.Is(e, tun.ErrDestinationNotFound) ==> w.httpStatus == 404
//@   ensures not-connected-503: (!errors.Is(e, tun.ErrDestinationNotFound) && errors.Is(e, tun.ErrTunnelClientNotConnected)) ==> w.httpStatus == 503
//@   ensures cancelled-writes-nothing: (!errors.Is(e, tun.ErrDestinationNotFound) && !errors.Is(e, tun.ErrTunnelClientNotConnected) && (errors.Is(e, context.Canceled) || errors.Is(e, io.EOF))) ==> w.httpStatus == 0
//@   ensures timeout-504: (!errors.Is(e, tun.ErrDestinationNotFound) && !errors.Is(e, tun.ErrTunnelClientNotConnected) && !errors.Is(e, context.Canceled) && !errors.Is(e, io.EOF) && tun.IsTimeout(e)) ==> w.httpStatus == 504
//@   ensures otherwise-502: (!errors.Is(e, tun.ErrDestinationNotFound) && !errors.Is(e, tun.ErrTunnelClientNotConnected) && !errors.Is(e, context.Canceled) && !errors.Is(e, io.EOF) && !tun.IsTimeout(e)) ==> w.httpStatus == 502

//@ func (g *Gateway) httpConnect(w http.ResponseWriter, r *http.Request)
//@   safety off
//@   opt frame=off
//@   requires fresh-response: w != nil && w.httpStatus == 0
//@   ghost dialErr error = nil
//@   ghost recvErr error = nil
//@   ghost hijacked bool = false
//@   ghost piped bool = false
//@   at after call connectDialer#1: ghost dialErr := callresult1
//@   at after call connectDialer#1: assume dial-success-gives-a-connection: callresult1 == nil ==> callresult0 != nil
//@   at after call BoundedReceive#1: ghost recvErr := callresult
//@   at call Hijack#1: assert hijack-only-after-ok-status: dialErr == nil && recvErr == nil && status.Status == protocol.TunnelStatusCode_STATUS_OK && w.httpStatus == 0
//@   at call Hijack#1: ghost hijacked := true
//@   at call Pipe#1: ghost piped := true
//@   ensures dial-failure-404: dialErr != nil ==> w.httpStatus == 404 && !hijacked
//@   ensures receive-failure-502: (dialErr == nil && recvErr != nil) ==> w.httpStatus == 502 && !hijacked
//@   ensures bad-status-503: (dialErr == nil && recvErr == nil && status.Status != protocol.TunnelStatusCode_STATUS_OK) ==> w.httpStatus == 503 && !hijacked
//@   ensures piped-only-when-hijacked: piped ==> hijacked

//@ func (g *Gateway) forwardTCP(ctx context.Context, host string, remote string, conn DeadlineReadWriteCloser) (ferr error)
//@   safety off
//@   opt frame=off
//@   requires conn != nil
//@   requires roots-are-lower-case: forall d string :: isRoot(g, d) ==> lower(d) == d
//@   ghost sentStatus bool = false
//@   ghost sentErr error = nil
//@   ghost closed bool = false
//@   ghost piped bool = false
//@   at $1/call SendStatusProto#1: assert status-before-close: !closed
//@   at $1/call SendStatusProto#1: ghost sentStatus := true
//@   at $1/call SendStatusProto#1: ghost sentErr := callarg1
//@   at $1/call Close#1: assert close-after-status: sentStatus
//@   at $1/call Close#1: ghost closed := true
//@   at $1/call Pipe#1: assert pipe-only-without-error: err == nil && !sentStatus && !closed
//@   at $1/call Pipe#1: ghost piped := true
//@   ensures failure-sends-status-then-closes: ferr != nil ==> (sentStatus && sentErr == ferr && closed && !piped)
//@   ensures success-pipes: ferr == nil ==> (piped && !sentStatus && !closed)

// ---- C34: request host -> tunnel name

//@ macro isRoot(g *Gateway, d string) bool = slices.Contains(g.RootDomains, d)

//@ func (g *Gateway) extractHostname(host string) (hostname string, err error)
//@   opt frame=off
//@   requires roots-are-lower-case: forall d string :: isRoot(g, d) ==> lower(d) == d
//@   ensures ip-refused: net.ParseIP(host) != nil ==> err != nil
//@   ensures too-few-labels-refused: strCount(host, ".") < 2 ==> err != nil
//@   ensures refused-means-empty: err != nil ==> hostname == ""
//@   ensures under-root-domain-gives-label: (err == nil && isRoot(g, lower(substr(host, indexOf(host, ".") + 1, len(host) - indexOf(host, ".") - 1)))) ==> hostname == lower(substr(host, 0, indexOf(host, ".")))
//@   ensures otherwise-whole-host: (err == nil && !isRoot(g, lower(substr(host, indexOf(host, ".") + 1, len(host) - indexOf(host, ".") - 1)))) ==> hostname == lower(host)

// ---- C35: client-asserted forwarding headers. The outbound header map is tracked as a ghost log of the
// calls made on it: which names were deleted before SetXForwarded, and what the gateway set afterwards
// (http.Header canonicalises names on Del/Set; httputil's Rewrite mode has already removed inbound
// Forwarded / X-Forwarded-* headers before proxyRewrite runs: both are library behaviour, assumed).
//@ func (g *Gateway) proxyRewrite(preq *httputil.ProxyRequest)
//@   safety off
//@   opt frame=off
//@   requires preq != nil && preq.In != nil && preq.Out != nil && preq.Out.URL != nil
//@   requires the-declared-strip-list: len(delHeaders) == 3 && delHeaders[0] == "True-Client-IP" && delHeaders[1] == "X-Real-IP" && delHeaders[2] == "X-Forwarded-For"
//@   ghost deleted set[string]
//@   ghost xf bool = false
//@   ghost host string = ""
//@   ghost hostSet bool = false
//@   ghost protoSet bool = false
//@   ghost fmtHost string = ""
//@   ghost fmtOK bool = false
//@   at call Hostname#1: assert the-asserted-host-is-the-requests-own-authority-for-http2-and-later-and-the-sni-only-for-http1-over-tls: callarg0 == out.URL && out.URL.Host == ((in.ProtoMajor > 2 || (in.ProtoMajor == 2 && in.ProtoMinor >= 0)) ? in.Host : (in.TLS != nil ? in.TLS.ServerName : in.Host))
//@   at call Del#1: assert strips-from-the-outbound-request-before-asserting-anything: callarg0 == out.Header && !xf && !hostSet && !protoSet
//@   at call Del#1: ghost deleted := add(deleted, callarg1)
//@   at call SetXForwarded#1: assert forwarded-headers-are-derived-from-the-connection-after-stripping: callarg0 == preq && deleted["True-Client-IP"] && deleted["X-Real-IP"] && deleted["X-Forwarded-For"] && !hostSet && !protoSet
//@   at call SetXForwarded#1: ghost xf := true
//@   at after call Sprintf#1: ghost fmtHost := callresult
//@   at call Sprintf#1: assert host-with-the-gateway-port: callarg0 == "%s:%d" && len(callarg1) == 2 && cast(callarg1[0], "string") == out.URL.Host && cast(callarg1[1], "int") == g.GatewayPort
//@   at call Sprintf#1: ghost fmtOK := true
//@   at call Set#*: assert only-the-two-gateway-headers-are-set-on-the-outbound-request: callarg0 == out.Header && (callarg1 == "X-Forwarded-Host" || callarg1 == "X-Forwarded-Proto")
//@   at call Set#*: assert host-is-asserted-by-the-gateway-after-the-library-default: callarg1 == "X-Forwarded-Host" ==> (xf && !protoSet && ((g.GatewayPort == 443 && callarg2 == out.URL.Host) || (g.GatewayPort != 443 && fmtOK && callarg2 == fmtHost)))
//@   at call Set#*: assert proto-is-https-and-set-after-the-library-default: callarg1 == "X-Forwarded-Proto" ==> (xf && hostSet && callarg2 == "https")
//@   at call Set#*: ghost hostSet := hostSet || callarg1 == "X-Forwarded-Host"
//@   at call Set#*: ghost protoSet := protoSet || callarg1 == "X-Forwarded-Proto"
//@   ensures local-client-ip-headers-are-stripped-and-forwarding-headers-asserted: deleted["True-Client-IP"] && deleted["X-Real-IP"] && deleted["X-Forwarded-For"] && xf && hostSet && protoSet
//@   ensures the-asserted-host-has-no-port-of-its-own: out.Host == out.URL.Host
//@   loop header: invariant stripped-so-far: -1 <= rangeindex && rangeindex < 3 && !xf && !hostSet && !protoSet && (forall j int :: (0 <= j && j <= rangeindex) ==> deleted[delHeaders[j]]) && len(delHeaders) == 3 && delHeaders[0] == "True-Client-IP" && delHeaders[1] == "X-Real-IP" && delHeaders[2] == "X-Forwarded-For" && out == preq.Out && in == preq.In

// The handler that serves tunnel traffic: the reverse proxy rewrites every request with proxyRewrite (and has no
// Director), and no middleware is installed on the router in front of it - a middleware such as chi's RealIP
// rewrites RemoteAddr from client-supplied headers, after which SetXForwarded derives X-Forwarded-For from the
// client's claim (or drops it) instead of from the connection.
//@ func (g *Gateway) proxyHandler(proxyLogger *log.Logger) (h http.Handler)
//@   safety off
//@   opt frame=off
//@   ghost mounted int = 0
//@   at call Use#?: assert no-middleware-rewrites-the-request-in-front-of-the-proxy: false
//@   at call With#?: assert no-middleware-rewrites-the-request-in-front-of-the-proxy: false
//@   at call Handle#*: assert the-catch-all-route-is-the-proxy: callarg0 == router && callarg1 == "/*" && dyntype(callarg2, "*httputil.ReverseProxy") && cast(callarg2, "*httputil.ReverseProxy") == proxy && mounted == 0
//@   at call Handle#*: assert the-proxy-rewrites-with-proxyRewrite-and-has-no-director: isfunc(proxy.Rewrite, "proxyRewrite", g) && proxy.Director == nil
//@   at call Handle#*: ghost mounted := mounted + 1
//@   ensures local-the-router-with-the-proxy-is-returned: mounted == 1 && dyntype(h, "*chi.Mux") && cast(h, "*chi.Mux") == router

// the package initializer gives the strip list its declared contents
//@ func init()
//@   safety off
//@   opt frame=off
//@   ensures strip-list-as-declared: len(delHeaders) == 3 && delHeaders[0] == "True-Client-IP" && delHeaders[1] == "X-Real-IP" && delHeaders[2] == "X-Forwarded-For"

// ---- C37: the internal admin prefix. chi applies a group's middlewares, in registration order, to
// everything registered on the group afterwards (assumed); what is proved is the registration order.
//@ func (a *apexServer) Mount(r *chi.Mux)
//@   safety off
//@   opt frame=off
//@   opt strings=abstract
//@   ghost routed bool = false
//@   at call Route#1: assert internal-prefix-only-with-both-credentials-configured: a.authUser != "" && a.authPass != "" && callarg1 == "/_internal"
//@   at call Route#1: ghost routed := true
//@   ghost pkiPrefix string = ""
//@   ghost pkiKnown bool = false
//@   at after call PathPrefix#?: ghost pkiPrefix := callresult
//@   at after call PathPrefix#?: ghost pkiKnown := true
//@   at call Get#*: assert the-public-pages-are-the-only-routes-registered-directly: callarg1 == "/" || callarg1 == "/quic.png"
//@   at call Mount#?: assert the-only-subtree-mounted-outside-the-protected-group-is-the-pki-service: pkiKnown && callarg0 == pkiPrefix
//@   at call Handle#?: assert nothing-else-is-registered-outside-the-protected-group: false
//@   at call HandleFunc#?: assert nothing-else-is-registered-outside-the-protected-group: false
//@   at call Post#?: assert nothing-else-is-registered-outside-the-protected-group: false
//@   at call Method#?: assert nothing-else-is-registered-outside-the-protected-group: false
//@   at call MethodFunc#?: assert nothing-else-is-registered-outside-the-protected-group: false
//@   at call Group#?: assert nothing-else-is-registered-outside-the-protected-group: false
//@   ensures local-without-credentials-the-prefix-is-not-served: (a.authUser == "" || a.authPass == "") ==> !routed

//@ func (a *apexServer) Mount$1(r chi.Router)
//@   safety off
//@   opt frame=off
//@   ghost ba func(http.Handler) http.Handler
//@   ghost made bool = false
//@   ghost authed bool = false
//@   ghost proxied bool = false
//@   at call BasicAuth#1: assert credentials-are-the-configured-pair: has(callarg1, a.authUser) && callarg1[a.authUser] == a.authPass
//@   at after call BasicAuth#1: ghost ba := callresult
//@   at after call BasicAuth#1: ghost made := true
//@   at call Use#1: assert basic-auth-is-the-first-middleware: made && !authed && !proxied && len(callarg0) == 1 && callarg0[0] == ba
//@   at call Use#1: ghost authed := true
//@   at call Use#2: assert node-proxying-runs-behind-authentication: authed && !proxied && len(callarg0) == 1 && callarg0[0] == a.internalProxy
//@   at call Use#2: ghost proxied := true
//@   at call Mount#*: assert every-endpoint-is-registered-behind-both-middlewares: authed && proxied
//@   at call HandleFunc#*: assert the-catch-all-is-registered-behind-both-middlewares: authed && proxied
//@   ensures local-group-is-protected: authed && proxied

// the node-proxy middleware itself: a request is either served locally or proxied, never both, and it is
// proxied only when it names a node and is not already a proxied request (so a proxied request cannot loop)
//@ func (g *Gateway) getInternalProxyHandler$4$1(w http.ResponseWriter, r *http.Request)
//@   safety off
//@   opt frame=off
//@   ghost fwd string = ""
//@   ghost addr string = ""
//@   ghost local int = 0
//@   ghost remote int = 0
//@   at after call Get#1: ghost fwd := callresult
//@   at after call Get#2: ghost addr := callresult
//@   at call Get#1: assert reads-the-forwarded-marker: callarg1 == "x-internal-proxy-forwarded"
//@   at call Get#2: assert reads-the-target-node-header: callarg1 == "x-internal-proxy-node-address"
//@   at call ServeHTTP#1: ghost local := local + 1
//@   at call WithNode#1: assert proxied-to-the-named-node: callarg1.Address == addr
//@   at call ServeHTTP#2: ghost remote := remote + 1
//@   ensures local-served-locally-xor-proxied: local + remote == 1
//@   ensures local-proxied-only-when-a-node-is-named-and-not-already-forwarded: remote == 1 ==> (fwd == "" && addr != "")
//@   ensures local-otherwise-served-locally: (fwd != "" || addr == "") ==> local == 1

//@ func (g *Gateway) getInternalProxyHandler$2(preq *httputil.ProxyRequest)
//@   safety off
//@   opt frame=off
//@   ghost marked bool = false
//@   ghost dropped bool = false
//@   at call Set#1: assert marks-the-request-as-forwarded: callarg1 == "x-internal-proxy-forwarded" && callarg2 == "true"
//@   at call Set#1: ghost marked := true
//@   at call Del#1: assert drops-the-node-address-header: callarg1 == "x-internal-proxy-node-address"
//@   at call Del#1: ghost dropped := true
//@   ensures local-forwarded-requests-are-marked-and-cannot-be-forwarded-again: marked && dropped
