//go:build verif

// Contracts for package pow, checked by /verif/bin/specv.
// This file contains no executable code; only the //@ lines are read.
package pow

//@ pure (*go.miragespace.co/specter/spec/protocol.ProofOfWork).GetPubKey
//@ pure (*go.miragespace.co/specter/spec/protocol.ProofOfWork).GetSignature
//@ pure (*go.miragespace.co/specter/spec/protocol.ProofOfWork).GetSolution

// ---- C31: acceptance decision of a proof of work

//@ func VerifySolution(req *protocol.ProofOfWork, p Parameters) (d *Decoded, err error)
//@   opt frame=off
//@   requires difficulty-fits-digest: p.Difficulty <= 256
//@   requires window-no-overflow: 0 <= p.Expires && p.Expires <= 1<<61
//@   ghost sigOK bool = false
//@   ghost age int64 = 0
//@   ghost stampErr error = nil
//@   ghost subj string = ""
//@   at after call Verify#1: ghost sigOK := callresult
//@   at after call Since#1: ghost age := callresult
//@   at after call dyn#1: ghost subj := callresult
//@   at call dyn#1: assert the-expected-subject-is-computed-from-the-proofs-key: callarg0 == pubKey
//@   at call Verify#2: assert the-stamp-is-verified-against-the-expected-subject-not-its-own: callarg0 == hc && callarg1 == subj
//@   at after call Verify#2: ghost stampErr := callresult
//@   ensures lengths: err == nil ==> len(req.GetPubKey()) == 32 && len(req.GetSignature()) == 64 && len(req.GetSolution()) > 0
//@   ensures signed: err == nil ==> sigOK
//@   ensures local-difficulty: err == nil ==> hc != nil && hc.Difficulty == p.Difficulty
//@   ensures local-expiry-window: err == nil ==> !hc.ExpiresAt.IsZero() && age <= p.Expires * 2 && -age <= p.Expires * 2
//@   ensures stamp-verified-for-subject: err == nil ==> stampErr == nil
//@   ensures result: err == nil ==> d != nil && d.Subject == subj
//@   ensures refused-has-no-result: err != nil ==> d == nil
