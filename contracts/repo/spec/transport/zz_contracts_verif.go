//go:build verif

// Contracts for package transport (spec/transport), checked by /verif/bin/specv.
// This file contains no executable code; only the //@ lines are read.
package transport

// assumed interface contract: a successful dial yields a connection
//@ interface (t Transport) DialStream(ctx context.Context, peer *protocol.Node, kind protocol.Stream_Type) (r net.Conn, err error)
//@   ensures err == nil ==> r != nil
//@   ensures err != nil ==> r == nil
//@ pure Transport.Identity
