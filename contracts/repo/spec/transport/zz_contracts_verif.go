//go:build verif

// Contracts for package transport (spec/transport), checked by /verif/bin/specv.
// This file contains no executable code; only the //@ lines are read.
package transport

// assumed interface contract: a successful dial yields a connection, a failed one none
//@ interface (t Transport) DialStream(ctx context.Context, peer *protocol.Node, kind protocol.Stream_Type) (r net.Conn, err error)
//@   ensures err == nil ==> r != nil
//@   ensures err != nil ==> r == nil
//@ pure Transport.Identity
//@ pure (*go.miragespace.co/specter/spec/protocol.Node).GetId

// ---- C42: stream dispatch. The three handler tables are abstract maps (library model of sync.Map and
// skipmap.Int32Map): virtual[kind] is a map from virtual node id to handler, physical[kind] and
// tunnel[kind] are handlers.
//@ macro hasVirtual(s *StreamRouter, kind protocol.Stream_Type, id uint64) bool = s.virtualChordHandlers.keys[int32(kind)] && s.virtualChordHandlers.m[int32(kind)] != nil && s.virtualChordHandlers.m[int32(kind)].keys[any(id)]
//@ macro tablesOK(s *StreamRouter) bool = forall k int32 {s.virtualChordHandlers.m[k]} :: s.virtualChordHandlers.keys[k] ==> s.virtualChordHandlers.m[k] != nil
//@ macro virtualOf(s *StreamRouter, kind protocol.Stream_Type, id uint64) any = s.virtualChordHandlers.m[int32(kind)].m[any(id)]

//@ func (s *StreamRouter) HandleChord(kind protocol.Stream_Type, target *protocol.Node, handler StreamHandler)
//@   safety off
//@   opt frame=off
//@   requires s != nil && s.virtualChordHandlers != nil && tablesOK(s)
//@   ensures per-type-tables-stay-non-nil: tablesOK(s)
//@   at call LoadOrStoreLazy#1: assert the-per-type-table-is-created-atomically: callarg1 == int32(kind)
//@   ensures node-wide-handler-registered-under-its-type: target == nil ==> (s.physicalChordHandlers.keys[any(kind)] && s.physicalChordHandlers.m[any(kind)] == any(handler))
//@   ensures virtual-node-handler-registered-under-type-and-node-id: target != nil ==> (hasVirtual(s, kind, target.GetId()) && virtualOf(s, kind, target.GetId()) == any(handler))

//@ func (s *StreamRouter) HandleTunnel(kind protocol.Stream_Type, handler StreamHandler)
//@   safety off
//@   opt frame=off
//@   requires s != nil
//@   ensures client-handler-registered-under-its-type: s.tunnelHandlers.keys[any(kind)] && s.tunnelHandlers.m[any(kind)] == any(handler)

//@ func (s *StreamRouter) acceptChord(ctx context.Context)
//@   safety off
//@   opt frame=off
//@   requires s != nil && s.virtualChordHandlers != nil && tablesOK(s)
//@   loop delegate: invariant tables: tablesOK(s) && s.virtualChordHandlers == old(s.virtualChordHandlers) && s.virtualChordHandlers != nil
//@   at go dyn#1: assert stream-goes-to-the-virtual-nodes-handler-else-the-node-wide-one: ((hasVirtual(s, delegate.Kind, delegate.Identity.GetId()) && handler == virtualOf(s, delegate.Kind, delegate.Identity.GetId())) || (!hasVirtual(s, delegate.Kind, delegate.Identity.GetId()) && s.physicalChordHandlers.keys[any(delegate.Kind)] && handler == s.physicalChordHandlers.m[any(delegate.Kind)]))
//@   at call Close#1: assert stream-is-closed-only-without-any-matching-handler: !hasVirtual(s, delegate.Kind, delegate.Identity.GetId()) && !s.physicalChordHandlers.keys[any(delegate.Kind)]
//@   ghost lastCase int = -1
//@   at after select#1: ghost lastCase := callresult0
//@   ensures local-the-acceptor-stops-only-when-its-context-ends: lastCase == 0

//@ func (s *StreamRouter) acceptTunnel(ctx context.Context)
//@   safety off
//@   opt frame=off
//@   requires s != nil
//@   at go dyn#1: assert client-stream-goes-to-the-handler-of-its-type: s.tunnelHandlers.keys[any(delegate.Kind)] && handler == s.tunnelHandlers.m[any(delegate.Kind)]
//@   at call Close#1: assert client-stream-is-closed-only-without-a-handler: !s.tunnelHandlers.keys[any(delegate.Kind)]
//@   ghost lastCase int = -1
//@   at after select#1: ghost lastCase := callresult0
//@   ensures local-the-acceptor-stops-only-when-its-context-ends: lastCase == 0
