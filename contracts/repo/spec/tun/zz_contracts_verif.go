//go:build verif

// Contracts for package tun (spec/tun), checked by /verif/bin/specv.
// This file contains no executable code; only the //@ lines are read.
package tun

// ---- C36: error classification helpers

//@ func IsTimeout(err error) (r bool)
//@   pure
//@   safety off
//@   ensures deadline-is-timeout: errors.Is(err, context.DeadlineExceeded) ==> r

//@ func IsNoDirect(err error) (r bool)
//@   pure
//@   ensures definition: r == (errors.Is(err, transport.ErrNoDirect) || errors.Is(err, ErrTunnelClientNotConnected))

//@ func SendStatusProto(dest io.Writer, err error)
//@   safety off
//@   requires dest != nil
//@   opt frame=off
//@   at call Send#1: assert ok-status: err == nil ==> (status.Status == protocol.TunnelStatusCode_STATUS_OK && status.Error == "")
//@   at call Send#1: assert no-direct-status: (err != nil && IsNoDirect(err)) ==> status.Status == protocol.TunnelStatusCode_NO_DIRECT
//@   at call Send#1: assert unknown-status: (err != nil && !IsNoDirect(err)) ==> status.Status == protocol.TunnelStatusCode_UNKNOWN_ERROR

// ---- key builders are pure functions of their arguments (fmt.Sprintf of fixed formats)
//@ func DestinationByChordKey(chord *protocol.Node) (r string)
//@   pure
//@ func DestinationByTunnelKey(tunnel *protocol.Node) (r string)
//@   pure
//@ func RoutingKey(hostname string, num int) (r string)
//@   pure
//@ func ClientTokenKey(token *protocol.ClientToken) (r string)
//@   pure
//@ func ClientHostnamesPrefix(token *protocol.ClientToken) (r string)
//@   pure
//@ func ClientLeaseKey(token *protocol.ClientToken) (r string)
//@   pure
//@ func CustomHostnameKey(hostname string) (r string)
//@   pure

// ---- C29: custom hostname bindings in the KV store
//@ func FindCustomHostname(ctx context.Context, kv chord.KV, hostname string) (r *protocol.CustomHostname, err error)
//@   safety off
//@   opt frame=off
//@   requires kv != nil
//@   ghost gerr error = nil
//@   ghost n int = -1
//@   at call Get#1: assert reads-the-hostnames-binding-key: str(callarg1) == CustomHostnameKey(hostname)
//@   at after call Get#1: ghost gerr := callresult1
//@   at after call Get#1: ghost n := len(callresult0)
//@   ensures local-a-read-failure-is-passed-on-not-reported-as-unbound: gerr != nil ==> (r == nil && err == gerr)
//@   ensures local-an-empty-value-means-unbound: (gerr == nil && n == 0) ==> (r == nil && err == ErrHostnameNotFound)
//@   ensures success-has-a-binding: err == nil ==> r != nil
//@   ensures read-only: kv.kvWrites == old(kv.kvWrites)

//@ func SaveCustomHostname(ctx context.Context, kv chord.KV, hostname string, bundle *protocol.CustomHostname) (err error)
//@   safety off
//@   opt frame=off
//@   requires kv != nil
//@   at call Put#1: assert writes-the-hostnames-binding-key: str(callarg1) == CustomHostnameKey(hostname) && callarg2 == data

//@ func RemoveCustomHostname(ctx context.Context, kv chord.KV, hostname string) (err error)
//@   safety off
//@   opt frame=off
//@   requires kv != nil
//@   at call Delete#1: assert deletes-the-hostnames-binding-key: str(callarg1) == CustomHostnameKey(hostname)
