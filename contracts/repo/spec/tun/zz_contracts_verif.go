//go:build verif

// Contracts for package tun (spec/tun), checked by /verif/bin/specv.
// This file contains no executable code; only the //@ lines are read.
package tun

// ---- C36: error classification helpers

//@ func IsTimeout(err error) (r bool)
//@   pure
//@   safety off
//@   ensures deadline-is-timeout: errors.Is(err, context.DeadlineExceeded) ==> r

//@ func IsNoDirect(err error) (r bool)
//@   pure
//@   ensures definition: r == (errors.Is(err, transport.ErrNoDirect) || errors.Is(err, ErrTunnelClientNotConnected))

//@ func SendStatusProto(dest io.Writer, err error)
//@   safety off
//@   requires dest != nil
//@   opt frame=off
//@   at call Send#1: assert ok-status: err == nil ==> (status.Status == protocol.TunnelStatusCode_STATUS_OK && status.Error == "")
//@   at call Send#1: assert no-direct-status: (err != nil && IsNoDirect(err)) ==> status.Status == protocol.TunnelStatusCode_NO_DIRECT
//@   at call Send#1: assert unknown-status: (err != nil && !IsNoDirect(err)) ==> status.Status == protocol.TunnelStatusCode_UNKNOWN_ERROR
