//go:build verif

// Contracts for package tun (spec/tun), checked by /verif/bin/specv.
// This file contains no executable code; only the //@ lines are read.
package tun

// ---- C36: error classification helpers

//@ func IsTimeout(err error) (r bool)
//@   pure
//@   safety off
//@   ensures deadline-is-timeout: errors.Is(err, context.DeadlineExceeded) ==> r

//@ func IsNoDirect(err error) (r bool)
//@   pure
//@   ensures definition: r == (errors.Is(err, transport.ErrNoDirect) || errors.Is(err, ErrTunnelClientNotConnected))

//@ func SendStatusProto(dest io.Writer, err error)
//@   safety off
//@   requires dest != nil
//@   opt frame=off
//@   at call Send#1: assert ok-status: err == nil ==> (status.Status == protocol.TunnelStatusCode_STATUS_OK && status.Error == "")
//@   at call Send#1: assert no-direct-status: (err != nil && IsNoDirect(err)) ==> status.Status == protocol.TunnelStatusCode_NO_DIRECT
//@   at call Send#1: assert unknown-status: (err != nil && !IsNoDirect(err)) ==> status.Status == protocol.TunnelStatusCode_UNKNOWN_ERROR

// ---- key builders are pure functions of their arguments (fmt.Sprintf of fixed formats)
//@ func DestinationByChordKey(chord *protocol.Node) (r string)
//@   pure
//@ func DestinationByTunnelKey(tunnel *protocol.Node) (r string)
//@   pure
//@ func RoutingKey(hostname string, num int) (r string)
//@   pure
//@ func ClientTokenKey(token *protocol.ClientToken) (r string)
//@   pure
//@ func ClientHostnamesPrefix(token *protocol.ClientToken) (r string)
//@   pure
//@ func ClientLeaseKey(token *protocol.ClientToken) (r string)
//@   pure
//@ func CustomHostnameKey(hostname string) (r string)
//@   pure

// ---- the key builders are fmt.Sprintf of one fixed format over the identifying field and nothing else (the `pure`
// declarations above are what callers see; these variants pin the bodies). Trusted: fmt renders %s of a string or
// byte slice verbatim, so distinct identifiers give distinct keys; a builder that cleans, joins or re-encodes the
// identifier (path.Join collapses `//` and `/../`) can map two clients onto one key.
//@ func DestinationByChordKey@fmt(chord *protocol.Node) (r string)
//@   safety off
//@   opt frame=off
//@   ghost ident string
//@   ghost made string = ""
//@   ghost calls int = 0
//@   at call GetAddress#1: assert the-identifier-is-read-from-the-argument: callarg0 == chord
//@   at after call GetAddress#1: ghost ident := callresult
//@   at call Sprintf#1: assert the-key-is-the-fixed-prefix-followed-by-the-identifier-verbatim: callarg0 == "/destination/chord/%s" && len(callarg1) == 1 && cast(callarg1[0], "string") == ident && dyntype(callarg1[0], "string")
//@   at after call Sprintf#1: ghost made := callresult
//@   at after call Sprintf#1: ghost calls := calls + 1
//@   at call Sprintf#?: assert formatted-once: calls == 0
//@   ensures local-the-formatted-string-is-returned-unchanged: calls == 1 && r == made

//@ func DestinationByTunnelKey@fmt(tunnel *protocol.Node) (r string)
//@   safety off
//@   opt frame=off
//@   ghost ident string
//@   ghost made string = ""
//@   ghost calls int = 0
//@   at call GetAddress#1: assert the-identifier-is-read-from-the-argument: callarg0 == tunnel
//@   at after call GetAddress#1: ghost ident := callresult
//@   at call Sprintf#1: assert the-key-is-the-fixed-prefix-followed-by-the-identifier-verbatim: callarg0 == "/destination/tunnel/%s" && len(callarg1) == 1 && cast(callarg1[0], "string") == ident && dyntype(callarg1[0], "string")
//@   at after call Sprintf#1: ghost made := callresult
//@   at after call Sprintf#1: ghost calls := calls + 1
//@   at call Sprintf#?: assert formatted-once: calls == 0
//@   ensures local-the-formatted-string-is-returned-unchanged: calls == 1 && r == made

//@ func ClientTokenKey@fmt(token *protocol.ClientToken) (r string)
//@   safety off
//@   opt frame=off
//@   ghost ident []byte
//@   ghost made string = ""
//@   ghost calls int = 0
//@   at call GetToken#1: assert the-identifier-is-read-from-the-argument: callarg0 == token
//@   at after call GetToken#1: ghost ident := callresult
//@   at call Sprintf#1: assert the-key-is-the-fixed-prefix-followed-by-the-identifier-verbatim: callarg0 == "/tunnel/client/token/%s" && len(callarg1) == 1 && cast(callarg1[0], "[]byte") == ident
//@   at after call Sprintf#1: ghost made := callresult
//@   at after call Sprintf#1: ghost calls := calls + 1
//@   at call Sprintf#?: assert formatted-once: calls == 0
//@   ensures local-the-formatted-string-is-returned-unchanged: calls == 1 && r == made

//@ func ClientHostnamesPrefix@fmt(token *protocol.ClientToken) (r string)
//@   safety off
//@   opt frame=off
//@   ghost ident []byte
//@   ghost made string = ""
//@   ghost calls int = 0
//@   at call GetToken#1: assert the-identifier-is-read-from-the-argument: callarg0 == token
//@   at after call GetToken#1: ghost ident := callresult
//@   at call Sprintf#1: assert the-key-is-the-fixed-prefix-followed-by-the-identifier-verbatim: callarg0 == "/tunnel/client/hostnames/%s" && len(callarg1) == 1 && cast(callarg1[0], "[]byte") == ident
//@   at after call Sprintf#1: ghost made := callresult
//@   at after call Sprintf#1: ghost calls := calls + 1
//@   at call Sprintf#?: assert formatted-once: calls == 0
//@   ensures local-the-formatted-string-is-returned-unchanged: calls == 1 && r == made

//@ func ClientLeaseKey@fmt(token *protocol.ClientToken) (r string)
//@   safety off
//@   opt frame=off
//@   ghost ident []byte
//@   ghost made string = ""
//@   ghost calls int = 0
//@   at call GetToken#1: assert the-identifier-is-read-from-the-argument: callarg0 == token
//@   at after call GetToken#1: ghost ident := callresult
//@   at call Sprintf#1: assert the-key-is-the-fixed-prefix-followed-by-the-identifier-verbatim: callarg0 == "/tunnel/client/lease/%s" && len(callarg1) == 1 && cast(callarg1[0], "[]byte") == ident
//@   at after call Sprintf#1: ghost made := callresult
//@   at after call Sprintf#1: ghost calls := calls + 1
//@   at call Sprintf#?: assert formatted-once: calls == 0
//@   ensures local-the-formatted-string-is-returned-unchanged: calls == 1 && r == made

//@ func RoutingKey@fmt(hostname string, num int) (r string)
//@   safety off
//@   opt frame=off
//@   ghost made string = ""
//@   ghost calls int = 0
//@   at call Sprintf#1: assert the-key-is-the-fixed-prefix-the-hostname-and-the-slot-number: callarg0 == "/tunnel/bundle/%s/%d" && len(callarg1) == 2 && dyntype(callarg1[0], "string") && cast(callarg1[0], "string") == hostname && dyntype(callarg1[1], "int") && cast(callarg1[1], "int") == num
//@   at after call Sprintf#1: ghost made := callresult
//@   at after call Sprintf#1: ghost calls := calls + 1
//@   at call Sprintf#?: assert formatted-once: calls == 0
//@   ensures local-the-formatted-string-is-returned-unchanged: calls == 1 && r == made

//@ func CustomHostnameKey@fmt(hostname string) (r string)
//@   safety off
//@   opt frame=off
//@   ghost made string = ""
//@   ghost calls int = 0
//@   at call Sprintf#1: assert the-key-is-the-fixed-prefix-followed-by-the-hostname-verbatim: callarg0 == "/tunnel/client/custom/%s" && len(callarg1) == 1 && dyntype(callarg1[0], "string") && cast(callarg1[0], "string") == hostname
//@   at after call Sprintf#1: ghost made := callresult
//@   at after call Sprintf#1: ghost calls := calls + 1
//@   at call Sprintf#?: assert formatted-once: calls == 0
//@   ensures local-the-formatted-string-is-returned-unchanged: calls == 1 && r == made

// ---- C29: custom hostname bindings in the KV store
//@ func FindCustomHostname(ctx context.Context, kv chord.KV, hostname string) (r *protocol.CustomHostname, err error)
//@   safety off
//@   opt frame=off
//@   requires kv != nil
//@   ghost gerr error = nil
//@   ghost n int = -1
//@   at call Get#1: assert reads-the-hostnames-binding-key: str(callarg1) == CustomHostnameKey(hostname)
//@   at after call Get#1: ghost gerr := callresult1
//@   at after call Get#1: ghost n := len(callresult0)
//@   ensures local-a-read-failure-is-passed-on-not-reported-as-unbound: gerr != nil ==> (r == nil && err == gerr)
//@   ensures local-an-empty-value-means-unbound: (gerr == nil && n == 0) ==> (r == nil && err == ErrHostnameNotFound)
//@   ensures success-has-a-binding: err == nil ==> r != nil
//@   ensures read-only: kv.kvWrites == old(kv.kvWrites)

//@ func SaveCustomHostname(ctx context.Context, kv chord.KV, hostname string, bundle *protocol.CustomHostname) (err error)
//@   safety off
//@   opt frame=off
//@   requires kv != nil
//@   at call Put#1: assert writes-the-hostnames-binding-key: str(callarg1) == CustomHostnameKey(hostname) && callarg2 == data

//@ func RemoveCustomHostname(ctx context.Context, kv chord.KV, hostname string) (err error)
//@   safety off
//@   opt frame=off
//@   requires kv != nil
//@   at call Delete#1: assert deletes-the-hostnames-binding-key: str(callarg1) == CustomHostnameKey(hostname)

// ---- C40: bidirectional piping. Fork/join decomposition (trusted: sync.WaitGroup, channel and goroutine
// semantics; io.CopyBuffer copies src to dst in order until EOF or error):
//   each direction (pipe) copies with a buffer of its own taken from the pool inside the call, then closes BOTH
//   streams whatever the copy returned, sends at most one error (only a non-nil one) and calls Done exactly once,
//   deferred before anything else so that it also runs when a stream panics;
//   Pipe makes an error channel with room for both directions (so neither send can block and Done is always
//   reached), adds 2 to the wait group and forks the two directions over the same pair of streams with source and
//   destination swapped, and a waiter (Pipe$1) that closes the channel only after Wait returned.
//@ func pipe(wg *sync.WaitGroup, errChan chan<- error, dst io.ReadWriteCloser, src io.ReadWriteCloser)
//@   safety off
//@   opt frame=off
//@   ghost dones int = 0
//@   ghost copies int = 0
//@   ghost cerr error = nil
//@   ghost closedSrc int = 0
//@   ghost closedDst int = 0
//@   ghost sends int = 0
//@   ghost sent error = nil
//@   at defer Done#1: assert done-is-deferred-first-on-the-shared-wait-group: callarg0 == wg && copies == 0 && dones == 0
//@   at defer Done#1: ghost dones := dones + 1
//@   at call CopyBuffer#1: assert copies-from-its-source-to-its-destination-with-a-private-buffer: any(callarg0) == any(src) && any(callarg1) == any(dst) && fresh(callarg2) && len(callarg2) > 0 && copies == 0
//@   at after call CopyBuffer#1: ghost copies := copies + 1
//@   at after call CopyBuffer#1: ghost cerr := callresult1
//@   at call Close#*: assert streams-are-closed-only-after-the-copy-ended: copies == 1
//@   at call Close#*: ghost closedSrc := closedSrc + (any(callrecv) == any(src) ? 1 : 0)
//@   at call Close#*: ghost closedDst := closedDst + (any(callrecv) == any(dst) ? 1 : 0)
//@   at send#*: assert only-the-copy-error-is-reported-on-the-shared-channel: callarg0 == errChan && callarg1 == cerr && cerr != nil && copies == 1
//@   at send#*: ghost sends := sends + 1
//@   ensures local-one-copy-one-done: copies == 1 && dones == 1
//@   ensures local-both-ends-are-closed-whatever-the-copy-returned: closedSrc >= 1 && closedDst >= 1
//@   ensures local-at-most-one-error-and-exactly-the-failures-are-reported: sends <= 1 && ((cerr != nil) == (sends == 1))

//@ func Pipe$1()
//@   safety off
//@   opt frame=off
//@   ghost waited bool = false
//@   at after call Wait#1: ghost waited := true
//@   at call Wait#1: assert waits-on-the-shared-wait-group: callarg0 == wg
//@   at call close#1: assert completion-is-signalled-only-after-both-directions-finished: waited && callarg0 == err

//@ func Pipe(src io.ReadWriteCloser, dst io.ReadWriteCloser) (r <-chan error)
//@   safety off
//@   opt frame=off
//@   ghost forks int = 0
//@   ghost fwd bool = false
//@   ghost bwd bool = false
//@   ghost waiter int = 0
//@   ghost added int = 0
//@   ghost wg0 *sync.WaitGroup = nil
//@   ghost ch0 chan error = nil
//@   at call Add#*: ghost added := added + callarg1
//@   at call Add#*: ghost wg0 := callarg0
//@   at go pipe#*: assert each-direction-shares-the-wait-group-and-error-channel: callarg0 == wg0 && added == 2 && waiter == 0
//@   at go pipe#*: ghost ch0 := (forks == 0 ? callarg1 : ch0)
//@   at go pipe#*: ghost fwd := fwd || (callarg1 == ch0 && any(callarg2) == any(src) && any(callarg3) == any(dst))
//@   at go pipe#*: ghost bwd := bwd || (callarg1 == ch0 && any(callarg2) == any(dst) && any(callarg3) == any(src))
//@   at go pipe#*: ghost forks := forks + 1
//@   at go Pipe$1#*: ghost waiter := waiter + 1
//@   ensures local-two-directions-one-waiter: forks == 2 && fwd && bwd && waiter == 1 && added == 2
//@   ensures local-the-returned-channel-is-the-shared-one-with-room-for-both-errors: r == ch0 && cap(ch0) == 2
