//go:build verif

package rpc

import "go.miragespace.co/specter/spec/chord"

// verifWire stands for the network: what the twirp client reconstructs from the
// error a twirp server sent. Its contract (assumed, see zz_contracts_verif.go) says
// that message and error code survive and that the Go error chain does not.
func verifWire(err error) error { return err }

// verifErrorRoundTrip composes what happens to an error returned by a chord.Server
// handler on its way to the caller of a RemoteNode method: the server wraps it
// (WrapError), twirp carries message and code to the client (verifWire), and the
// client maps it back (chord.ErrorMapper). It exists only so that the round trip
// can carry a machine-checked contract; it is compiled with -tags verif only and
// is never called.
func verifErrorRoundTrip(err error) error {
	return chord.ErrorMapper(verifWire(WrapError(err)))
}
