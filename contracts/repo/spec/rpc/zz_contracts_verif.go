//go:build verif

// Contracts for package rpc (spec/rpc), checked by /verif/bin/specv.
// This file contains no executable code; only the //@ lines are read.
package rpc

// ---- C38: length-prefixed framing

//@ absfield interface vtDecoded int
//@ interface (m VTMarshaler) UnmarshalVT(b []byte) (err error)
//@   modifies m.vtDecoded, object(m)
//@   ensures m.vtDecoded == old(m.vtDecoded) + 1

//@ spec hdr(d gmap[int]byte, p int) uint32 = be32(d[p], d[p + 1], d[p + 2], d[p + 3])

//@ func receive(stream io.Reader, rr VTMarshaler, checker func(size uint32) bool) (err error)
//@   safety bounds
//@   opt frame=off
//@   requires stream != nil && rr != nil
//@   ghost accepted bool = true
//@   at after call dyn#1: ghost accepted := callresult
//@   ensures consumed-monotone: stream.rdPos >= old(stream.rdPos) && stream.rdData == old(stream.rdData)
//@   ensures success-consumes-exactly-one-frame: err == nil ==> (stream.rdPos == old(stream.rdPos) + 4 + int(hdr(stream.rdData, old(stream.rdPos))) && rr.vtDecoded == old(rr.vtDecoded) + 1)
//@   ensures local-refused-size-stops-after-header: !accepted ==> (err != nil && stream.rdPos == old(stream.rdPos) + 4 && rr.vtDecoded == old(rr.vtDecoded))
//@   ensures short-stream-is-an-error: old(stream.rdPos) + 4 > stream.rdEnd ==> (err != nil && rr.vtDecoded == old(rr.vtDecoded))
//@   ensures local-complete-frame-is-decoded: (accepted && old(stream.rdPos) + 4 + int(hdr(stream.rdData, old(stream.rdPos))) <= stream.rdEnd) ==> rr.vtDecoded == old(rr.vtDecoded) + 1
//@   ensures decoded-at-most-once: rr.vtDecoded <= old(rr.vtDecoded) + 1

//@ func BoundedReceive(stream io.Reader, rr VTMarshaler, max uint32) (err error)
//@   safety bounds
//@   opt frame=off
//@   opt inline=receive
//@   requires stream != nil && rr != nil
//@   ensures over-limit-refused-before-body: (old(stream.rdPos) + 4 <= stream.rdEnd && hdr(stream.rdData, old(stream.rdPos)) > max) ==> (err != nil && stream.rdPos == old(stream.rdPos) + 4 && rr.vtDecoded == old(rr.vtDecoded))
//@   ensures success-within-limit: err == nil ==> (hdr(stream.rdData, old(stream.rdPos)) <= max && stream.rdPos == old(stream.rdPos) + 4 + int(hdr(stream.rdData, old(stream.rdPos))) && rr.vtDecoded == old(rr.vtDecoded) + 1)
//@   ensures complete-frame-within-limit-is-decoded: (hdr(stream.rdData, old(stream.rdPos)) <= max && old(stream.rdPos) + 4 + int(hdr(stream.rdData, old(stream.rdPos))) <= stream.rdEnd) ==> rr.vtDecoded == old(rr.vtDecoded) + 1

//@ func Receive(stream io.Reader, rr VTMarshaler) (err error)
//@   safety bounds
//@   opt frame=off
//@   opt inline=receive
//@   requires stream != nil && rr != nil
//@   ensures success-consumes-exactly-one-frame: err == nil ==> (stream.rdPos == old(stream.rdPos) + 4 + int(hdr(stream.rdData, old(stream.rdPos))) && rr.vtDecoded == old(rr.vtDecoded) + 1)
//@   ensures complete-frame-is-decoded: (old(stream.rdPos) + 4 + int(hdr(stream.rdData, old(stream.rdPos))) <= stream.rdEnd) ==> rr.vtDecoded == old(rr.vtDecoded) + 1

//@ func Send(stream io.Writer, rr VTMarshaler) (err error)
//@   safety bounds
//@   opt frame=off
//@   requires stream != nil && rr != nil
//@   ghost wrote int = -1
//@   at after call SizeVT#1: assume message-size-fits-uint32: 0 <= callresult && callresult < 4294967296
//@   at call Write#1: assert frame-length: len(mb) == 4 + l
//@   at call Write#1: assert frame-prefix-is-big-endian-length: int(be32(mb[0], mb[1], mb[2], mb[3])) == l
//@   at call Write#1: assert frame-is-what-is-written: sameBacking(callarg0, mb) && len(callarg0) == len(mb)
//@   at after call Write#1: ghost wrote := callresult0
//@   ensures local-success-means-whole-frame-written: err == nil ==> wrote == 4 + l

// ---- C14: what a chord.Server handler's error looks like to the caller of a RemoteNode method

//@ func WrapError(err error) (r error)
//@   safety off
//@   opt frame=off
//@   requires err != nil
//@   ensures is-a-twirp-error-with-the-same-message: r != nil && implements(r, twirp.Error) && cast(r, twirp.Error).Msg() == err.Error()

//@ func WrapErrorKV(key string, err error) (r error)
//@   safety off
//@   opt frame=off
//@   requires err != nil
//@   ensures is-a-twirp-error-with-the-same-message: r != nil && implements(r, twirp.Error) && cast(r, twirp.Error).Msg() == err.Error()

// the network, as twirp's documentation describes it: message and code survive, the Go error chain does not
//@ func verifWire(err error) (r error)
//@   trusted
//@   requires err != nil && implements(err, twirp.Error)
//@   ensures message-survives: r != nil && implements(r, twirp.Error) && cast(r, twirp.Error).Msg() == cast(err, twirp.Error).Msg()
//@   ensures error-chain-is-lost: forall t error {errors.Is(r, t)} :: errors.Is(r, t) ==> t == r
//@   ensures is-a-new-error-value: forall i int {errors.Is(r, chord.retryableErrs[i])} :: (0 <= i && i < len(chord.retryableErrs)) ==> r != chord.retryableErrs[i]

//@ func verifErrorRoundTrip(err error) (r error)
//@   safety off
//@   opt frame=off
//@   requires package-initialised: chord.registryOK() && chord.retryableOK()
//@   requires err != nil
//@   ensures roundtrip-ErrJoinInvalidState: err == chord.ErrJoinInvalidState ==> (r == chord.ErrJoinInvalidState && chord.ErrorIsRetryable(r) == chord.ErrorIsRetryable(err))
//@   ensures roundtrip-ErrJoinTransferFailure: err == chord.ErrJoinTransferFailure ==> (r == chord.ErrJoinTransferFailure && chord.ErrorIsRetryable(r) == chord.ErrorIsRetryable(err))
//@   ensures roundtrip-ErrJoinInvalidSuccessor: err == chord.ErrJoinInvalidSuccessor ==> (r == chord.ErrJoinInvalidSuccessor && chord.ErrorIsRetryable(r) == chord.ErrorIsRetryable(err))
//@   ensures roundtrip-ErrLeaveInvalidState: err == chord.ErrLeaveInvalidState ==> (r == chord.ErrLeaveInvalidState && chord.ErrorIsRetryable(r) == chord.ErrorIsRetryable(err))
//@   ensures roundtrip-ErrLeaveTransferFailure: err == chord.ErrLeaveTransferFailure ==> (r == chord.ErrLeaveTransferFailure && chord.ErrorIsRetryable(r) == chord.ErrorIsRetryable(err))
//@   ensures roundtrip-ErrKVStaleOwnership: err == chord.ErrKVStaleOwnership ==> (r == chord.ErrKVStaleOwnership && chord.ErrorIsRetryable(r) == chord.ErrorIsRetryable(err))
//@   ensures roundtrip-ErrKVPendingTransfer: err == chord.ErrKVPendingTransfer ==> (r == chord.ErrKVPendingTransfer && chord.ErrorIsRetryable(r) == chord.ErrorIsRetryable(err))
//@   ensures roundtrip-ErrNodeGone: err == chord.ErrNodeGone ==> (r == chord.ErrNodeGone && chord.ErrorIsRetryable(r) == chord.ErrorIsRetryable(err))
//@   ensures roundtrip-ErrNodeNotStarted: err == chord.ErrNodeNotStarted ==> (r == chord.ErrNodeNotStarted && chord.ErrorIsRetryable(r) == chord.ErrorIsRetryable(err))
//@   ensures roundtrip-ErrNodeNoSuccessor: err == chord.ErrNodeNoSuccessor ==> (r == chord.ErrNodeNoSuccessor && chord.ErrorIsRetryable(r) == chord.ErrorIsRetryable(err))
//@   ensures roundtrip-ErrNodeNil: err == chord.ErrNodeNil ==> (r == chord.ErrNodeNil && chord.ErrorIsRetryable(r) == chord.ErrorIsRetryable(err))
//@   ensures roundtrip-ErrDuplicateJoinerID: err == chord.ErrDuplicateJoinerID ==> (r == chord.ErrDuplicateJoinerID && chord.ErrorIsRetryable(r) == chord.ErrorIsRetryable(err))
//@   ensures roundtrip-ErrKVSimpleConflict: err == chord.ErrKVSimpleConflict ==> (r == chord.ErrKVSimpleConflict && chord.ErrorIsRetryable(r) == chord.ErrorIsRetryable(err))
//@   ensures roundtrip-ErrKVPrefixConflict: err == chord.ErrKVPrefixConflict ==> (r == chord.ErrKVPrefixConflict && chord.ErrorIsRetryable(r) == chord.ErrorIsRetryable(err))
//@   ensures roundtrip-ErrKVLeaseConflict: err == chord.ErrKVLeaseConflict ==> (r == chord.ErrKVLeaseConflict && chord.ErrorIsRetryable(r) == chord.ErrorIsRetryable(err))
//@   ensures roundtrip-ErrKVLeaseExpired: err == chord.ErrKVLeaseExpired ==> (r == chord.ErrKVLeaseExpired && chord.ErrorIsRetryable(r) == chord.ErrorIsRetryable(err))
//@   ensures roundtrip-ErrKVLeaseInvalidTTL: err == chord.ErrKVLeaseInvalidTTL ==> (r == chord.ErrKVLeaseInvalidTTL && chord.ErrorIsRetryable(r) == chord.ErrorIsRetryable(err))
//@   ensures roundtrip-ErrKVHashFnChanged: err == chord.ErrKVHashFnChanged ==> (r == chord.ErrKVHashFnChanged && chord.ErrorIsRetryable(r) == chord.ErrorIsRetryable(err))
//@   ensures deadline-stays-retryable: err == context.DeadlineExceeded ==> chord.ErrorIsRetryable(r)
//@   ensures wrapped-retryable-stays-retryable: (chord.ErrorIsRetryable(err) && !has(chord.errorStrMap, err.Error())) ==> chord.ErrorIsRetryable(r)
//@   ensures unknown-errors-stay-non-retryable: (!chord.ErrorIsRetryable(err) && !has(chord.errorStrMap, err.Error())) ==> !chord.ErrorIsRetryable(r)
//@   ensures unknown-errors-stay-unknown: (err != nil && !has(chord.errorStrMap, err.Error())) ==> !has(chord.errorStrMap, cast(r, twirp.Error).Msg())
