//go:build verif

// Contracts for package rpc (spec/rpc), checked by /verif/bin/specv.
// This file contains no executable code; only the //@ lines are read.
package rpc

// ---- C38: length-prefixed framing

//@ absfield interface vtDecoded int
//@ interface (m VTMarshaler) UnmarshalVT(b []byte) (err error)
//@   modifies m.vtDecoded
//@   ensures m.vtDecoded == old(m.vtDecoded) + 1

//@ spec hdr(d gmap[int]byte, p int) uint32 = be32(d[p], d[p + 1], d[p + 2], d[p + 3])

//@ func receive(stream io.Reader, rr VTMarshaler, checker func(size uint32) bool) (err error)
//@   safety bounds
//@   opt frame=off
//@   requires stream != nil && rr != nil && stream != rr
//@   ghost accepted bool = true
//@   at after call dyn#1: ghost accepted := callresult
//@   ensures consumed-monotone: stream.rdPos >= old(stream.rdPos) && stream.rdData == old(stream.rdData)
//@   ensures success-consumes-exactly-one-frame: err == nil ==> (stream.rdPos == old(stream.rdPos) + 4 + int(hdr(stream.rdData, old(stream.rdPos))) && rr.vtDecoded == old(rr.vtDecoded) + 1)
//@   ensures local-refused-size-stops-after-header: !accepted ==> (err != nil && stream.rdPos == old(stream.rdPos) + 4 && rr.vtDecoded == old(rr.vtDecoded))
//@   ensures short-stream-is-an-error: old(stream.rdPos) + 4 > stream.rdEnd ==> (err != nil && rr.vtDecoded == old(rr.vtDecoded))
//@   ensures local-complete-frame-is-decoded: (accepted && old(stream.rdPos) + 4 + int(hdr(stream.rdData, old(stream.rdPos))) <= stream.rdEnd) ==> rr.vtDecoded == old(rr.vtDecoded) + 1
//@   ensures decoded-at-most-once: rr.vtDecoded <= old(rr.vtDecoded) + 1

//@ func BoundedReceive(stream io.Reader, rr VTMarshaler, max uint32) (err error)
//@   safety bounds
//@   opt frame=off
//@   opt inline=receive
//@   requires stream != nil && rr != nil && stream != rr
//@   ensures over-limit-refused-before-body: (old(stream.rdPos) + 4 <= stream.rdEnd && hdr(stream.rdData, old(stream.rdPos)) > max) ==> (err != nil && stream.rdPos == old(stream.rdPos) + 4 && rr.vtDecoded == old(rr.vtDecoded))
//@   ensures success-within-limit: err == nil ==> (hdr(stream.rdData, old(stream.rdPos)) <= max && stream.rdPos == old(stream.rdPos) + 4 + int(hdr(stream.rdData, old(stream.rdPos))) && rr.vtDecoded == old(rr.vtDecoded) + 1)
//@   ensures complete-frame-within-limit-is-decoded: (hdr(stream.rdData, old(stream.rdPos)) <= max && old(stream.rdPos) + 4 + int(hdr(stream.rdData, old(stream.rdPos))) <= stream.rdEnd) ==> rr.vtDecoded == old(rr.vtDecoded) + 1

//@ func Receive(stream io.Reader, rr VTMarshaler) (err error)
//@   safety bounds
//@   opt frame=off
//@   opt inline=receive
//@   requires stream != nil && rr != nil && stream != rr
//@   ensures success-consumes-exactly-one-frame: err == nil ==> (stream.rdPos == old(stream.rdPos) + 4 + int(hdr(stream.rdData, old(stream.rdPos))) && rr.vtDecoded == old(rr.vtDecoded) + 1)
//@   ensures complete-frame-is-decoded: (old(stream.rdPos) + 4 + int(hdr(stream.rdData, old(stream.rdPos))) <= stream.rdEnd) ==> rr.vtDecoded == old(rr.vtDecoded) + 1

//@ func Send(stream io.Writer, rr VTMarshaler) (err error)
//@   safety bounds
//@   opt frame=off
//@   requires stream != nil && rr != nil
//@   ghost wrote int = -1
//@   at after call SizeVT#1: assume message-size-fits-uint32: 0 <= callresult && callresult < 4294967296
//@   at call Write#1: assert frame-length: len(mb) == 4 + l
//@   at call Write#1: assert frame-prefix-is-big-endian-length: int(be32(mb[0], mb[1], mb[2], mb[3])) == l
//@   at call Write#1: assert frame-is-what-is-written: sameBacking(callarg0, mb) && len(callarg0) == len(mb)
//@   at after call Write#1: ghost wrote := callresult0
//@   ensures success-means-whole-frame-written: err == nil ==> wrote == 4 + l
