//go:build verif

// Contracts for package chord (spec/chord), checked by /verif/bin/specv.
// This file contains no executable code; only the //@ lines are read.
package chord

//@ spec M48() uint64 = 1 << 48
//@ spec dist48(a uint64, b uint64) uint64 = (b - a) & (1<<48 - 1)
//@ spec between48(lo uint64, t uint64, hi uint64, incl bool) bool =
//@      (lo == hi ? t != lo : (0 < dist48(lo, t) && dist48(lo, t) < dist48(lo, hi))) || (incl && t == hi)

//@ func Between(low, target, high uint64, inclusive bool) (r bool)
//@   arith bv
//@   requires low < 1<<48 && target < 1<<48 && high < 1<<48
//@   ensures ring: r == between48(low, target, high, inclusive)

//@ func ModuloSum(x, y uint64) (r uint64)
//@   arith bv
//@   ensures range: r < 1<<48
//@   ensures sum: (r - ((x & (1<<48 - 1)) + (y & (1<<48 - 1)))) & (1<<48 - 1) == 0
//@   ensures exact: (x < 1<<48 && y < 1<<48) ==> (x + y < 1<<48 ? r == x + y : r == x + y - 1<<48)

// ---- C12: successor lists

//@ pure VNode.ID
//@ pure VNode.Identity
//@ pure (*go.miragespace.co/specter/spec/protocol.Node).GetAddress

//@ func MakeSuccListByID(immediate VNode, successors []VNode, maxLen int) (r []VNode)
//@   requires immediate != nil && maxLen >= 1
//@   ghost src gmap[int]int
//@   ensures first: len(r) >= 1 && r[0] == immediate
//@   ensures maxlen: len(r) <= maxLen
//@   ensures nonnil: forall i int :: 0 <= i && i < len(r) ==> r[i] != nil
//@   ensures nodup: forall i, j int :: 0 <= i && i < j && j < len(r) ==> r[i].ID() != r[j].ID()
//@   ensures local-from-input: forall a int :: 1 <= a && a < len(r) ==> 0 <= src[a] && src[a] < len(successors) && r[a] == successors[src[a]]
//@   ensures local-order: forall a, b int :: 1 <= a && a < b && b < len(r) ==> src[a] < src[b]
//@   ensures input-unchanged: unchanged(successors)
//@   at call append#1: ghost src[len(succList)] := rangeindex
//@   loop succ: invariant bounds: -1 <= rangeindex && rangeindex < len(successors) && len(succList) >= 1 && len(succList) <= maxLen
//@   loop succ: invariant own: fresh(succList) && fresh(seen) && unchanged(successors)
//@   loop succ: invariant head: succList[0] == immediate
//@   loop succ: invariant nonnil: forall i int :: 0 <= i && i < len(succList) ==> succList[i] != nil
//@   loop succ: invariant seen: forall i int :: 0 <= i && i < len(succList) ==> seen[succList[i].ID()]
//@   loop succ: invariant nodup: forall i, j int :: 0 <= i && i < j && j < len(succList) ==> succList[i].ID() != succList[j].ID()
//@   loop succ: invariant src: forall a int :: 1 <= a && a < len(succList) ==> 0 <= src[a] && src[a] <= rangeindex && succList[a] == successors[src[a]]
//@   loop succ: invariant mono: forall a, b int :: 1 <= a && a < b && b < len(succList) ==> src[a] < src[b]

//@ spec addrOf(v VNode) string = v.Identity().GetAddress()

//@ func MakeSuccListByAddress(immediate VNode, successors []VNode, maxLen int) (r []VNode)
//@   requires immediate != nil && maxLen >= 1
//@   ghost src gmap[int]int
//@   ensures first: len(r) >= 1 && r[0] == immediate
//@   ensures maxlen: len(r) <= maxLen
//@   ensures nonnil: forall i int :: 0 <= i && i < len(r) ==> r[i] != nil
//@   ensures nodup: forall i, j int :: 0 <= i && i < j && j < len(r) ==> addrOf(r[i]) != addrOf(r[j])
//@   ensures local-from-input: forall a int :: 1 <= a && a < len(r) ==> 0 <= src[a] && src[a] < len(successors) && r[a] == successors[src[a]]
//@   ensures local-order: forall a, b int :: 1 <= a && a < b && b < len(r) ==> src[a] < src[b]
//@   ensures input-unchanged: unchanged(successors)
//@   at call append#1: ghost src[len(succList)] := rangeindex
//@   loop succ: invariant bounds: -1 <= rangeindex && rangeindex < len(successors) && len(succList) >= 1 && len(succList) <= maxLen
//@   loop succ: invariant own: fresh(succList) && fresh(seen) && unchanged(successors)
//@   loop succ: invariant head: succList[0] == immediate
//@   loop succ: invariant nonnil: forall i int :: 0 <= i && i < len(succList) ==> succList[i] != nil
//@   loop succ: invariant seen: forall i int :: 0 <= i && i < len(succList) ==> seen[addrOf(succList[i])]
//@   loop succ: invariant nodup: forall i, j int :: 0 <= i && i < j && j < len(succList) ==> addrOf(succList[i]) != addrOf(succList[j])
//@   loop succ: invariant src: forall a int :: 1 <= a && a < len(succList) ==> 0 <= src[a] && src[a] <= rangeindex && succList[a] == successors[src[a]]
//@   loop succ: invariant mono: forall a, b int :: 1 <= a && a < b && b < len(succList) ==> src[a] < src[b]

//@ func Hash(b []byte) (r uint64)
//@   arith bv
//@   ensures range: r < 1<<48

//@ func Random() (r uint64)
//@   arith bv
//@   ensures range: r < 1<<48

// ---- ring identifiers are 48-bit (Hash / Random reduce modulo 2^48; proved under C11)
//@ axiom ids48: forall v VNode :: v != nil ==> v.ID() < 1<<48

// ---- C09: every lookup hop strictly decreases the clockwise distance from just after the node to the key
//@ interface (v VNode) FindSuccessor(key uint64) (r VNode, err error)
//@   opt recursion=lookup
//@   decreases dist48(v.ID() + 1, key)
//@   ensures non-nil-result: err == nil ==> r != nil
//@   ensures owner-on-stable-ring: (stableRing() && mem(v.ID()) && err == nil) ==> r.ID() == ownerOf(key)

// the errors a caller may retry (the registry itself is checked under C14)
//@ spec retryableChord(e error) bool = e == ErrJoinInvalidState || e == ErrJoinTransferFailure || e == ErrJoinInvalidSuccessor || e == ErrLeaveInvalidState || e == ErrLeaveTransferFailure || e == ErrKVStaleOwnership || e == ErrKVPendingTransfer

// ---- C01: ghost ring. mem(id): id is a member; ownerOf(key): the member at minimal clockwise
// distance from key (the first member at or after key); stableRing(): every member's local
// pointers are correct for this membership (unfolded per node as localOK in package chord).
//@ spec mem(id uint64) bool
//@ spec ownerOf(key uint64) uint64
//@ spec stableRing() bool
//@ axiom ring.owner-is-member: forall k uint64 :: k < 1<<48 ==> (mem(ownerOf(k)) && ownerOf(k) < 1<<48)
//@ axiom ring.owner-is-closest: forall k, m uint64 :: (k < 1<<48 && m < 1<<48 && mem(m)) ==> dist48(k, ownerOf(k)) <= dist48(k, m)

// ring arithmetic lemmas (proved with the definitions of dist48/between48 revealed, pure 64-bit vectors);
// functions that use them hide the definitions (opt opaque=dist48,between48)
//@ lemma bv_ring_owner_is_self: forall pre, n, key, o uint64 :: (pre < 1<<48 && n < 1<<48 && key < 1<<48 && o < 1<<48 && between48(pre, key, n, true) && !between48(pre, o, n, false) && dist48(key, o) <= dist48(key, n)) ==> o == n
//@ lemma bv_ring_owner_is_successor_ne: forall n, key, s, o uint64 :: (n != s && n < 1<<48 && key < 1<<48 && s < 1<<48 && o < 1<<48 && between48(n, key, s, true) && dist48((n + 1) & (1<<48 - 1), s) <= dist48((n + 1) & (1<<48 - 1), o) && dist48(key, o) <= dist48(key, s)) ==> o == s
//@ lemma bv_ring_owner_is_successor_eq: forall n, key, s, o uint64 :: (n == s && n < 1<<48 && key < 1<<48 && s < 1<<48 && o < 1<<48 && between48(n, key, s, true) && dist48((n + 1) & (1<<48 - 1), s) <= dist48((n + 1) & (1<<48 - 1), o) && dist48(key, o) <= dist48(key, s)) ==> o == s
//@ lemma bv_ring_next_id: forall n uint64 :: ((n + 1) & (1<<48 - 1)) < 1<<48
//@ lemma bv_ring_hop_decreases: forall n, f, key uint64 :: (n < 1<<48 && f < 1<<48 && key < 1<<48 && between48(n, f, key, false)) ==> dist48(f + 1, key) < dist48(n + 1, key)
//@ lemma bv_ring_successor_hop_decreases: forall n, s, key uint64 :: (n < 1<<48 && s < 1<<48 && key < 1<<48 && !between48(n, key, s, true)) ==> dist48(s + 1, key) < dist48(n + 1, key)

// ---- C15: the retrying KV wrapper (wiring; the retry loop itself is the library's)

// The configuration asked for is the one honoured: every call builds its OWN wrapper around exactly the node given,
// also when that node is itself a retrying wrapper (whose configuration must not silently win).
//@ func WrapRetryKV(vnode VNode, interval time.Duration, maxAttempts uint) (r VNode)
//@   ensures a-new-wrapper-around-the-given-node-with-the-requested-configuration: dyntype(r, "*retryableWrapper") && fresh(cast(r, "*retryableWrapper")) && cast(r, "*retryableWrapper").VNode == vnode && cast(r, "*retryableWrapper").retryInterval == interval && cast(r, "*retryableWrapper").retryAttempts == maxAttempts

//@ func (n *retryableWrapper) retryOptions(ctx context.Context) (r []retry.Option)
//@   opt frame=off
//@   ensures policy: len(r) == 6 && r[0] == retry.Context(ctx) && r[1] == retry.Attempts(n.retryAttempts) && r[2] == retry.Delay(n.retryInterval) && r[4] == retry.RetryIf(ErrorIsRetryable) && r[5] == retry.LastErrorOnly(true)

// retryWitness(err): Skolem function for "some registered retryable error matches err" (defined by the index the loop stops at)
//@ spec retryWitness(err error) int
//@ func ErrorIsRetryable(err error) (r bool)
//@   pure
//@   opt frame=off
//@   ghost w int = -1
//@   at return#1: ghost w := rangeindex
//@   ensures local-true-only-for-a-registered-retryable-error: r ==> (0 <= w && w < len(retryableErrs) && errors.Is(err, retryableErrs[w]))
//@   at return#1: assume skolem-definition-of-the-witness: retryWitness(err) == rangeindex
//@   ensures true-only-if-some-registered-error-matches: r ==> (0 <= retryWitness(err) && retryWitness(err) < len(retryableErrs) && errors.Is(err, retryableErrs[retryWitness(err)]))
//@   ensures false-only-if-none-matches: !r ==> (forall i int :: 0 <= i && i < len(retryableErrs) ==> !errors.Is(err, retryableErrs[i]))
//@   loop e: invariant idx: -1 <= rangeindex && rangeindex < len(retryableErrs)
//@   loop e: invariant none-so-far: forall i int :: 0 <= i && i <= rangeindex ==> !errors.Is(err, retryableErrs[i])

//@ func (n *retryableWrapper) Put(ctx, key, value) (err error)
//@   safety off
//@   opt frame=off
//@   ghost opts []retry.Option
//@   ghost g_err error
//@   at call retryOptions#1: assert policy-for-this-context: callarg1 == ctx
//@   at after call retryOptions#1: ghost opts := callresult
//@   at call Do#1: assert uses-the-retry-policy: sameBacking(callarg1, opts) && len(callarg1) == len(opts)
//@   at after call Do#1: ghost g_err := callresult
//@   ensures returns-what-retry-returns: err == g_err

//@ func (n *retryableWrapper) Put$1() (err error)
//@   safety off
//@   opt frame=off
//@   ghost g_err error
//@   at call Put#1: assert same-arguments: callarg0 == ctx && callarg1 == key && callarg2 == value
//@   at after call Put#1: ghost g_err := callresult
//@   ensures forwards-the-wrapped-node-result: err == g_err

//@ func (n *retryableWrapper) Get(ctx, key) (value []byte, err error)
//@   safety off
//@   opt frame=off
//@   ghost opts []retry.Option
//@   ghost g_value []byte
//@   ghost g_err error
//@   at call retryOptions#1: assert policy-for-this-context: callarg1 == ctx
//@   at after call retryOptions#1: ghost opts := callresult
//@   at call DoWithData#1: assert uses-the-retry-policy: sameBacking(callarg1, opts) && len(callarg1) == len(opts)
//@   at after call DoWithData#1: ghost g_value := callresult0
//@   at after call DoWithData#1: ghost g_err := callresult1
//@   ensures returns-what-retry-returns: value == g_value && err == g_err

//@ func (n *retryableWrapper) Get$1() (value []byte, err error)
//@   safety off
//@   opt frame=off
//@   ghost g_value []byte
//@   ghost g_err error
//@   at call Get#1: assert same-arguments: callarg0 == ctx && callarg1 == key
//@   at after call Get#1: ghost g_value := callresult0
//@   at after call Get#1: ghost g_err := callresult1
//@   ensures forwards-the-wrapped-node-result: value == g_value && err == g_err

//@ func (n *retryableWrapper) Delete(ctx, key) (err error)
//@   safety off
//@   opt frame=off
//@   ghost opts []retry.Option
//@   ghost g_err error
//@   at call retryOptions#1: assert policy-for-this-context: callarg1 == ctx
//@   at after call retryOptions#1: ghost opts := callresult
//@   at call Do#1: assert uses-the-retry-policy: sameBacking(callarg1, opts) && len(callarg1) == len(opts)
//@   at after call Do#1: ghost g_err := callresult
//@   ensures returns-what-retry-returns: err == g_err

//@ func (n *retryableWrapper) Delete$1() (err error)
//@   safety off
//@   opt frame=off
//@   ghost g_err error
//@   at call Delete#1: assert same-arguments: callarg0 == ctx && callarg1 == key
//@   at after call Delete#1: ghost g_err := callresult
//@   ensures forwards-the-wrapped-node-result: err == g_err

//@ func (n *retryableWrapper) PrefixAppend(ctx, prefix, child) (err error)
//@   safety off
//@   opt frame=off
//@   ghost opts []retry.Option
//@   ghost g_err error
//@   at call retryOptions#1: assert policy-for-this-context: callarg1 == ctx
//@   at after call retryOptions#1: ghost opts := callresult
//@   at call Do#1: assert uses-the-retry-policy: sameBacking(callarg1, opts) && len(callarg1) == len(opts)
//@   at after call Do#1: ghost g_err := callresult
//@   ensures returns-what-retry-returns: err == g_err

//@ func (n *retryableWrapper) PrefixAppend$1() (err error)
//@   safety off
//@   opt frame=off
//@   ghost g_err error
//@   at call PrefixAppend#1: assert same-arguments: callarg0 == ctx && callarg1 == prefix && callarg2 == child
//@   at after call PrefixAppend#1: ghost g_err := callresult
//@   ensures forwards-the-wrapped-node-result: err == g_err

//@ func (n *retryableWrapper) PrefixList(ctx, prefix) (children [][]byte, err error)
//@   safety off
//@   opt frame=off
//@   ghost opts []retry.Option
//@   ghost g_children [][]byte
//@   ghost g_err error
//@   at call retryOptions#1: assert policy-for-this-context: callarg1 == ctx
//@   at after call retryOptions#1: ghost opts := callresult
//@   at call DoWithData#1: assert uses-the-retry-policy: sameBacking(callarg1, opts) && len(callarg1) == len(opts)
//@   at after call DoWithData#1: ghost g_children := callresult0
//@   at after call DoWithData#1: ghost g_err := callresult1
//@   ensures returns-what-retry-returns: children == g_children && err == g_err

//@ func (n *retryableWrapper) PrefixList$1() (children [][]byte, err error)
//@   safety off
//@   opt frame=off
//@   ghost g_children [][]byte
//@   ghost g_err error
//@   at call PrefixList#1: assert same-arguments: callarg0 == ctx && callarg1 == prefix
//@   at after call PrefixList#1: ghost g_children := callresult0
//@   at after call PrefixList#1: ghost g_err := callresult1
//@   ensures forwards-the-wrapped-node-result: children == g_children && err == g_err

//@ func (n *retryableWrapper) PrefixContains(ctx, prefix, child) (ok bool, err error)
//@   safety off
//@   opt frame=off
//@   ghost opts []retry.Option
//@   ghost g_ok bool
//@   ghost g_err error
//@   at call retryOptions#1: assert policy-for-this-context: callarg1 == ctx
//@   at after call retryOptions#1: ghost opts := callresult
//@   at call DoWithData#1: assert uses-the-retry-policy: sameBacking(callarg1, opts) && len(callarg1) == len(opts)
//@   at after call DoWithData#1: ghost g_ok := callresult0
//@   at after call DoWithData#1: ghost g_err := callresult1
//@   ensures returns-what-retry-returns: ok == g_ok && err == g_err

//@ func (n *retryableWrapper) PrefixContains$1() (ok bool, err error)
//@   safety off
//@   opt frame=off
//@   ghost g_ok bool
//@   ghost g_err error
//@   at call PrefixContains#1: assert same-arguments: callarg0 == ctx && callarg1 == prefix && callarg2 == child
//@   at after call PrefixContains#1: ghost g_ok := callresult0
//@   at after call PrefixContains#1: ghost g_err := callresult1
//@   ensures forwards-the-wrapped-node-result: ok == g_ok && err == g_err

//@ func (n *retryableWrapper) PrefixRemove(ctx, prefix, child) (err error)
//@   safety off
//@   opt frame=off
//@   ghost opts []retry.Option
//@   ghost g_err error
//@   at call retryOptions#1: assert policy-for-this-context: callarg1 == ctx
//@   at after call retryOptions#1: ghost opts := callresult
//@   at call Do#1: assert uses-the-retry-policy: sameBacking(callarg1, opts) && len(callarg1) == len(opts)
//@   at after call Do#1: ghost g_err := callresult
//@   ensures returns-what-retry-returns: err == g_err

//@ func (n *retryableWrapper) PrefixRemove$1() (err error)
//@   safety off
//@   opt frame=off
//@   ghost g_err error
//@   at call PrefixRemove#1: assert same-arguments: callarg0 == ctx && callarg1 == prefix && callarg2 == child
//@   at after call PrefixRemove#1: ghost g_err := callresult
//@   ensures forwards-the-wrapped-node-result: err == g_err

//@ func (n *retryableWrapper) Acquire(ctx, lease, ttl) (token uint64, err error)
//@   safety off
//@   opt frame=off
//@   ghost opts []retry.Option
//@   ghost g_token uint64
//@   ghost g_err error
//@   at call retryOptions#1: assert policy-for-this-context: callarg1 == ctx
//@   at after call retryOptions#1: ghost opts := callresult
//@   at call DoWithData#1: assert uses-the-retry-policy: sameBacking(callarg1, opts) && len(callarg1) == len(opts)
//@   at after call DoWithData#1: ghost g_token := callresult0
//@   at after call DoWithData#1: ghost g_err := callresult1
//@   ensures returns-what-retry-returns: token == g_token && err == g_err

//@ func (n *retryableWrapper) Acquire$1() (token uint64, err error)
//@   safety off
//@   opt frame=off
//@   ghost g_token uint64
//@   ghost g_err error
//@   at call Acquire#1: assert same-arguments: callarg0 == ctx && callarg1 == lease && callarg2 == ttl
//@   at after call Acquire#1: ghost g_token := callresult0
//@   at after call Acquire#1: ghost g_err := callresult1
//@   ensures forwards-the-wrapped-node-result: token == g_token && err == g_err

//@ func (n *retryableWrapper) Renew(ctx, lease, ttl, prevToken) (newToken uint64, err error)
//@   safety off
//@   opt frame=off
//@   ghost opts []retry.Option
//@   ghost g_newToken uint64
//@   ghost g_err error
//@   at call retryOptions#1: assert policy-for-this-context: callarg1 == ctx
//@   at after call retryOptions#1: ghost opts := callresult
//@   at call DoWithData#1: assert uses-the-retry-policy: sameBacking(callarg1, opts) && len(callarg1) == len(opts)
//@   at after call DoWithData#1: ghost g_newToken := callresult0
//@   at after call DoWithData#1: ghost g_err := callresult1
//@   ensures returns-what-retry-returns: newToken == g_newToken && err == g_err

//@ func (n *retryableWrapper) Renew$1() (newToken uint64, err error)
//@   safety off
//@   opt frame=off
//@   ghost g_newToken uint64
//@   ghost g_err error
//@   at call Renew#1: assert same-arguments: callarg0 == ctx && callarg1 == lease && callarg2 == ttl && callarg3 == prevToken
//@   at after call Renew#1: ghost g_newToken := callresult0
//@   at after call Renew#1: ghost g_err := callresult1
//@   ensures forwards-the-wrapped-node-result: newToken == g_newToken && err == g_err

//@ func (n *retryableWrapper) Release(ctx, lease, token) (err error)
//@   safety off
//@   opt frame=off
//@   ghost opts []retry.Option
//@   ghost g_err error
//@   at call retryOptions#1: assert policy-for-this-context: callarg1 == ctx
//@   at after call retryOptions#1: ghost opts := callresult
//@   at call Do#1: assert uses-the-retry-policy: sameBacking(callarg1, opts) && len(callarg1) == len(opts)
//@   at after call Do#1: ghost g_err := callresult
//@   ensures returns-what-retry-returns: err == g_err

//@ func (n *retryableWrapper) Release$1() (err error)
//@   safety off
//@   opt frame=off
//@   ghost g_err error
//@   at call Release#1: assert same-arguments: callarg0 == ctx && callarg1 == lease && callarg2 == token
//@   at after call Release#1: ghost g_err := callresult
//@   ensures forwards-the-wrapped-node-result: err == g_err

//@ func (n *retryableWrapper) ListKeys(ctx, prefix) (keys []*protocol.KeyComposite, err error)
//@   safety off
//@   opt frame=off
//@   ghost opts []retry.Option
//@   ghost g_keys []*protocol.KeyComposite
//@   ghost g_err error
//@   at call retryOptions#1: assert policy-for-this-context: callarg1 == ctx
//@   at after call retryOptions#1: ghost opts := callresult
//@   at call DoWithData#1: assert uses-the-retry-policy: sameBacking(callarg1, opts) && len(callarg1) == len(opts)
//@   at after call DoWithData#1: ghost g_keys := callresult0
//@   at after call DoWithData#1: ghost g_err := callresult1
//@   ensures returns-what-retry-returns: keys == g_keys && err == g_err

//@ func (n *retryableWrapper) ListKeys$1() (keys []*protocol.KeyComposite, err error)
//@   safety off
//@   opt frame=off
//@   ghost g_keys []*protocol.KeyComposite
//@   ghost g_err error
//@   at call ListKeys#1: assert same-arguments: callarg0 == ctx && callarg1 == prefix
//@   at after call ListKeys#1: ghost g_keys := callresult0
//@   at after call ListKeys#1: ghost g_err := callresult1
//@   ensures forwards-the-wrapped-node-result: keys == g_keys && err == g_err

// ---- C14: error registry and round trip

//@ macro registryOK() bool = (has(errorStrMap, "chord/membership: node cannot handle join request at the moment") && errorStrMap["chord/membership: node cannot handle join request at the moment"] == ErrJoinInvalidState && cast(ErrJoinInvalidState, "*Error") != nil && cast(ErrJoinInvalidState, "*Error").msg == "chord/membership: node cannot handle join request at the moment" && dyntype(ErrJoinInvalidState, "*Error")) && (has(errorStrMap, "chord/membership: failed to transfer keys to joiner node") && errorStrMap["chord/membership: failed to transfer keys to joiner node"] == ErrJoinTransferFailure && cast(ErrJoinTransferFailure, "*Error") != nil && cast(ErrJoinTransferFailure, "*Error").msg == "chord/membership: failed to transfer keys to joiner node" && dyntype(ErrJoinTransferFailure, "*Error")) && (has(errorStrMap, "chord/membership: join request was routed to the wrong successor node") && errorStrMap["chord/membership: join request was routed to the wrong successor node"] == ErrJoinInvalidSuccessor && cast(ErrJoinInvalidSuccessor, "*Error") != nil && cast(ErrJoinInvalidSuccessor, "*Error").msg == "chord/membership: join request was routed to the wrong successor node" && dyntype(ErrJoinInvalidSuccessor, "*Error")) && (has(errorStrMap, "chord/membership: node cannot handle leave request at the moment") && errorStrMap["chord/membership: node cannot handle leave request at the moment"] == ErrLeaveInvalidState && cast(ErrLeaveInvalidState, "*Error") != nil && cast(ErrLeaveInvalidState, "*Error").msg == "chord/membership: node cannot handle leave request at the moment" && dyntype(ErrLeaveInvalidState, "*Error")) && (has(errorStrMap, "chord/membership: failed to transfer keys to successor node") && errorStrMap["chord/membership: failed to transfer keys to successor node"] == ErrLeaveTransferFailure && cast(ErrLeaveTransferFailure, "*Error") != nil && cast(ErrLeaveTransferFailure, "*Error").msg == "chord/membership: failed to transfer keys to successor node" && dyntype(ErrLeaveTransferFailure, "*Error")) && (has(errorStrMap, "chord/kv: processing node no longer has ownership over requested key") && errorStrMap["chord/kv: processing node no longer has ownership over requested key"] == ErrKVStaleOwnership && cast(ErrKVStaleOwnership, "*Error") != nil && cast(ErrKVStaleOwnership, "*Error").msg == "chord/kv: processing node no longer has ownership over requested key" && dyntype(ErrKVStaleOwnership, "*Error")) && (has(errorStrMap, "chord/kv: kv transfer inprogress, state may be outdated") && errorStrMap["chord/kv: kv transfer inprogress, state may be outdated"] == ErrKVPendingTransfer && cast(ErrKVPendingTransfer, "*Error") != nil && cast(ErrKVPendingTransfer, "*Error").msg == "chord/kv: kv transfer inprogress, state may be outdated" && dyntype(ErrKVPendingTransfer, "*Error")) && (has(errorStrMap, "chord: node is not part of the chord ring") && errorStrMap["chord: node is not part of the chord ring"] == ErrNodeGone && cast(ErrNodeGone, "*Error") != nil && cast(ErrNodeGone, "*Error").msg == "chord: node is not part of the chord ring" && dyntype(ErrNodeGone, "*Error")) && (has(errorStrMap, "chord: node is not running") && errorStrMap["chord: node is not running"] == ErrNodeNotStarted && cast(ErrNodeNotStarted, "*Error") != nil && cast(ErrNodeNotStarted, "*Error").msg == "chord: node is not running" && dyntype(ErrNodeNotStarted, "*Error")) && (has(errorStrMap, "chord: node has no successor, possibly invalid chord ring") && errorStrMap["chord: node has no successor, possibly invalid chord ring"] == ErrNodeNoSuccessor && cast(ErrNodeNoSuccessor, "*Error") != nil && cast(ErrNodeNoSuccessor, "*Error").msg == "chord: node has no successor, possibly invalid chord ring" && dyntype(ErrNodeNoSuccessor, "*Error")) && (has(errorStrMap, "chord: node cannot be nil") && errorStrMap["chord: node cannot be nil"] == ErrNodeNil && cast(ErrNodeNil, "*Error") != nil && cast(ErrNodeNil, "*Error").msg == "chord: node cannot be nil" && dyntype(ErrNodeNil, "*Error")) && (has(errorStrMap, "chord/membership: joining node has duplicate ID as its successor") && errorStrMap["chord/membership: joining node has duplicate ID as its successor"] == ErrDuplicateJoinerID && cast(ErrDuplicateJoinerID, "*Error") != nil && cast(ErrDuplicateJoinerID, "*Error").msg == "chord/membership: joining node has duplicate ID as its successor" && dyntype(ErrDuplicateJoinerID, "*Error")) && (has(errorStrMap, "chord/kv: simple key was concurrently modified") && errorStrMap["chord/kv: simple key was concurrently modified"] == ErrKVSimpleConflict && cast(ErrKVSimpleConflict, "*Error") != nil && cast(ErrKVSimpleConflict, "*Error").msg == "chord/kv: simple key was concurrently modified" && dyntype(ErrKVSimpleConflict, "*Error")) && (has(errorStrMap, "chord/kv: child already exists under prefix") && errorStrMap["chord/kv: child already exists under prefix"] == ErrKVPrefixConflict && cast(ErrKVPrefixConflict, "*Error") != nil && cast(ErrKVPrefixConflict, "*Error").msg == "chord/kv: child already exists under prefix" && dyntype(ErrKVPrefixConflict, "*Error")) && (has(errorStrMap, "chord/kv: lease has not expired or was acquired by a different requester") && errorStrMap["chord/kv: lease has not expired or was acquired by a different requester"] == ErrKVLeaseConflict && cast(ErrKVLeaseConflict, "*Error") != nil && cast(ErrKVLeaseConflict, "*Error").msg == "chord/kv: lease has not expired or was acquired by a different requester" && dyntype(ErrKVLeaseConflict, "*Error")) && (has(errorStrMap, "chord/kv: lease has expired with the given token") && errorStrMap["chord/kv: lease has expired with the given token"] == ErrKVLeaseExpired && cast(ErrKVLeaseExpired, "*Error") != nil && cast(ErrKVLeaseExpired, "*Error").msg == "chord/kv: lease has expired with the given token" && dyntype(ErrKVLeaseExpired, "*Error")) && (has(errorStrMap, "chord/kv: lease ttl must be greater than a second") && errorStrMap["chord/kv: lease ttl must be greater than a second"] == ErrKVLeaseInvalidTTL && cast(ErrKVLeaseInvalidTTL, "*Error") != nil && cast(ErrKVLeaseInvalidTTL, "*Error").msg == "chord/kv: lease ttl must be greater than a second" && dyntype(ErrKVLeaseInvalidTTL, "*Error")) && (has(errorStrMap, "chord/kv: calculated hash is different from storage") && errorStrMap["chord/kv: calculated hash is different from storage"] == ErrKVHashFnChanged && cast(ErrKVHashFnChanged, "*Error") != nil && cast(ErrKVHashFnChanged, "*Error").msg == "chord/kv: calculated hash is different from storage" && dyntype(ErrKVHashFnChanged, "*Error"))
//@ macro retryableOK() bool = len(retryableErrs) == 8 && retryableErrs[0] == context.DeadlineExceeded && retryableErrs[1] == ErrJoinInvalidState && retryableErrs[2] == ErrJoinTransferFailure && retryableErrs[3] == ErrJoinInvalidSuccessor && retryableErrs[4] == ErrLeaveInvalidState && retryableErrs[5] == ErrLeaveTransferFailure && retryableErrs[6] == ErrKVStaleOwnership && retryableErrs[7] == ErrKVPendingTransfer

//@ func init()
//@   safety off
//@   opt frame=off
//@   ensures registry-maps-every-message-to-its-error: registryOK()
//@   ensures retryable-set: retryableOK()

//@ func (e *Error) Error() (r string)
//@   pure
//@   ensures r == e.msg

//@ func ErrorMapper(err error) (r error)
//@   pure
//@   safety off
//@   opt frame=off
//@   ensures nil-stays-nil: err == nil ==> r == nil
//@   ensures twirp-errors-map-by-message: (err != nil && implements(err, twirp.Error)) ==> r == (has(errorStrMap, cast(err, twirp.Error).Msg()) ? errorStrMap[cast(err, twirp.Error).Msg()] : err)
//@   ensures other-errors-map-by-text: (err != nil && !implements(err, twirp.Error)) ==> r == (has(errorStrMap, err.Error()) ? errorStrMap[err.Error()] : err)

//@ func errorDef(str string, retryable bool) (r error)
//@   inline

// hash functions handed to the stores produce ring identifiers (chord.Hash does: proved under C11)
//@ axiom ids48hash: forall f int, s string :: dyncall(f, s, "uint64") < 1<<48

// ---- KV operations through a VNode handle (assumed interface contracts, used by the tunnel server
// properties C25/C26/C29/C51): kvWrites counts the mutating requests issued through the handle, so
// "a refused call changes nothing in the DHT" is kvWrites == old(kvWrites); reads leave it unchanged.
//@ absfield interface kvWrites int
//@ interface (v VNode) Put(ctx context.Context, key []byte, value []byte) (err error)
//@   modifies v.kvWrites
//@   ensures v.kvWrites == old(v.kvWrites) + 1
//@ interface (v VNode) Delete(ctx context.Context, key []byte) (err error)
//@   modifies v.kvWrites
//@   ensures v.kvWrites == old(v.kvWrites) + 1
//@ interface (v VNode) PrefixAppend(ctx context.Context, prefix []byte, child []byte) (err error)
//@   modifies v.kvWrites
//@   ensures v.kvWrites == old(v.kvWrites) + 1
//@ interface (v VNode) PrefixRemove(ctx context.Context, prefix []byte, child []byte) (err error)
//@   modifies v.kvWrites
//@   ensures v.kvWrites == old(v.kvWrites) + 1
//@ interface (v VNode) Acquire(ctx context.Context, lease []byte, ttl time.Duration) (token uint64, err error)
//@   modifies v.kvWrites
//@   ensures v.kvWrites == old(v.kvWrites) + 1
//@ interface (v VNode) Renew(ctx context.Context, lease []byte, ttl time.Duration, prevToken uint64) (newToken uint64, err error)
//@   modifies v.kvWrites
//@   ensures v.kvWrites == old(v.kvWrites) + 1
//@ interface (v VNode) Release(ctx context.Context, lease []byte, token uint64) (err error)
//@   modifies v.kvWrites
//@   ensures v.kvWrites == old(v.kvWrites) + 1
//@ interface (v VNode) Get(ctx context.Context, key []byte) (value []byte, err error)
//@   ensures v.kvWrites == old(v.kvWrites)
//@ interface (v VNode) PrefixContains(ctx context.Context, prefix []byte, child []byte) (r bool, err error)
//@   ensures v.kvWrites == old(v.kvWrites)
//@ interface (v VNode) PrefixList(ctx context.Context, prefix []byte) (children [][]byte, err error)
//@   ensures v.kvWrites == old(v.kvWrites)
// the same operations through the narrower KV interface (spec/tun helpers take a chord.KV)
//@ interface (v KV) Put(ctx context.Context, key []byte, value []byte) (err error)
//@   modifies v.kvWrites
//@   ensures v.kvWrites == old(v.kvWrites) + 1
//@ interface (v KV) Delete(ctx context.Context, key []byte) (err error)
//@   modifies v.kvWrites
//@   ensures v.kvWrites == old(v.kvWrites) + 1
//@ interface (v KV) Get(ctx context.Context, key []byte) (value []byte, err error)
//@   ensures v.kvWrites == old(v.kvWrites)

// ---- C06 / C07: membership calls on a neighbour. They act on the neighbour's own lifecycle word; nothing reachable
// from the caller's objects is replaced by them (assumed for remote nodes, which run in another process; a LocalNode
// neighbour in the same process only touches its own fields, see the contracts in package chord).
//@ interface (v VNode) RequestToLeave(leaver VNode) (err error)
//@ interface (v VNode) FinishLeave(stabilize bool, release bool) (err error)
//@ interface (v VNode) FinishJoin(stabilize bool, release bool) (err error)
