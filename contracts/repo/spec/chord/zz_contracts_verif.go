//go:build verif

// Contracts for package chord (spec/chord), checked by /verif/bin/specv.
// This file contains no executable code; only the //@ lines are read.
package chord

//@ spec M48() uint64 = 1 << 48
//@ spec dist48(a uint64, b uint64) uint64 = (b - a) & (1<<48 - 1)
//@ spec between48(lo uint64, t uint64, hi uint64, incl bool) bool =
//@      (lo == hi ? t != lo : (0 < dist48(lo, t) && dist48(lo, t) < dist48(lo, hi))) || (incl && t == hi)

//@ func Between(low, target, high uint64, inclusive bool) (r bool)
//@   arith bv
//@   requires low < 1<<48 && target < 1<<48 && high < 1<<48
//@   ensures ring: r == between48(low, target, high, inclusive)

//@ func ModuloSum(x, y uint64) (r uint64)
//@   arith bv
//@   ensures range: r < 1<<48
//@   ensures sum: (r - ((x & (1<<48 - 1)) + (y & (1<<48 - 1)))) & (1<<48 - 1) == 0
//@   ensures exact: (x < 1<<48 && y < 1<<48) ==> (x + y < 1<<48 ? r == x + y : r == x + y - 1<<48)
