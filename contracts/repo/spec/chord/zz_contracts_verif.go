//go:build verif

// Contracts for package chord (spec/chord), checked by /verif/bin/specv.
// This file contains no executable code; only the //@ lines are read.
package chord

//@ spec M48() uint64 = 1 << 48
//@ spec dist48(a uint64, b uint64) uint64 = (b - a) & (1<<48 - 1)
//@ spec between48(lo uint64, t uint64, hi uint64, incl bool) bool =
//@      (lo == hi ? t != lo : (0 < dist48(lo, t) && dist48(lo, t) < dist48(lo, hi))) || (incl && t == hi)

//@ func Between(low, target, high uint64, inclusive bool) (r bool)
//@   arith bv
//@   requires low < 1<<48 && target < 1<<48 && high < 1<<48
//@   ensures ring: r == between48(low, target, high, inclusive)

//@ func ModuloSum(x, y uint64) (r uint64)
//@   arith bv
//@   ensures range: r < 1<<48
//@   ensures sum: (r - ((x & (1<<48 - 1)) + (y & (1<<48 - 1)))) & (1<<48 - 1) == 0
//@   ensures exact: (x < 1<<48 && y < 1<<48) ==> (x + y < 1<<48 ? r == x + y : r == x + y - 1<<48)

// ---- C12: successor lists

//@ pure VNode.ID
//@ pure VNode.Identity
//@ pure (*go.miragespace.co/specter/spec/protocol.Node).GetAddress

//@ func MakeSuccListByID(immediate VNode, successors []VNode, maxLen int) (r []VNode)
//@   requires immediate != nil && maxLen >= 1
//@   ghost src gmap[int]int
//@   ensures first: len(r) >= 1 && r[0] == immediate
//@   ensures maxlen: len(r) <= maxLen
//@   ensures nonnil: forall i int :: 0 <= i && i < len(r) ==> r[i] != nil
//@   ensures nodup: forall i, j int :: 0 <= i && i < j && j < len(r) ==> r[i].ID() != r[j].ID()
//@   ensures local-from-input: forall a int :: 1 <= a && a < len(r) ==> 0 <= src[a] && src[a] < len(successors) && r[a] == successors[src[a]]
//@   ensures local-order: forall a, b int :: 1 <= a && a < b && b < len(r) ==> src[a] < src[b]
//@   ensures input-unchanged: unchanged(successors)
//@   at call append#1: ghost src[len(succList)] := rangeindex
//@   loop succ: invariant bounds: -1 <= rangeindex && rangeindex < len(successors) && len(succList) >= 1 && len(succList) <= maxLen
//@   loop succ: invariant own: fresh(succList) && fresh(seen) && unchanged(successors)
//@   loop succ: invariant head: succList[0] == immediate
//@   loop succ: invariant nonnil: forall i int :: 0 <= i && i < len(succList) ==> succList[i] != nil
//@   loop succ: invariant seen: forall i int :: 0 <= i && i < len(succList) ==> seen[succList[i].ID()]
//@   loop succ: invariant nodup: forall i, j int :: 0 <= i && i < j && j < len(succList) ==> succList[i].ID() != succList[j].ID()
//@   loop succ: invariant src: forall a int :: 1 <= a && a < len(succList) ==> 0 <= src[a] && src[a] <= rangeindex && succList[a] == successors[src[a]]
//@   loop succ: invariant mono: forall a, b int :: 1 <= a && a < b && b < len(succList) ==> src[a] < src[b]

//@ spec addrOf(v VNode) string = v.Identity().GetAddress()

//@ func MakeSuccListByAddress(immediate VNode, successors []VNode, maxLen int) (r []VNode)
//@   requires immediate != nil && maxLen >= 1
//@   ghost src gmap[int]int
//@   ensures first: len(r) >= 1 && r[0] == immediate
//@   ensures maxlen: len(r) <= maxLen
//@   ensures nonnil: forall i int :: 0 <= i && i < len(r) ==> r[i] != nil
//@   ensures nodup: forall i, j int :: 0 <= i && i < j && j < len(r) ==> addrOf(r[i]) != addrOf(r[j])
//@   ensures local-from-input: forall a int :: 1 <= a && a < len(r) ==> 0 <= src[a] && src[a] < len(successors) && r[a] == successors[src[a]]
//@   ensures local-order: forall a, b int :: 1 <= a && a < b && b < len(r) ==> src[a] < src[b]
//@   ensures input-unchanged: unchanged(successors)
//@   at call append#1: ghost src[len(succList)] := rangeindex
//@   loop succ: invariant bounds: -1 <= rangeindex && rangeindex < len(successors) && len(succList) >= 1 && len(succList) <= maxLen
//@   loop succ: invariant own: fresh(succList) && fresh(seen) && unchanged(successors)
//@   loop succ: invariant head: succList[0] == immediate
//@   loop succ: invariant nonnil: forall i int :: 0 <= i && i < len(succList) ==> succList[i] != nil
//@   loop succ: invariant seen: forall i int :: 0 <= i && i < len(succList) ==> seen[addrOf(succList[i])]
//@   loop succ: invariant nodup: forall i, j int :: 0 <= i && i < j && j < len(succList) ==> addrOf(succList[i]) != addrOf(succList[j])
//@   loop succ: invariant src: forall a int :: 1 <= a && a < len(succList) ==> 0 <= src[a] && src[a] <= rangeindex && succList[a] == successors[src[a]]
//@   loop succ: invariant mono: forall a, b int :: 1 <= a && a < b && b < len(succList) ==> src[a] < src[b]

//@ func Hash(b []byte) (r uint64)
//@   arith bv
//@   ensures range: r < 1<<48

//@ func Random() (r uint64)
//@   arith bv
//@   ensures range: r < 1<<48

// ---- ring identifiers are 48-bit (Hash / Random reduce modulo 2^48; proved under C11)
//@ axiom ids48: forall v VNode :: v != nil ==> v.ID() < 1<<48

// ---- C09: every lookup hop strictly decreases the clockwise distance from just after the node to the key
//@ interface (v VNode) FindSuccessor(key uint64) (r VNode, err error)
//@   opt recursion=lookup
//@   decreases dist48(v.ID() + 1, key)
//@   ensures non-nil-result: err == nil ==> r != nil
//@   ensures owner-on-stable-ring: (stableRing() && mem(v.ID()) && err == nil) ==> r.ID() == ownerOf(key)

// the errors a caller may retry (the registry itself is checked under C14)
//@ spec retryableChord(e error) bool = e == ErrJoinInvalidState || e == ErrJoinTransferFailure || e == ErrJoinInvalidSuccessor || e == ErrLeaveInvalidState || e == ErrLeaveTransferFailure || e == ErrKVStaleOwnership || e == ErrKVPendingTransfer

// ---- C01: ghost ring. mem(id): id is a member; ownerOf(key): the member at minimal clockwise
// distance from key (the first member at or after key); stableRing(): every member's local
// pointers are correct for this membership (unfolded per node as localOK in package chord).
//@ spec mem(id uint64) bool
//@ spec ownerOf(key uint64) uint64
//@ spec stableRing() bool
//@ axiom ring.owner-is-member: forall k uint64 :: k < 1<<48 ==> (mem(ownerOf(k)) && ownerOf(k) < 1<<48)
//@ axiom ring.owner-is-closest: forall k, m uint64 :: (k < 1<<48 && m < 1<<48 && mem(m)) ==> dist48(k, ownerOf(k)) <= dist48(k, m)

// ring arithmetic lemmas (proved with the definitions of dist48/between48 revealed, pure 64-bit vectors);
// functions that use them hide the definitions (opt opaque=dist48,between48)
//@ lemma bv_ring_owner_is_self: forall pre, n, key, o uint64 :: (pre < 1<<48 && n < 1<<48 && key < 1<<48 && o < 1<<48 && between48(pre, key, n, true) && !between48(pre, o, n, false) && dist48(key, o) <= dist48(key, n)) ==> o == n
//@ lemma bv_ring_owner_is_successor_ne: forall n, key, s, o uint64 :: (n != s && n < 1<<48 && key < 1<<48 && s < 1<<48 && o < 1<<48 && between48(n, key, s, true) && dist48((n + 1) & (1<<48 - 1), s) <= dist48((n + 1) & (1<<48 - 1), o) && dist48(key, o) <= dist48(key, s)) ==> o == s
//@ lemma bv_ring_owner_is_successor_eq: forall n, key, s, o uint64 :: (n == s && n < 1<<48 && key < 1<<48 && s < 1<<48 && o < 1<<48 && between48(n, key, s, true) && dist48((n + 1) & (1<<48 - 1), s) <= dist48((n + 1) & (1<<48 - 1), o) && dist48(key, o) <= dist48(key, s)) ==> o == s
//@ lemma bv_ring_next_id: forall n uint64 :: ((n + 1) & (1<<48 - 1)) < 1<<48
//@ lemma bv_ring_hop_decreases: forall n, f, key uint64 :: (n < 1<<48 && f < 1<<48 && key < 1<<48 && between48(n, f, key, false)) ==> dist48(f + 1, key) < dist48(n + 1, key)
//@ lemma bv_ring_successor_hop_decreases: forall n, s, key uint64 :: (n < 1<<48 && s < 1<<48 && key < 1<<48 && !between48(n, key, s, true)) ==> dist48(s + 1, key) < dist48(n + 1, key)
