//go:build verif

// Contracts for package acme (spec/acme), checked by /verif/bin/specv.
// This file contains no executable code; only the //@ lines are read.
package acme

// ---- C33: hostname normalization

// whitespace removal is a function of its argument (its body, a rune loop over a strings.Builder, is not under contract)
//@ func removeSpace(str string) (r string)
//@   pure

// the package initializer compiles the DNS character filter from its literal pattern
//@ func init()
//@   safety off
//@   opt frame=off
//@   ensures dns-filter-as-declared: nonDnsRegex != nil && nonDnsRegex.pattern == "[^a-z0-9-.]+"

//@ func Normalize(zone string) (r string, err error)
//@   use dnschars
//@   safety off
//@   requires pkginit-dns-filter-as-declared: nonDnsRegex != nil && nonDnsRegex.pattern == "[^a-z0-9-.]+"
//@   ghost conv int = 0
//@   ghost prev string = ""
//@   ghost last string = ""
//@   ghost lastArg string = ""
//@   ghost lastErr error = nil
//@   at call ToASCII#*: ghost lastArg := callarg0
//@   at after call ToASCII#*: ghost prev := last
//@   at after call ToASCII#*: ghost last := callresult0
//@   at after call ToASCII#*: ghost lastErr := callresult1
//@   at after call ToASCII#*: ghost conv := conv + 1
//@   ensures failure-returns-no-name: err != nil ==> r == ""
//@   ensures the-result-is-made-of-lowercase-letters-digits-hyphens-and-dots: err == nil ==> (dnsChars(r) && lower(r) == r && !contains(r, "*"))
//@   ensures the-result-itself-qualifies-for-a-public-certificate: err == nil ==> certmagic.SubjectQualifiesForPublicCert(r)
//@   ensures the-result-is-not-an-ip-address: err == nil ==> !certmagic.SubjectIsIP(r)
//@   ensures local-the-result-is-a-fixed-point-of-the-conversion: err == nil ==> (conv >= 2 && lastErr == nil && lastArg == prev && last == r && prev == r)
//@   ensures ip-addresses-local-names-and-other-unqualified-subjects-are-rejected: !certmagic.SubjectQualifiesForPublicCert(removeSpace(zone)) ==> err != nil
//@   ensures wildcards-are-rejected: contains(removeSpace(zone), "*") ==> err != nil

// ---- C33: challenge record names
//@ func EncodeClientToken(token []byte) (r string)
//@   safety off
//@   ensures hex-of-sha224-of-the-token: r == hexenc(sha224sum(str(token)))

//@ func generateRecord(zone string, delegation string, subdomain string) (name string, content string)
//@   safety off
//@   ensures challenge-name-under-the-zone: name == "_acme-challenge." + zone + (dns.IsFqdn(zone) ? "" : ".")
//@   ensures target-is-the-subdomain-under-the-delegation: content == subdomain + "." + delegation + (dns.IsFqdn(delegation) ? "" : ".")

//@ func GenerateCustomRecord(zone string, delegation string, token []byte) (name string, content string)
//@   safety off
//@   ensures challenge-name-under-the-zone: name == "_acme-challenge." + zone + (dns.IsFqdn(zone) ? "" : ".")
//@   ensures target-is-the-token-hash-under-the-delegation: content == hexenc(sha224sum(str(token))) + "." + delegation + (dns.IsFqdn(delegation) ? "" : ".")

//@ func GenerateManagedRecord(zone string, delegation string) (name string, content string)
//@   safety off
//@   ensures target-is-the-managed-label-under-the-delegation: content == "managed." + delegation + (dns.IsFqdn(delegation) ? "" : ".") && name == "_acme-challenge." + zone + (dns.IsFqdn(zone) ? "" : ".")

// distinct client tokens give distinct challenge targets under the same delegation: from the contract of
// GenerateCustomRecord (target = hexenc(sha224sum(token)) + tail), given that hex encoding is injective and that the
// two tokens do not collide under SHA-224 (both stated as hypotheses of the lemma, not as axioms)
//@ lemma distinct_tokens_distinct_targets: forall t1, t2, tail string :: ((hexenc(sha224sum(t1)) == hexenc(sha224sum(t2)) ==> sha224sum(t1) == sha224sum(t2)) && (sha224sum(t1) == sha224sum(t2) ==> t1 == t2) && (hexenc(sha224sum(t1)) + tail == hexenc(sha224sum(t2)) + tail)) ==> t1 == t2
