//go:build verif

// Contracts for package pki (spec/pki), checked by /verif/bin/specv.
// This file contains no executable code; only the //@ lines are read.
package pki

// ---- C32: the identity a certificate yields
//@ func ExtractCertificateIdentity(cert *x509.Certificate) (id *Identity, err error)
//@   safety off
//@   opt frame=off
//@   requires cert != nil
//@   at call SplitN#1: assert subject-is-cut-into-version-id-and-the-whole-rest: callarg0 == cert.Subject.CommonName && callarg1 == ":" && callarg2 == 3
//@   ensures refused-has-no-identity: err != nil ==> id == nil
//@   ensures success-has-an-identity-of-a-known-version: err == nil ==> (id != nil && (id.Version == TokenV1 || id.Version == TokenV2))
//@   ensures a-v2-token-is-the-whole-common-name: (err == nil && id.Version == TokenV2) ==> str(id.Token) == cert.Subject.CommonName
//@   ensures a-subject-without-separators-is-refused: !contains(cert.Subject.CommonName, ":") ==> err != nil
