//go:build verif

// Contracts for package hashcash, checked by /verif/bin/specv.
// This file contains no executable code; only the //@ lines are read.
package hashcash

// ---- C31: leading-zero-bit test

//@ func verifyBits(hash []byte, bits, n int) (r bool)
//@   requires 0 <= bits && bits <= 1<<20 && n == (bits + 7) / 8 && n <= len(hash)
//@   ensures exact: r == ((forall j int :: 0 <= j && j < bits / 8 ==> hash[j] == 0) && (bits % 8 != 0 ==> hash[bits / 8] >> (8 - bits % 8) == 0))
//@   loop i: invariant iter: 0 <= rangeint$iter && rangeint$iter < n
//@   loop i: invariant remaining: bits >= 1 && bits == old(bits) - 8 * rangeint$iter
//@   loop i: invariant zero-prefix: forall j int :: 0 <= j && j < rangeint$iter ==> hash[j] == 0

//@ pure (*Hashcash).String

//@ spec leadingZeroBits(hsh [32]byte, bits int) bool =
//@      (forall j int :: 0 <= j && j < bits / 8 ==> hsh[j] == 0) && (bits % 8 != 0 ==> hsh[bits / 8] >> (8 - bits % 8) == 0)

//@ func (h *Hashcash) Verify(subject string) (err error)
//@   requires difficulty-fits-digest: h.Difficulty <= 256
//@   ensures accepted-only-if-valid: err == nil ==> (h.Difficulty >= 0 && h.Alg == "SHA-256" && subject == h.Subject && leadingZeroBits(sha256sum(h.String()), h.Difficulty))
//@   ensures valid-is-accepted: (h.Difficulty >= 0 && h.Alg == "SHA-256" && subject == h.Subject && h.ExpiresAt.IsZero() && leadingZeroBits(sha256sum(h.String()), h.Difficulty)) ==> err == nil
//@   ensures rejects-bad-bits: (h.Difficulty >= 0 && !leadingZeroBits(sha256sum(h.String()), h.Difficulty)) ==> err != nil

//@ func Parse(hc string) (h *Hashcash, err error)
//@   ensures one-or-the-other: (err == nil) == (h != nil)
//@   ensures fresh-object: h != nil ==> fresh(h)
//@   ensures non-negative: h != nil ==> h.Difficulty >= 0

// ---- C31 (solver side): what Solve searches over is what Verify recomputes. The fixed part of the stamp is taken
// with an empty solution field (a stale solution is first verified and otherwise cleared), every candidate is hashed
// as <fixed part>:<candidate>, which is exactly String() of the stamp carrying that candidate, and Solve returns nil
// only for a candidate whose hash passed the same bit test Verify applies. Termination of the search is not decided.
//@ func (h *Hashcash) Solve(maxDifficulty int) (err error)
//@   safety off
//@   opt frame=off
//@   requires h != nil
//@   requires env-the-global-cap-is-the-shipped-one-or-lower: MaxDifficulty <= 256
//@   ghost prefixTaken int = 0
//@   ghost passed bool = false
//@   at call String#*: assert the-fixed-part-is-taken-from-a-stamp-without-solution: h.Solution == "" && prefixTaken == 0
//@   at call String#*: ghost prefixTaken := prefixTaken + 1
//@   at call Sum256#*: assert each-candidate-is-hashed-in-the-form-verify-recomputes: str(callarg0) == hashcash + Sep + h.Solution && prefixTaken == 1
//@   at call verifyBits#*: assert the-same-bit-test-as-verify: callarg1 == h.Difficulty && callarg2 == n
//@   at after call verifyBits#*: ghost passed := callresult
//@   ensures local-a-found-solution-passed-the-bit-test-or-the-old-one-verified: err == nil ==> (passed || prefixTaken == 0)
