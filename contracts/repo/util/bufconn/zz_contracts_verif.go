//go:build verif

// Contracts for package bufconn (util/bufconn), checked by /verif/bin/specv.
// This file contains no executable code; only the //@ lines are read.
package bufconn

// ---- C39: the ring buffer behind the in-memory pipe. Monitor discipline: every field of a pipe is accessed
// only under p.mu; while a call waits on a condition variable other calls may change the fields, subject to
// the monitor invariant ringOK (stated as `havoc` + `assume` at each Wait, and proved again at every exit).
//@ macro ringOK(p *pipe) bool = cap(p.buf) >= 1 && 0 <= p.r && p.r <= len(p.buf) && len(p.buf) <= cap(p.buf) && 0 <= p.w && p.w < cap(p.buf) && ((p.w == len(p.buf) && p.r <= p.w) || (len(p.buf) == cap(p.buf) && p.w <= p.r && p.r < len(p.buf)))
// number of unread bytes in the ring
//@ macro pending(p *pipe) int = (p.w == len(p.buf) ? p.w - p.r : (len(p.buf) - p.r) + p.w)

//@ func (p *pipe) empty() (r bool)
//@   requires ringOK(p)
//@   ensures r == (pending(p) == 0)
//@ func (p *pipe) full() (r bool)
//@   requires ringOK(p)
//@   ensures r == (pending(p) == cap(p.buf))

// the d-th unread byte of the ring (0 <= d < pending(p))
//@ macro ringAt(p *pipe, d int) byte = p.buf[((p.w == len(p.buf) || d < len(p.buf) - p.r) ? p.r + d : d - (len(p.buf) - p.r))]
// The abstract view. A stream history is a pair (rd, strm): strm[k] is the k-th byte ever written to the pipe and rd
// the number of bytes read so far. hist says that the ring holds exactly strm[rd .. rd+pending).
//@ macro hist(p *pipe, rd int, strm gmap[int]byte) bool = forall k int {strm[k]} :: (rd <= k && k < rd + pending(p)) ==> strm[k] == ringAt(p, k - rd)

// Read. The section after the last wait is atomic (p.mu is held): for every stream history that agrees with the
// ring at that point (the `assume` below quantifies over the otherwise unconstrained ghosts rd and strm), the n bytes
// delivered are strm[rd .. rd+n) and the ring agrees with the history advanced by n. Nothing is delivered twice,
// skipped or reordered.
//@ func (p *pipe) Read(b []byte) (n int, err error)
//@   opt frame=off
//@   requires ringOK(p)
//@   requires the-ring-is-private-to-the-pipe: b.ref != p.buf.ref
//@   ghost rd int
//@   ghost strm gmap[int]byte
//@   ghost wasFull bool = false
//@   ghost signalled bool = false
//@   at after call Wait#1: havoc p.buf, p.r, p.w, p.closed, p.writeClosed, p.rtimedout, p.wtimedout
//@   at after call Wait#1: assume monitor-invariant-holds-when-the-lock-is-reacquired: ringOK(p) && p.buf.ref == old(p.buf.ref) && cap(p.buf) == old(cap(p.buf))
//@   at call Wait#1: assert a-read-waits-only-while-it-has-nothing-to-return: !p.closed && !p.writeClosed && !p.rtimedout && pending(p) == 0
//@   at call full#1: assert data-is-delivered-only-on-an-open-end-that-holds-data: !p.closed && pending(p) > 0
//@   at call full#1: assume for-every-stream-history-that-agrees-with-the-ring-here: hist(p, rd, strm)
//@   at call full#1: ghost wasFull := pending(p) == cap(p.buf)
//@   at call Signal#1: ghost signalled := true
//@   ensures monitor-invariant-kept: ringOK(p) && cap(p.buf) == old(cap(p.buf))
//@   ensures a-closed-pipe-fails: err == io.ErrClosedPipe ==> (n == 0 && p.closed)
//@   ensures end-of-stream-only-when-empty-and-write-closed: err == io.EOF ==> (n == 0 && p.writeClosed && pending(p) == 0 && !p.closed)
//@   ensures timeout-only-when-the-deadline-fired-on-an-empty-pipe: err == errTimeout ==> (n == 0 && p.rtimedout && pending(p) == 0)
//@   ensures errors-are-the-documented-ones: err == nil || err == io.ErrClosedPipe || err == io.EOF || err == errTimeout
//@   ensures success-delivers-at-most-what-fits: err == nil ==> (0 <= n && n <= len(b))
//@   ensures success-on-a-non-empty-buffer-delivers-data: (err == nil && len(b) > 0) ==> n > 0
//@   ensures local-delivered-bytes-are-the-next-bytes-of-the-stream: err == nil ==> (forall i int {b[i]} :: (0 <= i && i < n) ==> b[i] == strm[rd + i])
//@   ensures local-the-ring-holds-the-rest-of-the-stream: err == nil ==> hist(p, rd + n, strm)
//@   ensures local-a-writer-blocked-on-a-full-ring-is-signalled: (err == nil && wasFull) ==> signalled
//@   loop 1: invariant monitor: ringOK(p) && cap(p.buf) == old(cap(p.buf)) && p.buf.ref == old(p.buf.ref)

// Write. One writer per pipe at a time (recorded assumption): while Write waits for room only readers run, so the
// ring loses bytes at the front and nothing else changes. For every stream history (rd, strm) that agrees with the
// ring on entry and continues with the bytes of b, the ring agrees with the history again after every chunk, and on
// success all of b has been appended in order.
//@ func (p *pipe) Write(b []byte) (n int, err error)
//@   opt frame=off
//@   requires ringOK(p)
//@   requires the-ring-is-private-to-the-pipe: b.ref != p.buf.ref
//@   ghost rd int
//@   ghost strm gmap[int]byte
//@   ghost w0 int
//@   ghost pb int = 0
//@   ghost chunkOnEmpty bool = false
//@   ghost signalled bool = false
//@   at call Lock#1: assume for-every-stream-history-that-agrees-with-the-ring-on-entry-and-continues-with-b: hist(p, rd, strm) && w0 == rd + pending(p) && (forall k int {strm[k]} :: (w0 <= k && k < w0 + len(b)) ==> strm[k] == b[k - w0])
//@   at call Wait#1: ghost pb := pending(p)
//@   at after call Wait#1: havoc p.buf, p.r, p.closed, p.writeClosed, p.rtimedout, p.wtimedout
//@   at after call Wait#1: ghost rd := rd + (pb - pending(p))
//@   at after call Wait#1: assume while-the-writer-waits-only-readers-run-and-they-keep-the-ring-consistent: ringOK(p) && p.buf.ref == old(p.buf.ref) && cap(p.buf) == old(cap(p.buf)) && pending(p) <= pb && hist(p, rd, strm)
//@   at call Wait#1: assert a-write-waits-only-while-it-can-neither-fail-nor-proceed: !p.closed && !p.writeClosed && !p.wtimedout && pending(p) == cap(p.buf)
//@   at call copy#1: assert bytes-are-accepted-only-on-an-open-pipe-with-room: !p.closed && !p.writeClosed && pending(p) < cap(p.buf)
//@   at call copy#1: ghost chunkOnEmpty := pending(p) == 0
//@   at call copy#1: ghost signalled := false
//@   at call Signal#1: ghost signalled := true
//@   ensures monitor-invariant-kept: ringOK(p) && cap(p.buf) == old(cap(p.buf))
//@   ensures success-writes-everything: err == nil ==> n == len(b)
//@   ensures errors-are-the-documented-ones: err == nil || err == io.ErrClosedPipe || err == errTimeout
//@   ensures a-closed-pipe-fails: err == io.ErrClosedPipe ==> (p.closed || p.writeClosed)
//@   ensures local-the-ring-agrees-with-the-stream: hist(p, rd, strm)
//@   ensures local-success-appends-all-of-b-in-order: err == nil ==> rd + pending(p) == w0 + len(b)
//@   loop 1: invariant monitor: ringOK(p) && cap(p.buf) == old(cap(p.buf)) && p.buf.ref == old(p.buf.ref) && 0 <= n && n + len(b) == old(len(b)) && b.ref == old(b.ref) && b.off == old(b.off) + n
//@   loop 1: invariant stream: hist(p, rd, strm) && rd + pending(p) == w0 + n && keptArraysExcept("byte", p.buf)
//@   loop 1: invariant a-reader-blocked-on-an-empty-ring-is-signalled: chunkOnEmpty ==> signalled
//@   loop 2: invariant monitor: ringOK(p) && cap(p.buf) == old(cap(p.buf)) && p.buf.ref == old(p.buf.ref) && 0 <= n && n + len(b) == old(len(b)) && len(b) > 0 && b.ref == old(b.ref) && b.off == old(b.off) + n
//@   loop 2: invariant stream: hist(p, rd, strm) && rd + pending(p) == w0 + n && keptArraysExcept("byte", p.buf)

// Close and closeWrite only raise a flag: the unread bytes stay where they are (a reader drains them before it sees
// end-of-stream, see Read).
//@ func (p *pipe) Close() (err error)
//@   opt frame=off
//@   requires ringOK(p)
//@   ensures closed: p.closed && err == nil && ringOK(p) && p.buf == old(p.buf) && p.r == old(p.r) && p.w == old(p.w) && p.writeClosed == old(p.writeClosed)
//@   ensures ring-bytes-untouched: keptArraysExcept("byte", nil)
//@ func (p *pipe) closeWrite() (err error)
//@   opt frame=off
//@   requires ringOK(p)
//@   ensures write-side-closed-data-kept: p.writeClosed && err == nil && ringOK(p) && p.buf == old(p.buf) && p.r == old(p.r) && p.w == old(p.w) && p.closed == old(p.closed)
//@   ensures ring-bytes-untouched: keptArraysExcept("byte", nil)

// closing one end closes its read side and half-closes the other direction
//@ func (c *conn) Close() (err error)
//@   safety off
//@   opt frame=off
//@   requires both-directions-well-formed: ringOK(cast(c.Reader, "*pipe")) && ringOK(cast(c.Writer, "*pipe")) && dyntype(c.Reader, "*pipe") && dyntype(c.Writer, "*pipe")
//@   ensures own-read-side-closed-and-peer-sees-end-of-stream: cast(c.Reader, "*pipe").closed && cast(c.Writer, "*pipe").writeClosed && err == nil

//@ func newPipe(sz int) (r *pipe)
//@   requires sz >= 1
//@   ensures fresh(r)
//@   ensures an-empty-open-ring-of-the-requested-capacity: ringOK(r) && pending(r) == 0 && cap(r.buf) == sz && !r.closed && !r.writeClosed && !r.rtimedout && !r.wtimedout

// the two ends are cross-connected: what one end writes is what the other end reads
//@ func BufferedPipe(bufSize int) (c1 net.Conn, c2 net.Conn)
//@   requires bufSize >= 1
//@   ensures cross-connected: dyntype(c1, "*conn") && dyntype(c2, "*conn") && cast(c1, "*conn").Reader == cast(c2, "*conn").Writer && cast(c1, "*conn").Writer == cast(c2, "*conn").Reader && cast(c1, "*conn").Reader != cast(c1, "*conn").Writer
//@   ensures both-directions-start-empty-and-open: ringOK(cast(cast(c1, "*conn").Reader, "*pipe")) && pending(cast(cast(c1, "*conn").Reader, "*pipe")) == 0 && ringOK(cast(cast(c1, "*conn").Writer, "*pipe")) && pending(cast(cast(c1, "*conn").Writer, "*pipe")) == 0

//@ func (c *conn) SetReadDeadline(t time.Time) (err error)
//@   safety off
//@   opt frame=off
//@   ghost armed int = 0
//@   at call AfterFunc#?: assert the-earlier-timeout-is-forgotten-before-a-new-timer-is-armed: !cast(c.Reader, "*pipe").rtimedout
//@   at call AfterFunc#?: ghost armed := armed + 1
//@   ensures local-a-cleared-deadline-forgets-an-earlier-timeout: armed == 0 ==> !cast(c.Reader, "*pipe").rtimedout
//@ func (c *conn) SetWriteDeadline(t time.Time) (err error)
//@   safety off
//@   opt frame=off
//@   ghost armed int = 0
//@   at call AfterFunc#?: assert the-earlier-timeout-is-forgotten-before-a-new-timer-is-armed: !cast(c.Writer, "*pipe").wtimedout
//@   at call AfterFunc#?: ghost armed := armed + 1
//@   ensures local-a-cleared-deadline-forgets-an-earlier-timeout: armed == 0 ==> !cast(c.Writer, "*pipe").wtimedout
