//go:build verif

// Contracts for package promise, checked by /verif/bin/specv.
// This file contains no executable code; only the //@ lines are read.
package promise

//@ func All(fnCtx context.Context, fns []func(fnCtx context.Context) (V, error)) (results []V, errors []error)
//@   trusted
//@   ensures lens: len(results) == len(fns) && len(errors) == len(fns)
//@   ensures fresh: fresh(results) && fresh(errors) && !sameBacking(results, fns)
//@   ensures failed-slot-is-zero: forall i int :: 0 <= i && i < len(fns) ==> (errors[i] != nil ==> results[i] == zero(V))
