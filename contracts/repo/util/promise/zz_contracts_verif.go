//go:build verif

// Contracts for package promise, checked by /verif/bin/specv.
// This file contains no executable code; only the //@ lines are read.
package promise

//@ func All(fnCtx context.Context, fns []func(fnCtx context.Context) (V, error)) (results []V, errors []error)
//@   trusted
//@   ensures lens: len(results) == len(fns) && len(errors) == len(fns)
//@   ensures fresh: fresh(results) && fresh(errors) && !sameBacking(results, fns)
//@   ensures failed-slot-is-zero: forall i int :: 0 <= i && i < len(fns) ==> (errors[i] != nil ==> results[i] == zero(V))

// ---- C46: fork/join decomposition of All. The exported contract above follows from the three proved
// pieces below by the fork/join rule (trusted: sync.WaitGroup and channel close/receive happens-before):
//   worker i (All$2) writes only slot i of results/errors, the outcome of task i, and calls Done exactly once;
//   the main thread (All@forkjoin) allocates both slices with one slot per task, adds len(fns) to the wait
//   group, forks exactly one worker per task with that task's own index, and returns only after a receive
//   from `done` on every path (also when the context is cancelled);
//   the waiter (All$1) closes `done` only after Wait returned.
//@ func All$2(i int, fn func(context.Context) (V, error))
//@   opt frame=off
//@   safety bounds
//@   requires slot-exists: 0 <= i && i < len(results) && i < len(errors) && !sameBacking(results, errors)
//@   ghost v0 V
//@   ghost e0 error = nil
//@   ghost called int = 0
//@   ghost dones int = 0
//@   at after call dyn#1: ghost v0 := callresult0
//@   at after call dyn#1: ghost e0 := callresult1
//@   at after call dyn#1: ghost called := called + 1
//@   at call dyn#1: assert task-runs-with-the-shared-context: callarg0 == fnCtx
//@   at defer Done#1: assert done-is-deferred-to-the-workers-exit-before-the-task-starts: called == 0 && dones == 0
//@   at defer Done#1: ghost dones := dones + 1
//@   ensures local-the-task-ran-once-and-done-was-called-once: called == 1 && dones == 1
//@   ensures local-an-error-goes-to-its-own-slot: e0 != nil ==> (errors[i] == e0 && results[i] == old(results[i]))
//@   ensures local-a-value-goes-to-its-own-slot: e0 == nil ==> (results[i] == v0 && errors[i] == old(errors[i]))
//@   ensures other-slots-untouched: forall j int :: (0 <= j && j != i) ==> ((j < len(results) ==> results[j] == old(results[j])) && (j < len(errors) ==> errors[j] == old(errors[j])))
//@   ensures slices-themselves-untouched: results == old(results) && errors == old(errors)

//@ func All$1()
//@   safety off
//@   opt frame=off
//@   ghost waited bool = false
//@   at after call Wait#1: ghost waited := true
//@   at call close#1: assert done-is-closed-only-after-every-worker-called-done: waited && callarg0 == done

//@ func All@forkjoin(fnCtx context.Context, fns []func(fnCtx context.Context) (V, error)) (rs []V, es []error)
//@   opt frame=off
//@   safety bounds
//@   ghost spawned int = 0
//@   ghost which int = -2
//@   ghost drained bool = false
//@   at call Add#1: assert one-count-per-task: callarg1 == len(fns)
//@   at go All$2#1: assert each-task-is-forked-with-its-own-index: spawned == rangeindex && callarg0 == rangeindex && callarg1 == fns[rangeindex]
//@   at go All$2#1: ghost spawned := spawned + 1
//@   at after select#1: assert first-case-waits-for-done: callarg0 == done
//@   at after select#1: ghost which := callresult0
//@   at recv#1: assert cancelled-branch-still-waits-for-done: callarg0 == done
//@   at recv#1: ghost drained := true
//@   ensures local-one-worker-per-task: spawned == len(fns)
//@   ensures local-returns-only-after-done: which == 0 || drained
//@   ensures local-one-slot-per-task: len(rs) == len(fns) && len(es) == len(fns) && fresh(rs) && fresh(es) && !sameBacking(rs, es)
//@   loop fn: invariant forked: -1 <= rangeindex && rangeindex < len(fns) && spawned == rangeindex + 1 && unchanged(fns) && len(results) == len(fns) && len(errors) == len(fns) && fresh(results) && fresh(errors) && !sameBacking(results, errors)
