//go:build verif

// Contracts for package rtt, checked by /verif/bin/specv.
// This file contains no executable code; only the //@ lines are read.
package rtt

// ---- C50: a measurement exists only if some sample lies within the window, and it is computed
// from exactly the samples within the window, in order

//@ func (i *Instrumentation) Snapshot(key string, last time.Duration) (r *rtt.Statistics)
//@   opt frame=off
//@   safety nil,bounds
//@   requires i.measurement != nil
//@   ghost recent int = 0
//@   ghost src gmap[int]int
//@   ghost vals []float64
//@   at after call Load#1: assume stored-containers-are-not-nil: callresult1 ==> callresult0 != nil
//@   at call append#1: ghost src[len(values)] := rangeindex
//@   at call append#1: ghost recent := recent + 1
//@   at call Min#1: ghost vals := values
//@   ensures unknown-key-has-no-measurement: !i.measurement.keys[key] ==> r == nil
//@   ensures no-recent-sample-no-measurement: (r == nil) == (!i.measurement.keys[key] || recent == 0)
//@   ensures statistics-over-exactly-the-recent-samples: r != nil ==> (len(vals) == recent && (forall a int :: 0 <= a && a < len(vals) ==> (0 <= src[a] && src[a] < len(c.data) && vals[a] == c.data[src[a]].value)) && (forall a, b int :: 0 <= a && a < b && b < len(vals) ==> src[a] < src[b]))
//@   loop p: invariant idx: -1 <= rangeindex && rangeindex < len(c.data)
//@   loop p: invariant container: c != nil
//@   loop p: invariant count: len(values) == recent && 0 <= recent && recent <= rangeindex + 1 && fresh(values)
//@   loop p: invariant from-data: forall a int :: 0 <= a && a < len(values) ==> (0 <= src[a] && src[a] <= rangeindex && values[a] == c.data[src[a]].value)
//@   loop p: invariant order: forall a, b int :: 0 <= a && a < b && b < len(values) ==> src[a] < src[b]
