//go:build verif

// Contracts for package proto (kv/aof/proto, generated code), checked by /verif/bin/specv.
// This file contains no executable code; only the //@ lines are read.
package proto

// nil-safe getters of the generated Mutation / LogEntry messages
//@ func (x *Mutation) GetType() (r MutationType)
//@   ensures x != nil ==> r == x.Type
//@   ensures x == nil ==> r == MutationType_UNKNOWN_TYPE
//@ func (x *Mutation) GetKey() (r []byte)
//@   ensures x != nil ==> r == x.Key
//@   ensures x == nil ==> r == nil
//@ func (x *Mutation) GetValue() (r []byte)
//@   ensures x != nil ==> r == x.Value
//@   ensures x == nil ==> r == nil
//@ func (x *Mutation) GetKeys() (r [][]byte)
//@   ensures x != nil ==> r == x.Keys
//@   ensures x == nil ==> r == nil
//@ func (x *Mutation) GetValues() (r []*protocol.KVTransfer)
//@   ensures x != nil ==> r == x.Values
//@   ensures x == nil ==> r == nil

//@ func (x *LogEntry) GetVersion() (r LogVersion)
//@   ensures x != nil ==> r == x.Version
//@   ensures x == nil ==> r == LogVersion_UNKNOWN_VERSION
//@ func (x *LogEntry) GetData() (r []byte)
//@   ensures x != nil ==> r == x.Data
//@   ensures x == nil ==> r == nil
//@ func (x *LogEntry) GetChecksum() (r uint64)
//@   ensures x != nil ==> r == x.Checksum
//@   ensures x == nil ==> r == 0

// Generated reset/decode code (protoc-gen-go / vtprotobuf), assumed: Reset zeroes every field; UnmarshalVT
// MERGES the wire fields into the receiver (a field absent from the wire keeps its previous value), which
// is why a reused message must be reset before every decode.
//@ spec wireHasVersion(s string) bool
//@ spec wireVersion(s string) LogVersion
//@ spec wireHasData(s string) bool
//@ spec wireData(s string) string
//@ spec wireHasChecksum(s string) bool
//@ spec wireChecksum(s string) uint64
//@ func (x *LogEntry) Reset()
//@   trusted
//@   modifies x.Version, x.Data, x.Checksum
//@   ensures x.Version == LogVersion_UNKNOWN_VERSION && x.Data == nil && x.Checksum == 0
//@ func (m *LogEntry) UnmarshalVT(dAtA []byte) (err error)
//@   trusted
//@   modifies m.Version, m.Data, m.Checksum
//@   ensures err == nil ==> m.Version == (wireHasVersion(str(dAtA)) ? wireVersion(str(dAtA)) : old(m.Version))
//@   ensures err == nil ==> str(m.Data) == (wireHasData(str(dAtA)) ? wireData(str(dAtA)) : old(str(m.Data)))
//@   ensures err == nil ==> m.Checksum == (wireHasChecksum(str(dAtA)) ? wireChecksum(str(dAtA)) : old(m.Checksum))
//@ func (x *Mutation) Reset()
//@   trusted
//@   modifies x.Type, x.Key, x.Value, x.Keys, x.Values
//@   ensures x.Type == MutationType_UNKNOWN_TYPE && x.Key == nil && x.Value == nil && x.Keys == nil && x.Values == nil
//@ func (m *Mutation) UnmarshalVT(dAtA []byte) (err error)
//@   trusted
//@   modifies m.Type, m.Key, m.Value, m.Keys, m.Values
//@ func (m *Mutation) SizeVT() (n int)
//@   trusted
//@   ensures n >= 0
//@ func (m *LogEntry) SizeVT() (n int)
//@   trusted
//@   ensures n >= 0
