//go:build verif

// Contracts for package proto (kv/aof/proto, generated code), checked by /verif/bin/specv.
// This file contains no executable code; only the //@ lines are read.
package proto

// nil-safe getters of the generated Mutation / LogEntry messages
//@ func (x *Mutation) GetType() (r MutationType)
//@   ensures x != nil ==> r == x.Type
//@   ensures x == nil ==> r == MutationType_UNKNOWN_TYPE
//@ func (x *Mutation) GetKey() (r []byte)
//@   ensures x != nil ==> r == x.Key
//@   ensures x == nil ==> r == nil
//@ func (x *Mutation) GetValue() (r []byte)
//@   ensures x != nil ==> r == x.Value
//@   ensures x == nil ==> r == nil
//@ func (x *Mutation) GetKeys() (r [][]byte)
//@   ensures x != nil ==> r == x.Keys
//@   ensures x == nil ==> r == nil
//@ func (x *Mutation) GetValues() (r []*protocol.KVTransfer)
//@   ensures x != nil ==> r == x.Values
//@   ensures x == nil ==> r == nil
