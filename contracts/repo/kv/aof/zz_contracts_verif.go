//go:build verif

// Contracts for package aof (kv/aof), checked by /verif/bin/specv.
// This file contains no executable code; only the //@ lines are read.
package aof

// ---- C16/C17: the append-only-log store applies every mutation to its in-memory store through one
// dispatch table; reads delegate to the in-memory store (whose contracts are in kv/memory).

//@ func (d *DiskKV) handleMutation(mut *proto.Mutation) (err error)
//@   opt frame=off
//@   opt puredyn=content
//@   requires receiver: d != nil && d.memKv != nil && mut != nil
//@   requires store-well-formed: memory.repOK(d.memKv)
//@   requires the-shared-empty-value-is-nil: memory.empty == nil
//@   requires import-is-well-formed: mut.Type == proto.MutationType_IMPORT ==> (len(mut.Keys) == len(mut.Values) && (forall i int {mut.Values[i]} :: (0 <= i && i < len(mut.Values)) ==> mut.Values[i] != nil) && (forall i int, j int {mut.Keys[i], mut.Keys[j]} :: (0 <= i && i < j && j < len(mut.Keys)) ==> str(mut.Keys[i]) != str(mut.Keys[j])))
//@   ghost op int = 0
//@   ghost n int = 0
//@   ghost res error = nil
//@   at call Put#1: assert put-gets-key-and-value: callarg0 == d.memKv && callarg2 == mut.Key && callarg3 == mut.Value
//@   at call Put#1: ghost op := 1
//@   at call Put#1: ghost n := n + 1
//@   at after call Put#1: ghost res := callresult
//@   at call Delete#1: assert delete-gets-key: callarg0 == d.memKv && callarg2 == mut.Key
//@   at call Delete#1: ghost op := 2
//@   at call Delete#1: ghost n := n + 1
//@   at after call Delete#1: ghost res := callresult
//@   at call PrefixAppend#1: assert append-gets-prefix-and-child: callarg0 == d.memKv && callarg2 == mut.Key && callarg3 == mut.Value
//@   at call PrefixAppend#1: ghost op := 3
//@   at call PrefixAppend#1: ghost n := n + 1
//@   at after call PrefixAppend#1: ghost res := callresult
//@   at call PrefixRemove#1: assert remove-gets-prefix-and-child: callarg0 == d.memKv && callarg2 == mut.Key && callarg3 == mut.Value
//@   at call PrefixRemove#1: ghost op := 4
//@   at call PrefixRemove#1: ghost n := n + 1
//@   at after call PrefixRemove#1: ghost res := callresult
//@   at call Import#1: assert import-gets-keys-and-values: callarg0 == d.memKv && callarg2 == mut.Keys && callarg3 == mut.Values
//@   at call Import#1: ghost op := 5
//@   at call Import#1: ghost n := n + 1
//@   at after call Import#1: ghost res := callresult
//@   at call RemoveKeys#1: assert removekeys-gets-keys: callarg0 == d.memKv && callarg2 == mut.Keys
//@   at call RemoveKeys#1: ghost op := 6
//@   at call RemoveKeys#1: ghost n := n + 1
//@   at after call RemoveKeys#1: ghost res := callresult
//@   ensures local-put-applies-put: mut.Type == proto.MutationType_SIMPLE_PUT ==> (op == 1 && n == 1)
//@   ensures local-delete-applies-delete: mut.Type == proto.MutationType_SIMPLE_DELETE ==> (op == 2 && n == 1)
//@   ensures local-append-applies-append: mut.Type == proto.MutationType_PREFIX_APPEND ==> (op == 3 && n == 1)
//@   ensures local-remove-applies-remove: mut.Type == proto.MutationType_PREFIX_REMOVE ==> (op == 4 && n == 1)
//@   ensures local-import-applies-import: mut.Type == proto.MutationType_IMPORT ==> (op == 5 && n == 1)
//@   ensures local-removekeys-applies-removekeys: mut.Type == proto.MutationType_REMOVE_KEYS ==> (op == 6 && n == 1)
//@   ensures local-unknown-type-applies-nothing: (mut.Type != proto.MutationType_SIMPLE_PUT && mut.Type != proto.MutationType_SIMPLE_DELETE && mut.Type != proto.MutationType_PREFIX_APPEND && mut.Type != proto.MutationType_PREFIX_REMOVE && mut.Type != proto.MutationType_IMPORT && mut.Type != proto.MutationType_REMOVE_KEYS) ==> (n == 0 && err == nil)
//@   ensures local-result-is-the-operations-result: n == 1 ==> err == res
//@   ensures store-stays-well-formed: memory.repOK(d.memKv) && memory.empty == nil && d.memKv == old(d.memKv) && d.log == old(d.log) && d.counter == old(d.counter) && d.log.last == old(d.log.last)
//@   ensures only-a-duplicate-append-is-rejected: err == nil || (mut.Type == proto.MutationType_PREFIX_APPEND && err == chord.ErrKVPrefixConflict)

// The request handed to the single writer goroutine is the pooled request whose mutation the caller's
// closure has just filled in; the caller gets the writer's answer. (The queue hand-off itself -- that the
// writer calls appendLog/handleMutation on what it receives -- is the Start loop, see C20.)
//@ func (d *DiskKV) mutationHandler(fn func(mut *proto.Mutation)) (err error)
//@   safety off
//@   opt frame=off
//@   requires d != nil
//@   ghost filled *proto.Mutation = nil
//@   ghost nfill int = 0
//@   ghost sent *mutationReq = nil
//@   ghost nsent int = 0
//@   ghost answer error = nil
//@   at call dyn#1: assert fills-before-queueing: nsent == 0
//@   at call dyn#1: ghost filled := callarg0
//@   at call dyn#1: ghost nfill := nfill + 1
//@   at send#1: assert queued-request-carries-the-filled-mutation: nfill == 1 && callarg1.mut == filled && callarg0 == d.queue
//@   at send#1: ghost sent := callarg1
//@   at send#1: ghost nsent := nsent + 1
//@   at after recv#1: ghost answer := callresult
//@   ensures local-refused-only-when-closed-and-then-nothing-is-queued: nsent == 0 ==> (err == fs.ErrClosed && nfill == 0)
//@   ensures local-queued-once-and-answer-returned: nsent != 0 ==> (nsent == 1 && nfill == 1 && err == answer)

//@ func (d *DiskKV) Put$1(mut *proto.Mutation)
//@   requires mut != nil
//@   modifies mut.Type, mut.Key, mut.Value
//@   ensures put-request: mut.Type == proto.MutationType_SIMPLE_PUT && mut.Key == key && mut.Value == value

//@ func (d *DiskKV) Delete$1(mut *proto.Mutation)
//@   requires mut != nil
//@   modifies mut.Type, mut.Key
//@   ensures delete-request: mut.Type == proto.MutationType_SIMPLE_DELETE && mut.Key == key

//@ func (d *DiskKV) PrefixAppend$1(mut *proto.Mutation)
//@   requires mut != nil
//@   modifies mut.Type, mut.Key, mut.Value
//@   ensures append-request: mut.Type == proto.MutationType_PREFIX_APPEND && mut.Key == prefix && mut.Value == child

//@ func (d *DiskKV) PrefixRemove$1(mut *proto.Mutation)
//@   requires mut != nil
//@   modifies mut.Type, mut.Key, mut.Value
//@   ensures remove-request: mut.Type == proto.MutationType_PREFIX_REMOVE && mut.Key == prefix && mut.Value == child

//@ func (d *DiskKV) Import$1(mut *proto.Mutation)
//@   requires mut != nil
//@   modifies mut.Type, mut.Keys, mut.Values
//@   ensures import-request: mut.Type == proto.MutationType_IMPORT && mut.Keys == keys && mut.Values == values

//@ func (d *DiskKV) RemoveKeys$1(mut *proto.Mutation)
//@   requires mut != nil
//@   modifies mut.Type, mut.Keys
//@   ensures removekeys-request: mut.Type == proto.MutationType_REMOVE_KEYS && mut.Keys == keys

// reads and leases delegate to the in-memory store with the caller's arguments and return its answer
//@ func (d *DiskKV) Get(ctx context.Context, key []byte) (value []byte, err error)
//@   opt frame=off
//@   opt puredyn=content
//@   requires d != nil && d.memKv != nil && memory.repOK(d.memKv)
//@   ghost r0 []byte = nil
//@   ghost r1 error = nil
//@   at call Get#1: assert same-arguments: callarg0 == d.memKv && callarg1 == ctx && callarg2 == key
//@   at after call Get#1: ghost r0 := callresult0
//@   at after call Get#1: ghost r1 := callresult1
//@   ensures local-returns-the-memory-stores-answer: value == r0 && err == r1

//@ func (d *DiskKV) PrefixContains(ctx context.Context, prefix []byte, child []byte) (ok bool, err error)
//@   opt frame=off
//@   opt puredyn=content
//@   requires d != nil && d.memKv != nil && memory.repOK(d.memKv)
//@   ghost r0 bool = false
//@   ghost r1 error = nil
//@   at call PrefixContains#1: assert same-arguments: callarg0 == d.memKv && callarg1 == ctx && callarg2 == prefix && callarg3 == child
//@   at after call PrefixContains#1: ghost r0 := callresult0
//@   at after call PrefixContains#1: ghost r1 := callresult1
//@   ensures local-returns-the-memory-stores-answer: ok == r0 && err == r1

//@ func (d *DiskKV) PrefixList(ctx context.Context, prefix []byte) (children [][]byte, err error)
//@   opt frame=off
//@   opt puredyn=content
//@   requires d != nil && d.memKv != nil && memory.repOK(d.memKv)
//@   ghost r0 [][]byte = nil
//@   ghost r1 error = nil
//@   at call PrefixList#1: assert same-arguments: callarg0 == d.memKv && callarg1 == ctx && callarg2 == prefix
//@   at after call PrefixList#1: ghost r0 := callresult0
//@   at after call PrefixList#1: ghost r1 := callresult1
//@   ensures local-returns-the-memory-stores-answer: children == r0 && err == r1

//@ func (d *DiskKV) ListKeys(ctx context.Context, prefix []byte) (r []*protocol.KeyComposite, err error)
//@   opt frame=off
//@   opt puredyn=content
//@   requires d != nil && d.memKv != nil && memory.repOK(d.memKv)
//@   ghost r0 []*protocol.KeyComposite = nil
//@   ghost r1 error = nil
//@   at call ListKeys#1: assert same-arguments: callarg0 == d.memKv && callarg1 == ctx && callarg2 == prefix
//@   at after call ListKeys#1: ghost r0 := callresult0
//@   at after call ListKeys#1: ghost r1 := callresult1
//@   ensures local-returns-the-memory-stores-answer: r == r0 && err == r1

//@ func (d *DiskKV) Export(ctx context.Context, keys [][]byte) (r []*protocol.KVTransfer, err error)
//@   opt frame=off
//@   opt puredyn=content
//@   requires d != nil && d.memKv != nil && memory.repOK(d.memKv)
//@   ghost r0 []*protocol.KVTransfer = nil
//@   ghost r1 error = nil
//@   at call Export#1: assert same-arguments: callarg0 == d.memKv && callarg1 == ctx && callarg2 == keys
//@   at after call Export#1: ghost r0 := callresult0
//@   at after call Export#1: ghost r1 := callresult1
//@   ensures local-returns-the-memory-stores-answer: r == r0 && err == r1

//@ func (d *DiskKV) RangeKeys(ctx context.Context, low, high uint64) (r [][]byte, err error)
//@   opt frame=off
//@   opt puredyn=content
//@   requires d != nil && d.memKv != nil && memory.repOK(d.memKv) && low < 281474976710656 && high < 281474976710656
//@   ghost r0 [][]byte = nil
//@   ghost r1 error = nil
//@   at call RangeKeys#1: assert same-arguments: callarg0 == d.memKv && callarg1 == ctx && callarg2 == low && callarg3 == high
//@   at after call RangeKeys#1: ghost r0 := callresult0
//@   at after call RangeKeys#1: ghost r1 := callresult1
//@   ensures local-returns-the-memory-stores-answer: r == r0 && err == r1

// ---- C20/C21/C22: the log. Index discipline: d.counter is the index of the next entry (last + 1).

//@ func (d *DiskKV) decodeEntry(entry *proto.LogEntry, mut *proto.Mutation) (err error)
//@   opt frame=off
//@   requires entry != nil && mut != nil
//@   ghost decoded bool = false
//@   at call UnmarshalVT#1: assert only-verified-uncompressed-data-is-decoded: entry.Checksum == crc64ecma(str(entry.Data)) && entry.Version == proto.LogVersion_V1 && callarg0 == mut && callarg1 == entry.Data
//@   at call UnmarshalVT#1: ghost decoded := true
//@   ensures checksum-mismatch-is-refused: entry.Checksum != crc64ecma(str(entry.Data)) ==> err != nil
//@   ensures unknown-version-is-refused: entry.Version != proto.LogVersion_V1 ==> err != nil
//@   ensures local-success-means-the-mutation-was-decoded: err == nil ==> decoded

//@ func (d *DiskKV) appendLog(mut *proto.Mutation) (err error)
//@   safety off
//@   opt frame=off
//@   requires d != nil && d.log != nil && d.counter < 9223372036854775807
//@   ghost sum uint64 = 0
//@   ghost body []byte = nil
//@   at after call Checksum#1: ghost sum := callresult
//@   at after call Checksum#1: ghost body := callarg0
//@   at call MarshalToSizedBufferVT#2: assert entry-carries-version-data-and-checksum: entry.Version == proto.LogVersion_V1 && entry.Data == mutBuf && entry.Checksum == sum && body == mutBuf
//@   at call Write#1: assert written-at-the-counter: callarg0 == d.log && callarg1 == d.counter && callarg2 == logBuf
//@   ensures appended-at-the-counter: err == nil ==> (d.counter == old(d.counter) + 1 && d.log.last == old(d.counter))
//@   ensures failure-changes-nothing: err != nil ==> (d.counter == old(d.counter) && d.log.last == old(d.log.last))
//@   ensures nothing-else-changes: d.log == old(d.log) && d.memKv == old(d.memKv)

//@ func (d *DiskKV) rollbackOne(mut *proto.Mutation, err error)
//@   safety off
//@   opt frame=off
//@   requires d != nil && d.log != nil && d.counter >= 2 && d.log.last == d.counter - 1
//@   ghost truncated bool = false
//@   at call TruncateBack#1: assert truncates-to-the-entry-before-the-last: callarg0 == d.log && callarg1 == old(d.counter) - 2
//@   at after call TruncateBack#1: ghost truncated := callresult == nil
//@   ensures counter-steps-back: d.counter == old(d.counter) - 1
//@   ensures local-the-last-entry-is-gone: truncated ==> d.log.last == d.counter - 1
//@   ensures last-entry-gone-unless-truncation-failed: d.log.last == d.counter - 1 || d.log.last == d.counter
//@   ensures nothing-else-changes: d.log == old(d.log) && d.memKv == old(d.memKv)

//@ func (d *DiskKV) replayLogs() (err error)
//@   opt frame=off
//@   opt puredyn=content
//@   requires d != nil && d.log != nil && d.memKv != nil && memory.repOK(d.memKv) && memory.empty == nil && d.log.last < 9223372036854775807
//@   ghost applied uint64 = 0
//@   ghost herr error = nil
//@   ghost buf0 []byte = nil
//@   at call Read#1: assert entries-are-read-in-index-order: callarg0 == d.log && callarg1 == applied + 1
//@   at after call Read#1: ghost buf0 := callresult0
//@   at call Read#1: ghost herr := nil
//@   at call UnmarshalVT#1: assert entry-is-decoded-from-its-own-buffer-only: callarg0 == entry && callarg1 == buf0 && entry.Version == proto.LogVersion_UNKNOWN_VERSION && entry.Data == nil && entry.Checksum == 0
//@   at call decodeEntry#1: assert every-entry-is-verified-into-a-clean-mutation: callarg1 == entry && callarg2 == mut && mut.Type == proto.MutationType_UNKNOWN_TYPE && mut.Key == nil && mut.Value == nil && mut.Keys == nil && mut.Values == nil
//@   at call handleMutation#1: assume logged-imports-were-well-formed-when-issued: mut.Type == proto.MutationType_IMPORT ==> (len(mut.Keys) == len(mut.Values) && (forall i int {mut.Values[i]} :: (0 <= i && i < len(mut.Values)) ==> mut.Values[i] != nil) && (forall i int, j int {mut.Keys[i], mut.Keys[j]} :: (0 <= i && i < j && j < len(mut.Keys)) ==> str(mut.Keys[i]) != str(mut.Keys[j])))
//@   at call handleMutation#1: assert applies-the-decoded-mutation: callarg1 == mut
//@   at after call handleMutation#1: ghost herr := callresult
//@   at after call handleMutation#1: ghost applied := applied + 1
//@   ensures local-success-applies-every-entry-in-order-and-sets-the-counter: err == nil ==> (applied == old(d.log.last) && d.counter == old(d.log.last) + 1)
//@   ensures local-a-logged-mutation-the-store-had-rejected-does-not-fail-recovery: err != nil ==> herr != chord.ErrKVPrefixConflict
//@   loop buf: invariant idx: 1 <= i && i <= index + 1 && applied == i - 1 && index == old(d.log.last) && d.log.last == old(d.log.last) && (herr == nil || herr == chord.ErrKVPrefixConflict)
//@   loop buf: invariant clean-messages: entry != nil && mut != nil && entry.Version == proto.LogVersion_UNKNOWN_VERSION && entry.Data == nil && entry.Checksum == 0 && mut.Type == proto.MutationType_UNKNOWN_TYPE && mut.Key == nil && mut.Value == nil && mut.Keys == nil && mut.Values == nil
//@   loop buf: invariant store: memory.repOK(d.memKv) && memory.empty == nil && d.memKv == old(d.memKv) && d.log == old(d.log)

// The single writer: a mutation is logged before it is applied, rolled back only if it was logged and then
// rejected, and the requester is answered with the outcome. (Crash points: after appendLog the mutation is
// in the log although handleMutation may still reject it; replayLogs carries the matching obligation.)
//@ func (d *DiskKV) Start()
//@   safety off
//@   opt frame=off
//@   opt puredyn=content
//@   requires d != nil && d.log != nil && d.memKv != nil && memory.repOK(d.memKv) && memory.empty == nil
//@   requires counter-is-the-next-index: d.counter == d.log.last + 1 && d.counter < 4611686018427387904 && 0 <= d.log.last && d.log.last < 4611686018427387904
//@   at call appendLog#1: assume requests-carry-a-mutation: m != nil && m.mut != nil
//@   at call handleMutation#1: assume requests-are-well-formed: (m.mut.Type == proto.MutationType_IMPORT ==> (len(m.mut.Keys) == len(m.mut.Values) && (forall i int {m.mut.Values[i]} :: (0 <= i && i < len(m.mut.Values)) ==> m.mut.Values[i] != nil) && (forall i int, j int {m.mut.Keys[i], m.mut.Keys[j]} :: (0 <= i && i < j && j < len(m.mut.Keys)) ==> str(m.mut.Keys[i]) != str(m.mut.Keys[j]))))
//@   at call appendLog#1: assume counter-does-not-overflow: d.counter < 4611686018427387904
//@   loop mutError: invariant store: d.log != nil && d.memKv != nil && memory.repOK(d.memKv) && memory.empty == nil && d.log == old(d.log) && d.memKv == old(d.memKv)
//@   loop mutError: invariant counter-is-the-next-index-unless-a-truncation-failed: d.counter >= 1 && (d.counter == d.log.last + 1 || d.counter == d.log.last)
//@   ghost logged bool = false
//@   ghost applied bool = false
//@   ghost aerr error = nil
//@   ghost rolled bool = false
//@   at call appendLog#1: assert logs-the-received-mutation: callarg1 == m.mut
//@   at call appendLog#1: ghost applied := false
//@   at call appendLog#1: ghost rolled := false
//@   at after call appendLog#1: ghost logged := callresult == nil
//@   at call handleMutation#1: assert logged-before-applied: logged && !applied && callarg1 == m.mut
//@   at after call handleMutation#1: ghost applied := true
//@   at after call handleMutation#1: ghost aerr := callresult
//@   at call rollbackOne#1: assert rollback-only-for-a-logged-and-rejected-mutation: logged && applied && aerr != nil && !rolled && callarg1 == m.mut
//@   at call rollbackOne#1: ghost rolled := true
//@   at send#1: assert requester-gets-the-outcome: callarg0 == m.err && (logged ==> (applied && callarg1 == aerr && (aerr != nil ==> rolled))) && (!logged ==> (!applied && callarg1 == fs.ErrInvalid))

// an Import is one request, hence one log entry: a crash cannot leave a partial import behind
//@ func (d *DiskKV) Import(ctx context.Context, keys [][]byte, values []*protocol.KVTransfer) (err error)
//@   safety off
//@   opt frame=off
//@   requires d != nil
//@   ghost nreq int = 0
//@   ghost rerr error = nil
//@   at call mutationHandler#1: ghost nreq := nreq + 1
//@   at after call mutationHandler#1: ghost rerr := callresult
//@   ensures local-one-request-whose-answer-is-returned: nreq == 1 && err == rerr
