//go:build verif

// Contracts for package aof (kv/aof), checked by /verif/bin/specv.
// This file contains no executable code; only the //@ lines are read.
package aof

// ---- C16/C17: the append-only-log store applies every mutation to its in-memory store through one
// dispatch table; reads delegate to the in-memory store (whose contracts are in kv/memory).

//@ func (d *DiskKV) handleMutation(mut *proto.Mutation) (err error)
//@   opt frame=off
//@   opt puredyn=content
//@   requires receiver: d != nil && d.memKv != nil && mut != nil
//@   requires store-well-formed: memory.repOK(d.memKv)
//@   requires the-shared-empty-value-is-nil: memory.empty == nil
//@   requires import-is-well-formed: mut.Type == proto.MutationType_IMPORT ==> (len(mut.Keys) == len(mut.Values) && (forall i int {mut.Values[i]} :: (0 <= i && i < len(mut.Values)) ==> mut.Values[i] != nil) && (forall i int, j int {mut.Keys[i], mut.Keys[j]} :: (0 <= i && i < j && j < len(mut.Keys)) ==> str(mut.Keys[i]) != str(mut.Keys[j])))
//@   ghost op int = 0
//@   ghost n int = 0
//@   ghost res error = nil
//@   at call Put#1: assert put-gets-key-and-value: callarg0 == d.memKv && callarg2 == mut.Key && callarg3 == mut.Value
//@   at call Put#1: ghost op := 1
//@   at call Put#1: ghost n := n + 1
//@   at after call Put#1: ghost res := callresult
//@   at call Delete#1: assert delete-gets-key: callarg0 == d.memKv && callarg2 == mut.Key
//@   at call Delete#1: ghost op := 2
//@   at call Delete#1: ghost n := n + 1
//@   at after call Delete#1: ghost res := callresult
//@   at call PrefixAppend#1: assert append-gets-prefix-and-child: callarg0 == d.memKv && callarg2 == mut.Key && callarg3 == mut.Value
//@   at call PrefixAppend#1: ghost op := 3
//@   at call PrefixAppend#1: ghost n := n + 1
//@   at after call PrefixAppend#1: ghost res := callresult
//@   at call PrefixRemove#1: assert remove-gets-prefix-and-child: callarg0 == d.memKv && callarg2 == mut.Key && callarg3 == mut.Value
//@   at call PrefixRemove#1: ghost op := 4
//@   at call PrefixRemove#1: ghost n := n + 1
//@   at after call PrefixRemove#1: ghost res := callresult
//@   at call Import#1: assert import-gets-keys-and-values: callarg0 == d.memKv && callarg2 == mut.Keys && callarg3 == mut.Values
//@   at call Import#1: ghost op := 5
//@   at call Import#1: ghost n := n + 1
//@   at after call Import#1: ghost res := callresult
//@   at call RemoveKeys#1: assert removekeys-gets-keys: callarg0 == d.memKv && callarg2 == mut.Keys
//@   at call RemoveKeys#1: ghost op := 6
//@   at call RemoveKeys#1: ghost n := n + 1
//@   at after call RemoveKeys#1: ghost res := callresult
//@   ensures local-put-applies-put: mut.Type == proto.MutationType_SIMPLE_PUT ==> (op == 1 && n == 1)
//@   ensures local-delete-applies-delete: mut.Type == proto.MutationType_SIMPLE_DELETE ==> (op == 2 && n == 1)
//@   ensures local-append-applies-append: mut.Type == proto.MutationType_PREFIX_APPEND ==> (op == 3 && n == 1)
//@   ensures local-remove-applies-remove: mut.Type == proto.MutationType_PREFIX_REMOVE ==> (op == 4 && n == 1)
//@   ensures local-import-applies-import: mut.Type == proto.MutationType_IMPORT ==> (op == 5 && n == 1)
//@   ensures local-removekeys-applies-removekeys: mut.Type == proto.MutationType_REMOVE_KEYS ==> (op == 6 && n == 1)
//@   ensures local-unknown-type-applies-nothing: (mut.Type != proto.MutationType_SIMPLE_PUT && mut.Type != proto.MutationType_SIMPLE_DELETE && mut.Type != proto.MutationType_PREFIX_APPEND && mut.Type != proto.MutationType_PREFIX_REMOVE && mut.Type != proto.MutationType_IMPORT && mut.Type != proto.MutationType_REMOVE_KEYS) ==> (n == 0 && err == nil)
//@   ensures local-result-is-the-operations-result: n == 1 ==> err == res
//@   ensures store-stays-well-formed: memory.repOK(d.memKv)

// The request handed to the single writer goroutine is the pooled request whose mutation the caller's
// closure has just filled in; the caller gets the writer's answer. (The queue hand-off itself -- that the
// writer calls appendLog/handleMutation on what it receives -- is the Start loop, see C20.)
//@ func (d *DiskKV) mutationHandler(fn func(mut *proto.Mutation)) (err error)
//@   safety off
//@   opt frame=off
//@   requires d != nil
//@   ghost filled *proto.Mutation = nil
//@   ghost nfill int = 0
//@   ghost sent *mutationReq = nil
//@   ghost nsent int = 0
//@   ghost answer error = nil
//@   at call dyn#1: assert fills-before-queueing: nsent == 0
//@   at call dyn#1: ghost filled := callarg0
//@   at call dyn#1: ghost nfill := nfill + 1
//@   at send#1: assert queued-request-carries-the-filled-mutation: nfill == 1 && callarg1.mut == filled && callarg0 == d.queue
//@   at send#1: ghost sent := callarg1
//@   at send#1: ghost nsent := nsent + 1
//@   at after recv#1: ghost answer := callresult
//@   ensures local-refused-only-when-closed-and-then-nothing-is-queued: nsent == 0 ==> (err == fs.ErrClosed && nfill == 0)
//@   ensures local-queued-once-and-answer-returned: nsent != 0 ==> (nsent == 1 && nfill == 1 && err == answer)

//@ func (d *DiskKV) Put$1(mut *proto.Mutation)
//@   requires mut != nil
//@   modifies mut.Type, mut.Key, mut.Value
//@   ensures put-request: mut.Type == proto.MutationType_SIMPLE_PUT && mut.Key == key && mut.Value == value

//@ func (d *DiskKV) Delete$1(mut *proto.Mutation)
//@   requires mut != nil
//@   modifies mut.Type, mut.Key
//@   ensures delete-request: mut.Type == proto.MutationType_SIMPLE_DELETE && mut.Key == key

//@ func (d *DiskKV) PrefixAppend$1(mut *proto.Mutation)
//@   requires mut != nil
//@   modifies mut.Type, mut.Key, mut.Value
//@   ensures append-request: mut.Type == proto.MutationType_PREFIX_APPEND && mut.Key == prefix && mut.Value == child

//@ func (d *DiskKV) PrefixRemove$1(mut *proto.Mutation)
//@   requires mut != nil
//@   modifies mut.Type, mut.Key, mut.Value
//@   ensures remove-request: mut.Type == proto.MutationType_PREFIX_REMOVE && mut.Key == prefix && mut.Value == child

//@ func (d *DiskKV) Import$1(mut *proto.Mutation)
//@   requires mut != nil
//@   modifies mut.Type, mut.Keys, mut.Values
//@   ensures import-request: mut.Type == proto.MutationType_IMPORT && mut.Keys == keys && mut.Values == values

//@ func (d *DiskKV) RemoveKeys$1(mut *proto.Mutation)
//@   requires mut != nil
//@   modifies mut.Type, mut.Keys
//@   ensures removekeys-request: mut.Type == proto.MutationType_REMOVE_KEYS && mut.Keys == keys

// reads and leases delegate to the in-memory store with the caller's arguments and return its answer
//@ func (d *DiskKV) Get(ctx context.Context, key []byte) (value []byte, err error)
//@   opt frame=off
//@   opt puredyn=content
//@   requires d != nil && d.memKv != nil && memory.repOK(d.memKv)
//@   ghost r0 []byte = nil
//@   ghost r1 error = nil
//@   at call Get#1: assert same-arguments: callarg0 == d.memKv && callarg1 == ctx && callarg2 == key
//@   at after call Get#1: ghost r0 := callresult0
//@   at after call Get#1: ghost r1 := callresult1
//@   ensures local-returns-the-memory-stores-answer: value == r0 && err == r1

//@ func (d *DiskKV) PrefixContains(ctx context.Context, prefix []byte, child []byte) (ok bool, err error)
//@   opt frame=off
//@   opt puredyn=content
//@   requires d != nil && d.memKv != nil && memory.repOK(d.memKv)
//@   ghost r0 bool = false
//@   ghost r1 error = nil
//@   at call PrefixContains#1: assert same-arguments: callarg0 == d.memKv && callarg1 == ctx && callarg2 == prefix && callarg3 == child
//@   at after call PrefixContains#1: ghost r0 := callresult0
//@   at after call PrefixContains#1: ghost r1 := callresult1
//@   ensures local-returns-the-memory-stores-answer: ok == r0 && err == r1

//@ func (d *DiskKV) PrefixList(ctx context.Context, prefix []byte) (children [][]byte, err error)
//@   opt frame=off
//@   opt puredyn=content
//@   requires d != nil && d.memKv != nil && memory.repOK(d.memKv)
//@   ghost r0 [][]byte = nil
//@   ghost r1 error = nil
//@   at call PrefixList#1: assert same-arguments: callarg0 == d.memKv && callarg1 == ctx && callarg2 == prefix
//@   at after call PrefixList#1: ghost r0 := callresult0
//@   at after call PrefixList#1: ghost r1 := callresult1
//@   ensures local-returns-the-memory-stores-answer: children == r0 && err == r1

//@ func (d *DiskKV) ListKeys(ctx context.Context, prefix []byte) (r []*protocol.KeyComposite, err error)
//@   opt frame=off
//@   opt puredyn=content
//@   requires d != nil && d.memKv != nil && memory.repOK(d.memKv)
//@   ghost r0 []*protocol.KeyComposite = nil
//@   ghost r1 error = nil
//@   at call ListKeys#1: assert same-arguments: callarg0 == d.memKv && callarg1 == ctx && callarg2 == prefix
//@   at after call ListKeys#1: ghost r0 := callresult0
//@   at after call ListKeys#1: ghost r1 := callresult1
//@   ensures local-returns-the-memory-stores-answer: r == r0 && err == r1

//@ func (d *DiskKV) Export(ctx context.Context, keys [][]byte) (r []*protocol.KVTransfer, err error)
//@   opt frame=off
//@   opt puredyn=content
//@   requires d != nil && d.memKv != nil && memory.repOK(d.memKv)
//@   ghost r0 []*protocol.KVTransfer = nil
//@   ghost r1 error = nil
//@   at call Export#1: assert same-arguments: callarg0 == d.memKv && callarg1 == ctx && callarg2 == keys
//@   at after call Export#1: ghost r0 := callresult0
//@   at after call Export#1: ghost r1 := callresult1
//@   ensures local-returns-the-memory-stores-answer: r == r0 && err == r1

//@ func (d *DiskKV) RangeKeys(ctx context.Context, low, high uint64) (r [][]byte, err error)
//@   opt frame=off
//@   opt puredyn=content
//@   requires d != nil && d.memKv != nil && memory.repOK(d.memKv) && low < 281474976710656 && high < 281474976710656
//@   ghost r0 [][]byte = nil
//@   ghost r1 error = nil
//@   at call RangeKeys#1: assert same-arguments: callarg0 == d.memKv && callarg1 == ctx && callarg2 == low && callarg3 == high
//@   at after call RangeKeys#1: ghost r0 := callresult0
//@   at after call RangeKeys#1: ghost r1 := callresult1
//@   ensures local-returns-the-memory-stores-answer: r == r0 && err == r1
