//go:build verif

// Contracts for package memory (kv/memory), checked by /verif/bin/specv.
// This file contains no executable code; only the //@ lines are read.
package memory

//@ spec second() int64 = 1000000000
//@ spec anyWord(o uint64, n uint64) bool = true

// fetchVal returns the (lazily created) record of a key: never nil, and the same record for the same key.
//@ spec recordOf(m *MemoryKV, key string) *kvValue
//@ func (m *MemoryKV) fetchVal(key []byte) (v *kvValue, loaded bool)
//@   trusted
//@   ensures v != nil && v == recordOf(m, str(key))

// ---- C19: leases

//@ func durationGuard(t time.Duration) (td time.Duration, ok bool)
//@   ensures whole-seconds: ok ==> (td == t - t % 1000000000 && td >= 1000000000)
//@   ensures at-least-a-second: ok == (t - t % 1000000000 >= 1000000000)
//@   ensures refused-is-zero: !ok ==> td == 0

//@ func (m *MemoryKV) Acquire(ctx context.Context, lease []byte, ttl time.Duration) (token uint64, err error)
//@   opt frame=off
//@   opt rg=anyWord
//@   safety nil,bounds
//@   ghost now int64 = 0
//@   at after call Now#1: ghost now := callresult.UnixNano()
//@   at after call Now#1: assume clock-after-1970-and-ttl-does-not-overflow: callresult.UnixNano() >= 0 && callresult.UnixNano() + ttl < 9223372036854775807
//@   requires ttl >= 0
//@   ensures short-ttl-refused: (ttl - ttl % 1000000000 < 1000000000) ==> (err == chord.ErrKVLeaseInvalidTTL && token == 0)
//@   ensures local-granted-only-when-free-or-expired: err == nil ==> (cas_seen == load_seen && (cas_seen == 0 || cas_seen <= uint64(now)))
//@   ensures local-grant-installs-the-new-token: err == nil ==> (recordOf(m, str(lease)).lease.v == token && token == uint64(now + (ttl - ttl % 1000000000)) && token > uint64(now))
//@   ensures local-refusal-leaves-the-lease: (err != nil && ttl - ttl % 1000000000 >= 1000000000 && load_seen > uint64(now)) ==> err == chord.ErrKVLeaseConflict
//@   ensures errors-are-the-documented-ones: err == nil || err == chord.ErrKVLeaseInvalidTTL || err == chord.ErrKVLeaseConflict
//@   ensures refusal-returns-no-token: err != nil ==> token == 0

//@ func (m *MemoryKV) Renew(ctx context.Context, lease []byte, ttl time.Duration, prevToken uint64) (newToken uint64, err error)
//@   opt frame=off
//@   opt rg=anyWord
//@   safety nil,bounds
//@   ghost now1 int64 = 0
//@   ghost now2 int64 = 0
//@   at after call Now#1: ghost now1 := callresult.UnixNano()
//@   at after call Now#1: assume clock-after-1970: callresult.UnixNano() >= 0
//@   at after call Now#2: ghost now2 := callresult.UnixNano()
//@   at after call Now#2: assume monotonic-clock-and-no-overflow: callresult.UnixNano() >= now1 && callresult.UnixNano() + ttl < 9223372036854775807
//@   requires ttl >= 0
//@   ensures short-ttl-refused: (ttl - ttl % 1000000000 < 1000000000) ==> (err == chord.ErrKVLeaseInvalidTTL && newToken == 0)
//@   ensures local-renewed-only-with-the-current-unexpired-token: err == nil ==> (cas_seen == prevToken && prevToken != 0 && uint64(now1) <= prevToken)
//@   ensures local-renewal-installs-the-new-token: err == nil ==> (recordOf(m, str(lease)).lease.v == newToken && newToken == uint64(now2 + (ttl - ttl % 1000000000)) && newToken > uint64(now2))
//@   ensures errors-are-the-documented-ones: err == nil || err == chord.ErrKVLeaseInvalidTTL || err == chord.ErrKVLeaseExpired
//@   ensures refusal-returns-no-token: err != nil ==> newToken == 0

//@ func (m *MemoryKV) Release(ctx context.Context, lease []byte, token uint64) (err error)
//@   opt frame=off
//@   opt rg=anyWord
//@   safety nil,bounds
//@   ensures local-released-only-with-the-current-token: err == nil ==> (cas_seen == token && recordOf(m, str(lease)).lease.v == 0)
//@   ensures local-wrong-token-changes-nothing: err != nil ==> (cas_seen != token && recordOf(m, str(lease)).lease.v == cas_seen && err == chord.ErrKVLeaseExpired)
