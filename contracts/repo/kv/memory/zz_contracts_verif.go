//go:build verif

// Contracts for package memory (kv/memory), checked by /verif/bin/specv.
// This file contains no executable code; only the //@ lines are read.
package memory

//@ spec second() int64 = 1000000000
//@ spec anyWord(o uint64, n uint64) bool = true

// ---- representation: hash -> (key -> record); a record holds the simple value (pointer to a
// byte slice, nil slice = absent), the lease token (0 = none) and the set of prefix children.
//@ macro hashOf(m *MemoryKV, k string) uint64 = dyncall(m.hashFn, k, "uint64")
//@ macro stored(m *MemoryKV, k string) bool = m.s.keys[hashOf(m, k)] && m.s.m[hashOf(m, k)] != nil && m.s.m[hashOf(m, k)].keys[k]
//@ macro rec(m *MemoryKV, k string) *kvValue = m.s.m[hashOf(m, k)].m[k]
//@ macro inKeys(m *MemoryKV, k string) bool = m.s.m[hashOf(m, k)].keys[k]
//@ macro outKeys(m *MemoryKV, k string) bool = m.s.keys[hashOf(m, k)]
//@ macro recOK(v *kvValue) bool = v != nil && allocated(v) && v.children != nil && allocated(v.children) && v.simple.v != nil && allocated(v.simple.v)
//@ macro repCore(m *MemoryKV) bool = m.s != nil && (forall h uint64 {m.s.m[h]} :: m.s.keys[h] ==> (m.s.m[h] != nil && allocated(m.s.m[h]) && h < 281474976710656))
//@      && (forall h uint64, k string {m.s.m[h].m[k]} :: (m.s.keys[h] && m.s.m[h].keys[k]) ==> (recOK(m.s.m[h].m[k]) && hashOf(m, k) == h))
// no two hashes share an inner map and no two keys share a record (needed only where the store is updated)
//@ macro repInj(m *MemoryKV) bool = (forall h1, h2 uint64 {m.s.m[h1], m.s.m[h2]} :: (m.s.keys[h1] && m.s.keys[h2] && m.s.m[h1] == m.s.m[h2]) ==> h1 == h2)
//@      && (forall h1, h2 uint64, k1, k2 string {m.s.m[h1].m[k1], m.s.m[h2].m[k2]} :: (m.s.keys[h1] && m.s.m[h1].keys[k1] && m.s.keys[h2] && m.s.m[h2].keys[k2] && m.s.m[h1].m[k1] == m.s.m[h2].m[k2]) ==> k1 == k2)
//@      && (forall h1, h2 uint64, k1, k2 string {m.s.m[h1].m[k1].children, m.s.m[h2].m[k2].children} :: (m.s.keys[h1] && m.s.m[h1].keys[k1] && m.s.keys[h2] && m.s.m[h2].keys[k2] && m.s.m[h1].m[k1].children == m.s.m[h2].m[k2].children) ==> m.s.m[h1].m[k1] == m.s.m[h2].m[k2])
//@ macro repOK(m *MemoryKV) bool = repCore(m) && repInj(m)

//@ func newValueFunc() (v *kvValue)
//@   ensures fresh-empty-record: v != nil && fresh(v) && v.children != nil && fresh(v.children) && v.simple.v != nil && fresh(v.simple.v) && deref(v.simple.v, "[]byte") == nil && v.lease.v == 0
//@   ensures no-children: forall c string :: !v.children.keys[c]
//@   ensures allocated-parts: allocated(v) && allocated(v.children) && allocated(v.simple.v)

//@ func newInnerMapFunc() (r *skipmap.StringMap[*kvValue])
//@   ensures r != nil && fresh(r) && allocated(r) && (forall k string :: !r.keys[k])

//@ func (m *MemoryKV) fetchVal(key []byte) (v *kvValue, loaded bool)
//@   opt puredyn=content
//@   use ids48hash
//@   modifies m.s.keys, m.s.m, m.s.m[hashOf(m, str(key))].keys, m.s.m[hashOf(m, str(key))].m
//@   requires rep: repCore(m)
//@   requires inj: repInj(m)
//@   ensures representation-kept: repCore(m)
//@   ensures injectivity-kept: repInj(m)
//@   ensures record-of-the-key: stored(m, str(key)) && v == rec(m, str(key)) && recOK(v)
//@   ensures existing-record-is-returned: old(stored(m, str(key))) ==> v == old(rec(m, str(key)))
//@   ensures new-record-is-empty: !old(stored(m, str(key))) ==> (fresh(v) && fresh(v.children) && fresh(v.simple.v) && deref(v.simple.v, "[]byte") == nil && v.lease.v == 0 && (forall c string :: !v.children.keys[c]))
//@   ensures other-keys-untouched: forall k string {rec(m, k)} {inKeys(m, k)} {outKeys(m, k)} :: (k != str(key) && old(stored(m, k))) ==> (stored(m, k) && rec(m, k) == old(rec(m, k)))
//@   ensures no-key-appears-except-this-one: forall k string {rec(m, k)} {inKeys(m, k)} {outKeys(m, k)} :: (k != str(key) && stored(m, k)) ==> old(stored(m, k))
//@   ensures existing-records-untouched: forall r *kvValue {r.lease.v} {r.simple.v} {r.children} :: !fresh(r) ==> (r.simple.v == old(r.simple.v) && r.lease.v == old(r.lease.v) && r.children == old(r.children))
//@   ensures existing-values-untouched: forall q *[]byte {deref(q)} :: !fresh(q) ==> deref(q) == old(deref(q))
//@   ensures existing-children-untouched: forall c *skipset.StringSet {c.keys} :: !fresh(c) ==> c.keys == old(c.keys)

// ---- C19: leases

//@ func durationGuard(t time.Duration) (td time.Duration, ok bool)
//@   ensures whole-seconds: ok ==> (td == t - t % 1000000000 && td >= 1000000000)
//@   ensures at-least-a-second: ok == (t - t % 1000000000 >= 1000000000)
//@   ensures refused-is-zero: !ok ==> td == 0

//@ func (m *MemoryKV) Acquire(ctx context.Context, lease []byte, ttl time.Duration) (token uint64, err error)
//@   opt frame=off
//@   opt puredyn=content
//@   requires repOK(m)
//@   opt rg=anyWord
//@   safety nil,bounds
//@   ghost now int64 = 0
//@   at after call Now#1: ghost now := callresult.UnixNano()
//@   at after call Now#1: assume clock-after-1970-and-ttl-does-not-overflow: callresult.UnixNano() >= 0 && callresult.UnixNano() + ttl < 9223372036854775807
//@   requires ttl >= 0
//@   ensures short-ttl-refused: (ttl - ttl % 1000000000 < 1000000000) ==> (err == chord.ErrKVLeaseInvalidTTL && token == 0)
//@   ensures local-granted-only-when-free-or-expired: err == nil ==> (cas_seen == load_seen && (cas_seen == 0 || cas_seen <= uint64(now)))
//@   ensures local-grant-installs-the-new-token: err == nil ==> (rec(m, str(lease)).lease.v == token && token == uint64(now + (ttl - ttl % 1000000000)) && token > uint64(now))
//@   ensures local-refusal-leaves-the-lease: (err != nil && ttl - ttl % 1000000000 >= 1000000000 && load_seen > uint64(now)) ==> err == chord.ErrKVLeaseConflict
//@   ensures errors-are-the-documented-ones: err == nil || err == chord.ErrKVLeaseInvalidTTL || err == chord.ErrKVLeaseConflict
//@   ensures refusal-returns-no-token: err != nil ==> token == 0

//@ func (m *MemoryKV) Renew(ctx context.Context, lease []byte, ttl time.Duration, prevToken uint64) (newToken uint64, err error)
//@   opt frame=off
//@   opt puredyn=content
//@   requires repOK(m)
//@   opt rg=anyWord
//@   safety nil,bounds
//@   ghost now1 int64 = 0
//@   ghost now2 int64 = 0
//@   at after call Now#1: ghost now1 := callresult.UnixNano()
//@   at after call Now#1: assume clock-after-1970: callresult.UnixNano() >= 0
//@   at after call Now#2: ghost now2 := callresult.UnixNano()
//@   at after call Now#2: assume monotonic-clock-and-no-overflow: callresult.UnixNano() >= now1 && callresult.UnixNano() + ttl < 9223372036854775807
//@   requires ttl >= 0
//@   ensures short-ttl-refused: (ttl - ttl % 1000000000 < 1000000000) ==> (err == chord.ErrKVLeaseInvalidTTL && newToken == 0)
//@   ensures local-renewed-only-with-the-current-unexpired-token: err == nil ==> (cas_seen == prevToken && prevToken != 0 && uint64(now1) <= prevToken)
//@   ensures local-renewal-installs-the-new-token: err == nil ==> (rec(m, str(lease)).lease.v == newToken && newToken == uint64(now2 + (ttl - ttl % 1000000000)) && newToken > uint64(now2))
//@   ensures errors-are-the-documented-ones: err == nil || err == chord.ErrKVLeaseInvalidTTL || err == chord.ErrKVLeaseExpired
//@   ensures refusal-returns-no-token: err != nil ==> newToken == 0

//@ func (m *MemoryKV) Release(ctx context.Context, lease []byte, token uint64) (err error)
//@   opt frame=off
//@   opt puredyn=content
//@   requires repOK(m)
//@   opt rg=anyWord
//@   safety nil,bounds
//@   ensures local-released-only-with-the-current-token: err == nil ==> (cas_seen == token && rec(m, str(lease)).lease.v == 0)
//@   ensures local-wrong-token-changes-nothing: err != nil ==> (cas_seen != token && rec(m, str(lease)).lease.v == cas_seen && err == chord.ErrKVLeaseExpired)

// ---- C16: abstract view of a key: simple value, lease token, prefix children
//@ macro simpleOf(m *MemoryKV, k string) []byte = deref(rec(m, k).simple.v, "[]byte")
//@ macro leaseOf(m *MemoryKV, k string) uint64 = rec(m, k).lease.v
//@ macro hasChild(m *MemoryKV, k string, c string) bool = rec(m, k).children.keys[c]
// every other stored key keeps its record, and no record that existed changes at all except the named one
//@ macro otherKeysKept(m *MemoryKV, key string) bool = (forall k string {rec(m, k)} {inKeys(m, k)} {outKeys(m, k)} :: (k != key && old(stored(m, k))) ==> (stored(m, k) && rec(m, k) == old(rec(m, k))))
//@ macro onlyRecordTouched(v *kvValue) bool = (forall r *kvValue {r.lease.v} {r.simple.v} {r.children} :: (!fresh(r) && r != v) ==> (r.simple.v == old(r.simple.v) && r.lease.v == old(r.lease.v) && r.children == old(r.children)))
//@      && (forall c *skipset.StringSet {c.keys} :: (!fresh(c) && c != v.children) ==> c.keys == old(c.keys))
//@      && (forall q *[]byte {deref(q)} :: !fresh(q) ==> deref(q) == old(deref(q)))

//@ func (m *MemoryKV) Put(ctx context.Context, key, value []byte) (err error)
//@   ensures the-shared-empty-value-is-untouched: empty == old(empty)
//@   opt puredyn=content
//@   opt frame=off
//@   requires repOK(m)
//@   ensures representation-kept: repOK(m)
//@   ensures sequentially-never-conflicts: err == nil
//@   ensures value-stored: stored(m, str(key)) && simpleOf(m, str(key)) == value
//@   ensures prefix-and-lease-of-the-key-untouched: old(stored(m, str(key))) ==> (leaseOf(m, str(key)) == old(leaseOf(m, str(key))) && rec(m, str(key)).children == old(rec(m, str(key)).children) && rec(m, str(key)).children.keys == old(rec(m, str(key)).children.keys))
//@   ensures other-keys-unchanged: otherKeysKept(m, str(key)) && onlyRecordTouched(rec(m, str(key)))

//@ func (m *MemoryKV) Get(ctx context.Context, key []byte) (r []byte, err error)
//@   opt puredyn=content
//@   opt frame=off
//@   requires repOK(m)
//@   ensures representation-kept: repOK(m)
//@   ensures returns-the-stored-value: err == nil && r == simpleOf(m, str(key))
//@   ensures absent-key-reads-nil: !old(stored(m, str(key))) ==> r == nil
//@   ensures reads-do-not-change-values: old(stored(m, str(key))) ==> r == old(simpleOf(m, str(key)))
//@   ensures nothing-changes: otherKeysKept(m, str(key)) && onlyRecordTouched(nil)

//@ func (m *MemoryKV) Delete(ctx context.Context, key []byte) (err error)
//@   ensures the-shared-empty-value-is-untouched: empty == old(empty)
//@   opt puredyn=content
//@   opt frame=off
//@   requires repOK(m)
//@   requires the-shared-empty-value-is-nil: empty == nil
//@   ensures representation-kept: repOK(m)
//@   ensures sequentially-never-conflicts: err == nil
//@   ensures value-removed: simpleOf(m, str(key)) == nil
//@   ensures prefix-and-lease-of-the-key-untouched: old(stored(m, str(key))) ==> (leaseOf(m, str(key)) == old(leaseOf(m, str(key))) && rec(m, str(key)).children == old(rec(m, str(key)).children) && rec(m, str(key)).children.keys == old(rec(m, str(key)).children.keys))
//@   ensures other-keys-unchanged: otherKeysKept(m, str(key)) && onlyRecordTouched(rec(m, str(key)))

//@ func (m *MemoryKV) PrefixAppend(ctx context.Context, prefix []byte, child []byte) (err error)
//@   ensures the-shared-empty-value-is-untouched: empty == old(empty)
//@   opt puredyn=content
//@   opt frame=off
//@   requires repOK(m)
//@   ensures representation-kept: repOK(m)
//@   ensures duplicate-child-is-a-conflict: (old(stored(m, str(prefix))) && old(hasChild(m, str(prefix), str(child)))) == (err == chord.ErrKVPrefixConflict)
//@   ensures errors-are-the-documented-ones: err == nil || err == chord.ErrKVPrefixConflict
//@   ensures child-present-afterwards: hasChild(m, str(prefix), str(child))
//@   ensures other-children-unchanged: forall c string :: c != str(child) ==> (hasChild(m, str(prefix), c) == (old(stored(m, str(prefix))) && old(hasChild(m, str(prefix), c))))
//@   ensures simple-and-lease-of-the-key-untouched: old(stored(m, str(prefix))) ==> (leaseOf(m, str(prefix)) == old(leaseOf(m, str(prefix))) && simpleOf(m, str(prefix)) == old(simpleOf(m, str(prefix))))
//@   ensures other-keys-unchanged: otherKeysKept(m, str(prefix))

//@ func (m *MemoryKV) PrefixContains(ctx context.Context, prefix []byte, child []byte) (r bool, err error)
//@   opt puredyn=content
//@   opt frame=off
//@   requires repOK(m)
//@   ensures representation-kept: repOK(m)
//@   ensures membership: err == nil && r == (old(stored(m, str(prefix))) && old(hasChild(m, str(prefix), str(child))))
//@   ensures nothing-changes: otherKeysKept(m, str(prefix)) && onlyRecordTouched(nil)

//@ func (m *MemoryKV) PrefixRemove(ctx context.Context, prefix []byte, needle []byte) (err error)
//@   ensures the-shared-empty-value-is-untouched: empty == old(empty)
//@   opt puredyn=content
//@   opt frame=off
//@   requires repOK(m)
//@   ensures representation-kept: repOK(m)
//@   ensures idempotent-never-fails: err == nil
//@   ensures child-absent-afterwards: !hasChild(m, str(prefix), str(needle))
//@   ensures other-children-unchanged: forall c string :: c != str(needle) ==> (hasChild(m, str(prefix), c) == (old(stored(m, str(prefix))) && old(hasChild(m, str(prefix), c))))
//@   ensures simple-and-lease-of-the-key-untouched: old(stored(m, str(prefix))) ==> (leaseOf(m, str(prefix)) == old(leaseOf(m, str(prefix))) && simpleOf(m, str(prefix)) == old(simpleOf(m, str(prefix))))
//@   ensures other-keys-unchanged: otherKeysKept(m, str(prefix))

// ---- C17: transfer primitives

//@ macro emptyRec(v *kvValue) bool = deref(v.simple.v, "[]byte") == nil && card(v.children.keys) == 0 && v.lease.v == 0

//@ func (v *kvValue) isDeleted() (r bool)
//@   requires recOK(v)
//@   ensures deleted-means-nothing-stored: r == emptyRec(v)

//@ func (m *MemoryKV) deleteAll(key []byte)
//@   opt puredyn=content
//@   modifies m.s.m[hashOf(m, str(key))].keys
//@   requires repOK(m)
//@   ensures representation-kept: repOK(m)
//@   ensures key-gone: !stored(m, str(key))
//@   ensures other-keys-kept: otherKeysKept(m, str(key)) && onlyRecordTouched(nil)
//@   ensures nothing-appears: forall k string {rec(m, k)} {inKeys(m, k)} {outKeys(m, k)} :: stored(m, k) ==> old(stored(m, k))

//@ func (m *MemoryKV) RemoveKeys(ctx context.Context, keys [][]byte) (err error)
//@   ensures the-shared-empty-value-is-untouched: empty == old(empty)
//@   opt puredyn=content
//@   opt frame=off
//@   requires repOK(m)
//@   ensures representation-kept: repOK(m)
//@   ensures never-fails: err == nil
//@   ensures listed-keys-gone: forall i int :: 0 <= i && i < len(keys) ==> !stored(m, str(keys[i]))
//@   ensures unlisted-keys-kept: forall k string {rec(m, k)} {inKeys(m, k)} {outKeys(m, k)} :: (old(stored(m, k)) && (forall i int :: 0 <= i && i < len(keys) ==> str(keys[i]) != k)) ==> (stored(m, k) && rec(m, k) == old(rec(m, k)))
//@   ensures nothing-appears: forall k string {rec(m, k)} {inKeys(m, k)} {outKeys(m, k)} :: stored(m, k) ==> old(stored(m, k))
//@   ensures record-contents-untouched: onlyRecordTouched(nil)
//@   loop key: invariant idx: -1 <= rangeindex && rangeindex < len(keys) && repOK(m) && unchanged(keys)
//@   loop key: invariant gone: forall i int :: 0 <= i && i <= rangeindex ==> !stored(m, str(keys[i]))
//@   loop key: invariant kept: forall k string {rec(m, k)} {inKeys(m, k)} {outKeys(m, k)} :: (old(stored(m, k)) && (forall i int :: 0 <= i && i <= rangeindex ==> str(keys[i]) != k)) ==> (stored(m, k) && rec(m, k) == old(rec(m, k)))
//@   loop key: invariant nothing-appears: forall k string {rec(m, k)} {inKeys(m, k)} {outKeys(m, k)} :: stored(m, k) ==> old(stored(m, k))
//@   loop key: invariant contents: onlyRecordTouched(nil)

// RangeKeys: exactly the stored, non-empty keys whose hash lies in (low, high] (everything when low == high)
//@ macro inRange(m *MemoryKV, k string, low uint64, high uint64) bool = stored(m, k) && !emptyRec(rec(m, k)) && chord.between48(low, hashOf(m, k), high, true)

//@ func (m *MemoryKV) RangeKeys$1$1(key string, v *kvValue) (cont bool)
//@   opt frame=off
//@   opt strings=abstract
//@   requires recOK(v) && 0 <= len(keys)
//@   ensures always-continues: cont
//@   ensures empty-record-is-skipped: emptyRec(v) ==> keys == old(keys)
//@   ensures appends-one-entry: !emptyRec(v) ==> (len(keys) == old(len(keys)) + 1 && fresh(keys[old(len(keys))]) && allocated(keys[old(len(keys))]) && str(keys[old(len(keys))]) == key)
//@   ensures new-entries-name-this-key: forall a int {keys[a]} :: (old(len(keys)) <= a && a < len(keys)) ==> (!emptyRec(v) && fresh(keys[a]) && allocated(keys[a]) && str(keys[a]) == key)
//@   ensures earlier-entries-kept: len(keys) >= old(len(keys)) && (forall a int {keys[a]} :: 0 <= a && a < old(len(keys)) ==> keys[a] == old(keys[a]))
//@   ensures backing-kept-or-fresh: sameBacking(keys, old(keys)) || fresh(keys)
//@   ensures existing-bytes-untouched: keptArrays("byte")

//@ func (m *MemoryKV) RangeKeys(ctx context.Context, low, high uint64) (r [][]byte, err error)
//@   opt strings=abstract
//@   opt puredyn=content
//@   opt frame=off
//@   opt opaque=between48,dist48
//@   use ids48hash
//@   requires repCore(m) && low < 281474976710656 && high < 281474976710656
//@   ensures never-fails: err == nil
//@   ensures only-keys-in-range: forall a int {r[a]} :: 0 <= a && a < len(r) ==> inRange(m, str(r[a]), low, high)
//@   at step $1/call Range#1: assert hint-entry-is-stored-under-this-hash: hashOf(m, rangeKey) == id && stored(m, rangeKey) && rec(m, rangeKey) == rangeVal
//@   at step $1/call Range#1: assert hint-entry-hash-is-in-range: chord.between48(low, hashOf(m, rangeKey), high, true)
//@   loop call Range#1: invariant own: fresh(keys) && 0 <= len(keys) && (forall a int {keys[a]} :: 0 <= a && a < len(keys) ==> allocated(keys[a]))
//@   loop call Range#1: invariant sound: forall a int {keys[a]} :: 0 <= a && a < len(keys) ==> inRange(m, str(keys[a]), low, high)
//@   loop $1/call Range#1: invariant own: fresh(keys) && 0 <= len(keys) && (forall a int {keys[a]} :: 0 <= a && a < len(keys) ==> allocated(keys[a])) && m.s.keys[id] && kMap == m.s.m[id] && chord.between48(low, id, high, true)
//@   loop $1/call Range#1: invariant sound: forall a int {keys[a]} :: 0 <= a && a < len(keys) ==> inRange(m, str(keys[a]), low, high)

// second contract of RangeKeys: completeness (every key in range is listed), with a ghost position witness
//@ func (m *MemoryKV) RangeKeys@complete(ctx context.Context, low, high uint64) (r [][]byte, err error)
//@   opt strings=abstract
//@   opt puredyn=content
//@   opt frame=off
//@   opt opaque=between48,dist48
//@   use ids48hash
//@   requires repCore(m) && low < 281474976710656 && high < 281474976710656
//@   ghost pos gmap[string]int
//@   at step $1/call Range#1: ghost pos[rangeKey] := old(len(keys))
//@   ensures every-key-in-range-is-listed: forall k string {pos[k]} :: inRange(m, k, low, high) ==> (0 <= pos[k] && pos[k] < len(r) && str(r[pos[k]]) == k)
//@   loop call Range#1: invariant own: fresh(keys) && 0 <= len(keys) && (forall a int {keys[a]} :: 0 <= a && a < len(keys) ==> allocated(keys[a]))
//@   loop call Range#1: invariant complete: forall k string {pos[k]} :: (inRange(m, k, low, high) && visited[hashOf(m, k)]) ==> (0 <= pos[k] && pos[k] < len(keys) && str(keys[pos[k]]) == k)
//@   loop $1/call Range#1: invariant own: fresh(keys) && 0 <= len(keys) && (forall a int {keys[a]} :: 0 <= a && a < len(keys) ==> allocated(keys[a])) && m.s.keys[id] && kMap == m.s.m[id] && visitedOuter[id]
//@   loop $1/call Range#1: invariant complete: forall k string {pos[k]} :: (inRange(m, k, low, high) && visitedOuter[hashOf(m, k)] && (hashOf(m, k) == id ==> visited[k])) ==> (0 <= pos[k] && pos[k] < len(keys) && str(keys[pos[k]]) == k)

// ListKeys: one entry per kind of data present under each stored key with the prefix.
// The per-record callback is summarized by its own contract; the two iterations are proved against it.
//@ macro nSimple(v *kvValue) int = (len(deref(v.simple.v, "[]byte")) > 0 ? 1 : 0)
//@ macro nPrefix(v *kvValue) int = (card(v.children.keys) > 0 ? 1 : 0)
//@ macro nLease(v *kvValue) int = (v.lease.v != 0 ? 1 : 0)

//@ func (m *MemoryKV) ListKeys$1$1(key string, v *kvValue) (cont bool)
//@   opt frame=off
//@   opt strings=abstract
//@   requires recOK(v) && 0 <= len(keys)
//@   ensures always-continues: cont
//@   ensures other-prefix-adds-nothing: !hasPrefix(key, str(prefix)) ==> keys == old(keys)
//@   ensures earlier-entries-kept: len(keys) >= old(len(keys)) && (forall a int {keys[a]} :: 0 <= a && a < old(len(keys)) ==> keys[a] == old(keys[a]))
//@   ensures one-entry-per-kind-present: hasPrefix(key, str(prefix)) ==> len(keys) == old(len(keys)) + nSimple(v) + nPrefix(v) + nLease(v)
//@   ensures new-entries-name-this-key: forall a int {keys[a]} :: (old(len(keys)) <= a && a < len(keys)) ==> (hasPrefix(key, str(prefix)) && keys[a] != nil && fresh(keys[a]) && allocated(keys[a]) && fresh(keys[a].Key) && allocated(keys[a].Key) && str(keys[a].Key) == key)
//@   ensures simple-entry-first: (hasPrefix(key, str(prefix)) && nSimple(v) == 1) ==> keys[old(len(keys))].Type == protocol.KeyComposite_SIMPLE
//@   ensures prefix-entry-next: (hasPrefix(key, str(prefix)) && nPrefix(v) == 1) ==> keys[old(len(keys)) + nSimple(v)].Type == protocol.KeyComposite_PREFIX
//@   ensures lease-entry-last: (hasPrefix(key, str(prefix)) && nLease(v) == 1) ==> keys[old(len(keys)) + nSimple(v) + nPrefix(v)].Type == protocol.KeyComposite_LEASE
//@   ensures only-kinds-that-are-present: forall a int {keys[a]} :: (old(len(keys)) <= a && a < len(keys)) ==> ((keys[a].Type == protocol.KeyComposite_SIMPLE && nSimple(v) == 1) || (keys[a].Type == protocol.KeyComposite_PREFIX && nPrefix(v) == 1) || (keys[a].Type == protocol.KeyComposite_LEASE && nLease(v) == 1))
//@   ensures backing-kept-or-fresh: sameBacking(keys, old(keys)) || fresh(keys)
//@   ensures existing-entries-untouched: (forall e *protocol.KeyComposite {e.Type} :: !fresh(e) ==> e.Type == old(e.Type)) && (forall e *protocol.KeyComposite {e.Key} :: !fresh(e) ==> e.Key == old(e.Key)) && keptArrays("byte")
//@   ensures store-untouched: prefix == old(prefix)

//@ macro listed(m *MemoryKV, e *protocol.KeyComposite, prefix string) bool = e != nil && stored(m, str(e.Key)) && hasPrefix(str(e.Key), prefix)
//@      && (e.Type == protocol.KeyComposite_SIMPLE ==> len(simpleOf(m, str(e.Key))) > 0)
//@      && (e.Type == protocol.KeyComposite_PREFIX ==> card(rec(m, str(e.Key)).children.keys) > 0)
//@      && (e.Type == protocol.KeyComposite_LEASE ==> leaseOf(m, str(e.Key)) != 0)
//@      && (e.Type == protocol.KeyComposite_SIMPLE || e.Type == protocol.KeyComposite_PREFIX || e.Type == protocol.KeyComposite_LEASE)

//@ func (m *MemoryKV) ListKeys(ctx context.Context, prefix []byte) (r []*protocol.KeyComposite, err error)
//@   opt strings=abstract
//@   opt puredyn=content
//@   opt frame=off
//@   requires repCore(m)
//@   ensures never-fails: err == nil
//@   ensures only-present-data-is-listed: forall a int {r[a]} :: 0 <= a && a < len(r) ==> listed(m, r[a], str(prefix))
//@   at step $1/call Range#1: assert hint-entry-is-stored-under-this-hash: hashOf(m, rangeKey) == rangeKeyOuter && stored(m, rangeKey) && rec(m, rangeKey) == rangeVal
//@   loop call Range#1: invariant own: fresh(keys) && 0 <= len(keys) && (forall a int {keys[a]} :: 0 <= a && a < len(keys) ==> (allocated(keys[a]) && allocated(keys[a].Key)))
//@   loop call Range#1: invariant sound: forall a int {keys[a]} :: 0 <= a && a < len(keys) ==> listed(m, keys[a], str(prefix))
//@   loop $1/call Range#1: invariant own: fresh(keys) && 0 <= len(keys) && m.s.keys[rangeKeyOuter] && kMap == m.s.m[rangeKeyOuter] && (forall a int {keys[a]} :: 0 <= a && a < len(keys) ==> (allocated(keys[a]) && allocated(keys[a].Key)))
//@   loop $1/call Range#1: invariant sound: forall a int {keys[a]} :: 0 <= a && a < len(keys) ==> listed(m, keys[a], str(prefix))

// second contract: every kind of data present under a stored key with the prefix is listed
//@ func (m *MemoryKV) ListKeys@complete(ctx context.Context, prefix []byte) (r []*protocol.KeyComposite, err error)
//@   opt strings=abstract
//@   opt puredyn=content
//@   opt frame=off
//@   requires repCore(m)
//@   ghost posS gmap[string]int
//@   ghost posP gmap[string]int
//@   ghost posL gmap[string]int
//@   at step $1/call Range#1: assert hint-entry-is-stored-under-this-hash: hashOf(m, rangeKey) == rangeKeyOuter && stored(m, rangeKey) && rec(m, rangeKey) == rangeVal
//@   at step $1/call Range#1: ghost posS[rangeKey] := old(len(keys))
//@   at step $1/call Range#1: ghost posP[rangeKey] := old(len(keys)) + nSimple(rec(m, rangeKey))
//@   at step $1/call Range#1: ghost posL[rangeKey] := old(len(keys)) + nSimple(rec(m, rangeKey)) + nPrefix(rec(m, rangeKey))
//@   ensures simple-values-are-listed: forall k string {posS[k]} :: (stored(m, k) && hasPrefix(k, str(prefix)) && len(simpleOf(m, k)) > 0) ==> (0 <= posS[k] && posS[k] < len(r) && r[posS[k]].Type == protocol.KeyComposite_SIMPLE && str(r[posS[k]].Key) == k)
//@   ensures prefixes-are-listed: forall k string {posP[k]} :: (stored(m, k) && hasPrefix(k, str(prefix)) && card(rec(m, k).children.keys) > 0) ==> (0 <= posP[k] && posP[k] < len(r) && r[posP[k]].Type == protocol.KeyComposite_PREFIX && str(r[posP[k]].Key) == k)
//@   ensures leases-are-listed: forall k string {posL[k]} :: (stored(m, k) && hasPrefix(k, str(prefix)) && leaseOf(m, k) != 0) ==> (0 <= posL[k] && posL[k] < len(r) && r[posL[k]].Type == protocol.KeyComposite_LEASE && str(r[posL[k]].Key) == k)
//@   loop call Range#1: invariant own: fresh(keys) && 0 <= len(keys) && (forall a int {keys[a]} :: 0 <= a && a < len(keys) ==> (allocated(keys[a]) && keys[a] != nil && allocated(keys[a].Key)))
//@   loop call Range#1: invariant simple: forall k string {posS[k]} :: (stored(m, k) && visited[hashOf(m, k)] && hasPrefix(k, str(prefix)) && len(simpleOf(m, k)) > 0) ==> (0 <= posS[k] && posS[k] < len(keys) && keys[posS[k]].Type == protocol.KeyComposite_SIMPLE && str(keys[posS[k]].Key) == k)
//@   loop call Range#1: invariant prefix: forall k string {posP[k]} :: (stored(m, k) && visited[hashOf(m, k)] && hasPrefix(k, str(prefix)) && card(rec(m, k).children.keys) > 0) ==> (0 <= posP[k] && posP[k] < len(keys) && keys[posP[k]].Type == protocol.KeyComposite_PREFIX && str(keys[posP[k]].Key) == k)
//@   loop call Range#1: invariant lease: forall k string {posL[k]} :: (stored(m, k) && visited[hashOf(m, k)] && hasPrefix(k, str(prefix)) && leaseOf(m, k) != 0) ==> (0 <= posL[k] && posL[k] < len(keys) && keys[posL[k]].Type == protocol.KeyComposite_LEASE && str(keys[posL[k]].Key) == k)
//@   loop $1/call Range#1: invariant own: fresh(keys) && 0 <= len(keys) && m.s.keys[rangeKeyOuter] && kMap == m.s.m[rangeKeyOuter] && visitedOuter[rangeKeyOuter] && (forall a int {keys[a]} :: 0 <= a && a < len(keys) ==> (allocated(keys[a]) && keys[a] != nil && allocated(keys[a].Key)))
//@   loop $1/call Range#1: invariant simple: forall k string {posS[k]} :: (stored(m, k) && visitedOuter[hashOf(m, k)] && (hashOf(m, k) == rangeKeyOuter ==> visited[k]) && hasPrefix(k, str(prefix)) && len(simpleOf(m, k)) > 0) ==> (0 <= posS[k] && posS[k] < len(keys) && keys[posS[k]].Type == protocol.KeyComposite_SIMPLE && str(keys[posS[k]].Key) == k)
//@   loop $1/call Range#1: invariant prefix: forall k string {posP[k]} :: (stored(m, k) && visitedOuter[hashOf(m, k)] && (hashOf(m, k) == rangeKeyOuter ==> visited[k]) && hasPrefix(k, str(prefix)) && card(rec(m, k).children.keys) > 0) ==> (0 <= posP[k] && posP[k] < len(keys) && keys[posP[k]].Type == protocol.KeyComposite_PREFIX && str(keys[posP[k]].Key) == k)
//@   loop $1/call Range#1: invariant lease: forall k string {posL[k]} :: (stored(m, k) && visitedOuter[hashOf(m, k)] && (hashOf(m, k) == rangeKeyOuter ==> visited[k]) && hasPrefix(k, str(prefix)) && leaseOf(m, k) != 0) ==> (0 <= posL[k] && posL[k] < len(keys) && keys[posL[k]].Type == protocol.KeyComposite_LEASE && str(keys[posL[k]].Key) == k)

// PrefixList: exactly the children of the prefix, each once (the per-child callback has its own contract)
//@ func (m *MemoryKV) PrefixList$1(value string) (cont bool)
//@   opt frame=off
//@   opt strings=abstract
//@   requires 0 <= len(children)
//@   ensures always-continues: cont
//@   ensures appends-one-entry: len(children) == old(len(children)) + 1 && (forall a int {children[a]} :: 0 <= a && a < old(len(children)) ==> children[a] == old(children[a]))
//@   ensures the-entry-is-this-child: fresh(children[old(len(children))]) && allocated(children[old(len(children))]) && str(children[old(len(children))]) == value
//@   ensures backing-kept-or-fresh: sameBacking(children, old(children)) || fresh(children)
//@   ensures existing-bytes-untouched: keptArrays("byte")
//@   ensures other-lists-untouched: keptArraysExcept("[]byte", children)

//@ func (m *MemoryKV) PrefixList(ctx context.Context, prefix []byte) (r [][]byte, err error)
//@   opt puredyn=content
//@   opt strings=abstract
//@   opt frame=off
//@   requires rep: repCore(m)
//@   requires inj: repInj(m)
//@   ensures never-fails: err == nil
//@   ensures representation-kept: repCore(m)
//@   ensures injectivity-kept: repInj(m)
//@   ensures the-prefix-has-a-record: stored(m, str(prefix)) && (old(stored(m, str(prefix))) ==> rec(m, str(prefix)) == old(rec(m, str(prefix))))
//@   ensures other-keys-unchanged: otherKeysKept(m, str(prefix))
//@   ensures no-key-appears-except-the-prefix: forall k string {rec(m, k)} {inKeys(m, k)} {outKeys(m, k)} :: (k != str(prefix) && stored(m, k)) ==> old(stored(m, k))
//@   ensures record-contents-untouched: onlyRecordTouched(nil)
//@   ensures existing-lists-untouched: keptArrays("byte") && keptArrays("[]byte")
//@   loop call Range#1: invariant own: fresh(children) && 0 <= len(children)
//@   loop call Range#1: invariant lists-kept: keptArrays("byte") && keptArrays("[]byte")

// second contract of PrefixList: the listing itself (the injectivity part of the invariant is not needed for it)
//@ func (m *MemoryKV) PrefixList@listing(ctx context.Context, prefix []byte) (r [][]byte, err error)
//@   opt puredyn=content
//@   opt strings=abstract
//@   opt frame=off
//@   opt forget=inj,injectivity-kept
//@   requires rep: repCore(m)
//@   requires inj: repInj(m)
//@   ghost pos gmap[string]int
//@   at step call Range#1: ghost pos[rangeKey] := old(len(children))
//@   ensures result-is-fresh: fresh(r) && 0 <= len(r) && (forall a int {r[a]} :: 0 <= a && a < len(r) ==> (fresh(r[a]) && allocated(r[a])))
//@   ensures only-children-are-listed: forall a int {r[a]} :: 0 <= a && a < len(r) ==> hasChild(m, str(prefix), str(r[a]))
//@   ensures every-child-is-listed: forall c string {pos[c]} :: hasChild(m, str(prefix), c) ==> (0 <= pos[c] && pos[c] < len(r) && str(r[pos[c]]) == c)
//@   ensures absent-prefix-lists-nothing: !old(stored(m, str(prefix))) ==> len(r) == 0
//@   loop call Range#1: invariant own: fresh(children) && 0 <= len(children) && (forall a int {children[a]} :: 0 <= a && a < len(children) ==> (fresh(children[a]) && allocated(children[a])))
//@   loop call Range#1: invariant sound: forall a int {children[a]} :: 0 <= a && a < len(children) ==> (v.children.keys[str(children[a])] && visited[str(children[a])])
//@   loop call Range#1: invariant complete: forall c string {pos[c]} :: visited[c] ==> (0 <= pos[c] && pos[c] < len(children) && str(children[pos[c]]) == c)
//@   loop call Range#1: invariant empty-if-new: !old(stored(m, str(prefix))) ==> (forall c string :: !v.children.keys[c])

// Export: one transfer record per listed key, carrying that key's simple value, lease token and exactly its
// children. (fetchVal creates an empty record for a key that was never stored: the abstract view is unchanged.)
//@ func (m *MemoryKV) Export(ctx context.Context, keys [][]byte) (vals []*protocol.KVTransfer, err error)
//@   opt puredyn=content
//@   opt strings=abstract
//@   opt frame=off
//@   requires rep: repCore(m)
//@   requires inj: repInj(m)
//@   ghost posOf gmap[int]gmap[string]int
//@   at after call PrefixList#1: ghost posOf[rangeindex] := callghost_pos
//@   ensures never-fails: err == nil && len(vals) == len(keys)
//@   ensures representation-kept: repCore(m) && repInj(m)
//@   ensures simple-value-and-lease-exported: forall j int {vals[j]} :: (0 <= j && j < len(keys)) ==> (vals[j] != nil && stored(m, str(keys[j])) && vals[j].SimpleValue == simpleOf(m, str(keys[j])) && vals[j].LeaseToken == leaseOf(m, str(keys[j])))
//@   ensures only-children-exported: forall j int, a int {vals[j].PrefixChildren[a]} :: (0 <= j && j < len(keys) && 0 <= a && a < len(vals[j].PrefixChildren)) ==> hasChild(m, str(keys[j]), str(vals[j].PrefixChildren[a]))
//@   ensures every-child-exported: forall j int, c string {posOf[j][c]} :: (0 <= j && j < len(keys) && hasChild(m, str(keys[j]), c)) ==> (0 <= posOf[j][c] && posOf[j][c] < len(vals[j].PrefixChildren) && str(vals[j].PrefixChildren[posOf[j][c]]) == c)
//@   ensures record-contents-untouched: onlyRecordTouched(nil)
//@   ensures stored-keys-kept: forall k string {rec(m, k)} {inKeys(m, k)} {outKeys(m, k)} :: old(stored(m, k)) ==> (stored(m, k) && rec(m, k) == old(rec(m, k)))
//@   loop key: invariant idx: -1 <= rangeindex && rangeindex < len(keys) && len(vals) == len(keys) && fresh(vals) && unchanged(keys) && keptArrays("byte") && keptArrays("[]byte")
//@   loop key: invariant rep: repCore(m) && repInj(m)
//@   loop key: invariant kept: (forall k string {rec(m, k)} {inKeys(m, k)} {outKeys(m, k)} :: old(stored(m, k)) ==> (stored(m, k) && rec(m, k) == old(rec(m, k)))) && onlyRecordTouched(nil)
//@   loop key: invariant done: forall j int {vals[j]} :: (0 <= j && j <= rangeindex) ==> (vals[j] != nil && fresh(vals[j]) && allocated(vals[j]) && allocated(vals[j].PrefixChildren) && stored(m, str(keys[j])) && vals[j].SimpleValue == simpleOf(m, str(keys[j])) && vals[j].LeaseToken == leaseOf(m, str(keys[j])))
//@   loop key: invariant children-sound: forall j int, a int {vals[j].PrefixChildren[a]} :: (0 <= j && j <= rangeindex && 0 <= a && a < len(vals[j].PrefixChildren)) ==> hasChild(m, str(keys[j]), str(vals[j].PrefixChildren[a]))
//@   loop key: invariant children-complete: forall j int, c string {posOf[j][c]} :: (0 <= j && j <= rangeindex && hasChild(m, str(keys[j]), c)) ==> (0 <= posOf[j][c] && posOf[j][c] < len(vals[j].PrefixChildren) && str(vals[j].PrefixChildren[posOf[j][c]]) == c)

// Import: afterwards every listed key holds the transferred simple value and lease token, every transferred
// child, and no child beyond those it had before (none, for an empty store) and the transferred ones.
// The memory backend indexes values[i] unchecked, hence the length precondition (see DESIGN.md, C17).
//@ func (m *MemoryKV) Import(ctx context.Context, keys [][]byte, values []*protocol.KVTransfer) (err error)
//@   ensures the-shared-empty-value-is-untouched: empty == old(empty)
//@   opt puredyn=content
//@   opt inline=GetSimpleValue,GetLeaseToken,GetPrefixChildren
//@   opt strings=abstract
//@   opt frame=off
//@   requires rep: repCore(m)
//@   requires inj: repInj(m)
//@   requires one-value-per-key: len(keys) == len(values) && (forall i int {values[i]} :: (0 <= i && i < len(values)) ==> values[i] != nil)
//@   requires keys-pairwise-distinct: forall i int, j int {keys[i], keys[j]} :: (0 <= i && i < j && j < len(keys)) ==> str(keys[i]) != str(keys[j])
//@   ghost src gmap[int]gmap[string]int
//@   ghost pre set[string]
//@   ghost sets gmap[*skipset.StringSet]set[string]
//@   ghost src0 gmap[int]gmap[string]int
//@   at after call fetchVal#1: ghost src0 := src
//@   at after call fetchVal#1: ghost pre := callresult0.children.keys
//@   at after call fetchVal#1: ghost sets := absheap("skipset.StringSet", "keys")
//@   at call Add#1: ghost src[rangeindex] := upd(src[rangeindex], str(child), rangeindex#2)
//@   ensures never-fails: err == nil
//@   ensures representation-kept: repCore(m) && repInj(m)
//@   ensures simple-value-and-lease-imported: forall i int {keys[i]} :: (0 <= i && i < len(keys)) ==> (stored(m, str(keys[i])) && simpleOf(m, str(keys[i])) == values[i].SimpleValue && leaseOf(m, str(keys[i])) == values[i].LeaseToken)
//@   ensures every-transferred-child-present: forall i int, a int {values[i].PrefixChildren[a]} :: (0 <= i && i < len(keys) && 0 <= a && a < len(values[i].PrefixChildren)) ==> hasChild(m, str(keys[i]), str(values[i].PrefixChildren[a]))
//@   ensures no-other-child-appears: forall i int, c string {src[i][c]} :: (0 <= i && i < len(keys) && hasChild(m, str(keys[i]), c) && !(old(stored(m, str(keys[i]))) && old(hasChild(m, str(keys[i]), c)))) ==> (0 <= src[i][c] && src[i][c] < len(values[i].PrefixChildren) && str(values[i].PrefixChildren[src[i][c]]) == c)
//@   ensures unlisted-keys-kept: forall k string {rec(m, k)} {inKeys(m, k)} {outKeys(m, k)} :: (old(stored(m, k)) && (forall i int :: (0 <= i && i < len(keys)) ==> str(keys[i]) != k)) ==> (stored(m, k) && rec(m, k) == old(rec(m, k)) && simpleOf(m, k) == old(simpleOf(m, k)) && leaseOf(m, k) == old(leaseOf(m, k)) && rec(m, k).children == old(rec(m, k).children) && rec(m, k).children.keys == old(rec(m, k).children.keys))
//@   loop key: invariant idx: -1 <= rangeindex && rangeindex < len(keys) && unchanged(keys) && unchanged(values) && keptArrays("byte") && keptArrays("[]byte") && empty == old(empty)
//@   loop key: invariant rep: repCore(m) && repInj(m)
//@   loop key: invariant done: forall i int {keys[i]} :: (0 <= i && i <= rangeindex) ==> (stored(m, str(keys[i])) && simpleOf(m, str(keys[i])) == values[i].SimpleValue && leaseOf(m, str(keys[i])) == values[i].LeaseToken)
//@   loop key: invariant children-in: forall i int, a int {values[i].PrefixChildren[a]} :: (0 <= i && i <= rangeindex && 0 <= a && a < len(values[i].PrefixChildren)) ==> hasChild(m, str(keys[i]), str(values[i].PrefixChildren[a]))
//@   loop key: invariant children-only: forall i int, c string {src[i][c]} :: (0 <= i && i <= rangeindex && hasChild(m, str(keys[i]), c) && !(old(stored(m, str(keys[i]))) && old(hasChild(m, str(keys[i]), c)))) ==> (0 <= src[i][c] && src[i][c] < len(values[i].PrefixChildren) && str(values[i].PrefixChildren[src[i][c]]) == c)
//@   loop key: invariant pending-keys-untouched: forall k string {rec(m, k)} {inKeys(m, k)} {outKeys(m, k)} :: (forall i int :: (0 <= i && i <= rangeindex) ==> str(keys[i]) != k) ==> ((old(stored(m, k)) ==> (stored(m, k) && rec(m, k) == old(rec(m, k)) && simpleOf(m, k) == old(simpleOf(m, k)) && leaseOf(m, k) == old(leaseOf(m, k)) && rec(m, k).children == old(rec(m, k).children) && rec(m, k).children.keys == old(rec(m, k).children.keys))) && (stored(m, k) ==> old(stored(m, k))))
//@   loop child: invariant shared-empty: empty == old(empty)
//@   loop child: invariant cidx: -1 <= rangeindex#2 && rangeindex#2 < len(values[rangeindex].PrefixChildren) && recOK(v) && v == rec(m, str(key)) && stored(m, str(key)) && 0 <= rangeindex && rangeindex < len(keys) && key == keys[rangeindex]
//@   loop child: invariant only: forall c string {src[rangeindex][c]} {v.children.keys[c]} :: (v.children.keys[c] && !pre[c]) ==> (0 <= src[rangeindex][c] && src[rangeindex][c] <= rangeindex#2 && str(values[rangeindex].PrefixChildren[src[rangeindex][c]]) == c)
//@   loop child: invariant other-sets-kept: forall s *skipset.StringSet {s.keys} :: s != v.children ==> s.keys == sets[s]
//@   loop child: invariant other-witnesses-kept: forall i int {src[i]} :: i != rangeindex ==> src[i] == src0[i]
//@   loop child: invariant added: forall a int {values[rangeindex].PrefixChildren[a]} :: (0 <= a && a <= rangeindex#2) ==> v.children.keys[str(values[rangeindex].PrefixChildren[a])]
