//go:build verif

// Contracts for package memory (kv/memory), checked by /verif/bin/specv.
// This file contains no executable code; only the //@ lines are read.
package memory

//@ spec second() int64 = 1000000000
//@ spec anyWord(o uint64, n uint64) bool = true

// ---- representation: hash -> (key -> record); a record holds the simple value (pointer to a
// byte slice, nil slice = absent), the lease token (0 = none) and the set of prefix children.
//@ macro hashOf(m *MemoryKV, k string) uint64 = dyncall(m.hashFn, k, "uint64")
//@ macro stored(m *MemoryKV, k string) bool = m.s.keys[hashOf(m, k)] && m.s.m[hashOf(m, k)] != nil && m.s.m[hashOf(m, k)].keys[k]
//@ macro rec(m *MemoryKV, k string) *kvValue = m.s.m[hashOf(m, k)].m[k]
//@ macro recOK(v *kvValue) bool = v != nil && allocated(v) && v.children != nil && allocated(v.children) && v.simple.v != nil
//@ macro repOK(m *MemoryKV) bool = m.s != nil && (forall h uint64 {m.s.m[h]} :: m.s.keys[h] ==> (m.s.m[h] != nil && allocated(m.s.m[h])))
//@      && (forall h uint64, k string {m.s.m[h].m[k]} :: (m.s.keys[h] && m.s.m[h].keys[k]) ==> (recOK(m.s.m[h].m[k]) && hashOf(m, k) == h))
//@      && (forall h1, h2 uint64 {m.s.m[h1], m.s.m[h2]} :: (m.s.keys[h1] && m.s.keys[h2] && m.s.m[h1] == m.s.m[h2]) ==> h1 == h2)
//@      && (forall h1, h2 uint64, k1, k2 string {m.s.m[h1].m[k1], m.s.m[h2].m[k2]} :: (m.s.keys[h1] && m.s.m[h1].keys[k1] && m.s.keys[h2] && m.s.m[h2].keys[k2] && m.s.m[h1].m[k1] == m.s.m[h2].m[k2]) ==> k1 == k2)

//@ func newValueFunc() (v *kvValue)
//@   ensures fresh-empty-record: v != nil && fresh(v) && v.children != nil && fresh(v.children) && v.simple.v != nil && fresh(v.simple.v) && deref(v.simple.v, "[]byte") == nil && v.lease.v == 0
//@   ensures no-children: forall c string :: !v.children.keys[c]
//@   ensures allocated-parts: allocated(v) && allocated(v.children)

//@ func newInnerMapFunc() (r *skipmap.StringMap[*kvValue])
//@   ensures r != nil && fresh(r) && allocated(r) && (forall k string :: !r.keys[k])

//@ func (m *MemoryKV) fetchVal(key []byte) (v *kvValue, loaded bool)
//@   opt puredyn=content
//@   opt frame=off
//@   requires repOK(m)
//@   ensures representation-kept: repOK(m)
//@   ensures record-of-the-key: stored(m, str(key)) && v == rec(m, str(key)) && recOK(v)
//@   ensures existing-record-is-returned: old(stored(m, str(key))) ==> v == old(rec(m, str(key)))
//@   ensures new-record-is-empty: !old(stored(m, str(key))) ==> (fresh(v) && fresh(v.children) && fresh(v.simple.v) && deref(v.simple.v, "[]byte") == nil && v.lease.v == 0 && (forall c string :: !v.children.keys[c]))
//@   ensures other-keys-untouched: forall k string {rec(m, k)} :: (k != str(key) && old(stored(m, k))) ==> (stored(m, k) && rec(m, k) == old(rec(m, k)))
//@   ensures no-key-appears-except-this-one: forall k string {rec(m, k)} :: (k != str(key) && stored(m, k)) ==> old(stored(m, k))
//@   ensures existing-records-untouched: forall r *kvValue {r.lease.v} :: !fresh(r) ==> (r.simple.v == old(r.simple.v) && r.lease.v == old(r.lease.v) && r.children == old(r.children))
//@   ensures existing-values-untouched: forall q *[]byte {deref(q)} :: !fresh(q) ==> deref(q) == old(deref(q))
//@   ensures existing-children-untouched: forall c *skipset.StringSet {c.keys} :: !fresh(c) ==> c.keys == old(c.keys)

// ---- C19: leases

//@ func durationGuard(t time.Duration) (td time.Duration, ok bool)
//@   ensures whole-seconds: ok ==> (td == t - t % 1000000000 && td >= 1000000000)
//@   ensures at-least-a-second: ok == (t - t % 1000000000 >= 1000000000)
//@   ensures refused-is-zero: !ok ==> td == 0

//@ func (m *MemoryKV) Acquire(ctx context.Context, lease []byte, ttl time.Duration) (token uint64, err error)
//@   opt frame=off
//@   opt puredyn=content
//@   requires repOK(m)
//@   opt rg=anyWord
//@   safety nil,bounds
//@   ghost now int64 = 0
//@   at after call Now#1: ghost now := callresult.UnixNano()
//@   at after call Now#1: assume clock-after-1970-and-ttl-does-not-overflow: callresult.UnixNano() >= 0 && callresult.UnixNano() + ttl < 9223372036854775807
//@   requires ttl >= 0
//@   ensures short-ttl-refused: (ttl - ttl % 1000000000 < 1000000000) ==> (err == chord.ErrKVLeaseInvalidTTL && token == 0)
//@   ensures local-granted-only-when-free-or-expired: err == nil ==> (cas_seen == load_seen && (cas_seen == 0 || cas_seen <= uint64(now)))
//@   ensures local-grant-installs-the-new-token: err == nil ==> (rec(m, str(lease)).lease.v == token && token == uint64(now + (ttl - ttl % 1000000000)) && token > uint64(now))
//@   ensures local-refusal-leaves-the-lease: (err != nil && ttl - ttl % 1000000000 >= 1000000000 && load_seen > uint64(now)) ==> err == chord.ErrKVLeaseConflict
//@   ensures errors-are-the-documented-ones: err == nil || err == chord.ErrKVLeaseInvalidTTL || err == chord.ErrKVLeaseConflict
//@   ensures refusal-returns-no-token: err != nil ==> token == 0

//@ func (m *MemoryKV) Renew(ctx context.Context, lease []byte, ttl time.Duration, prevToken uint64) (newToken uint64, err error)
//@   opt frame=off
//@   opt puredyn=content
//@   requires repOK(m)
//@   opt rg=anyWord
//@   safety nil,bounds
//@   ghost now1 int64 = 0
//@   ghost now2 int64 = 0
//@   at after call Now#1: ghost now1 := callresult.UnixNano()
//@   at after call Now#1: assume clock-after-1970: callresult.UnixNano() >= 0
//@   at after call Now#2: ghost now2 := callresult.UnixNano()
//@   at after call Now#2: assume monotonic-clock-and-no-overflow: callresult.UnixNano() >= now1 && callresult.UnixNano() + ttl < 9223372036854775807
//@   requires ttl >= 0
//@   ensures short-ttl-refused: (ttl - ttl % 1000000000 < 1000000000) ==> (err == chord.ErrKVLeaseInvalidTTL && newToken == 0)
//@   ensures local-renewed-only-with-the-current-unexpired-token: err == nil ==> (cas_seen == prevToken && prevToken != 0 && uint64(now1) <= prevToken)
//@   ensures local-renewal-installs-the-new-token: err == nil ==> (rec(m, str(lease)).lease.v == newToken && newToken == uint64(now2 + (ttl - ttl % 1000000000)) && newToken > uint64(now2))
//@   ensures errors-are-the-documented-ones: err == nil || err == chord.ErrKVLeaseInvalidTTL || err == chord.ErrKVLeaseExpired
//@   ensures refusal-returns-no-token: err != nil ==> newToken == 0

//@ func (m *MemoryKV) Release(ctx context.Context, lease []byte, token uint64) (err error)
//@   opt frame=off
//@   opt puredyn=content
//@   requires repOK(m)
//@   opt rg=anyWord
//@   safety nil,bounds
//@   ensures local-released-only-with-the-current-token: err == nil ==> (cas_seen == token && rec(m, str(lease)).lease.v == 0)
//@   ensures local-wrong-token-changes-nothing: err != nil ==> (cas_seen != token && rec(m, str(lease)).lease.v == cas_seen && err == chord.ErrKVLeaseExpired)

// ---- C16: abstract view of a key: simple value, lease token, prefix children
//@ macro simpleOf(m *MemoryKV, k string) []byte = deref(rec(m, k).simple.v, "[]byte")
//@ macro leaseOf(m *MemoryKV, k string) uint64 = rec(m, k).lease.v
//@ macro hasChild(m *MemoryKV, k string, c string) bool = rec(m, k).children.keys[c]
// every other stored key keeps its record, and no record that existed changes at all except the named one
//@ macro otherKeysKept(m *MemoryKV, key string) bool = (forall k string {rec(m, k)} :: (k != key && old(stored(m, k))) ==> (stored(m, k) && rec(m, k) == old(rec(m, k))))
//@ macro onlyRecordTouched(v *kvValue) bool = (forall r *kvValue {r.lease.v} :: (!fresh(r) && r != v) ==> (r.simple.v == old(r.simple.v) && r.lease.v == old(r.lease.v) && r.children == old(r.children)))
//@      && (forall c *skipset.StringSet {c.keys} :: (!fresh(c) && c != v.children) ==> c.keys == old(c.keys))
//@      && (forall q *[]byte {deref(q)} :: !fresh(q) ==> deref(q) == old(deref(q)))

//@ func (m *MemoryKV) Put(ctx context.Context, key, value []byte) (err error)
//@   opt puredyn=content
//@   opt frame=off
//@   requires repOK(m)
//@   ensures representation-kept: repOK(m)
//@   ensures sequentially-never-conflicts: err == nil
//@   ensures value-stored: stored(m, str(key)) && simpleOf(m, str(key)) == value
//@   ensures prefix-and-lease-of-the-key-untouched: old(stored(m, str(key))) ==> (leaseOf(m, str(key)) == old(leaseOf(m, str(key))) && rec(m, str(key)).children == old(rec(m, str(key)).children) && rec(m, str(key)).children.keys == old(rec(m, str(key)).children.keys))
//@   ensures other-keys-unchanged: otherKeysKept(m, str(key)) && onlyRecordTouched(rec(m, str(key)))

//@ func (m *MemoryKV) Get(ctx context.Context, key []byte) (r []byte, err error)
//@   opt puredyn=content
//@   opt frame=off
//@   requires repOK(m)
//@   ensures representation-kept: repOK(m)
//@   ensures returns-the-stored-value: err == nil && r == simpleOf(m, str(key))
//@   ensures absent-key-reads-nil: !old(stored(m, str(key))) ==> r == nil
//@   ensures reads-do-not-change-values: old(stored(m, str(key))) ==> r == old(simpleOf(m, str(key)))
//@   ensures nothing-changes: otherKeysKept(m, str(key)) && onlyRecordTouched(nil)

//@ func (m *MemoryKV) Delete(ctx context.Context, key []byte) (err error)
//@   opt puredyn=content
//@   opt frame=off
//@   requires repOK(m)
//@   requires the-shared-empty-value-is-nil: empty == nil
//@   ensures representation-kept: repOK(m)
//@   ensures sequentially-never-conflicts: err == nil
//@   ensures value-removed: simpleOf(m, str(key)) == nil
//@   ensures prefix-and-lease-of-the-key-untouched: old(stored(m, str(key))) ==> (leaseOf(m, str(key)) == old(leaseOf(m, str(key))) && rec(m, str(key)).children == old(rec(m, str(key)).children) && rec(m, str(key)).children.keys == old(rec(m, str(key)).children.keys))
//@   ensures other-keys-unchanged: otherKeysKept(m, str(key)) && onlyRecordTouched(rec(m, str(key)))

//@ func (m *MemoryKV) PrefixAppend(ctx context.Context, prefix []byte, child []byte) (err error)
//@   opt puredyn=content
//@   opt frame=off
//@   requires repOK(m)
//@   ensures representation-kept: repOK(m)
//@   ensures duplicate-child-is-a-conflict: (old(stored(m, str(prefix))) && old(hasChild(m, str(prefix), str(child)))) == (err == chord.ErrKVPrefixConflict)
//@   ensures errors-are-the-documented-ones: err == nil || err == chord.ErrKVPrefixConflict
//@   ensures child-present-afterwards: hasChild(m, str(prefix), str(child))
//@   ensures other-children-unchanged: forall c string :: c != str(child) ==> (hasChild(m, str(prefix), c) == (old(stored(m, str(prefix))) && old(hasChild(m, str(prefix), c))))
//@   ensures simple-and-lease-of-the-key-untouched: old(stored(m, str(prefix))) ==> (leaseOf(m, str(prefix)) == old(leaseOf(m, str(prefix))) && simpleOf(m, str(prefix)) == old(simpleOf(m, str(prefix))))
//@   ensures other-keys-unchanged: otherKeysKept(m, str(prefix))

//@ func (m *MemoryKV) PrefixContains(ctx context.Context, prefix []byte, child []byte) (r bool, err error)
//@   opt puredyn=content
//@   opt frame=off
//@   requires repOK(m)
//@   ensures representation-kept: repOK(m)
//@   ensures membership: err == nil && r == (old(stored(m, str(prefix))) && old(hasChild(m, str(prefix), str(child))))
//@   ensures nothing-changes: otherKeysKept(m, str(prefix)) && onlyRecordTouched(nil)

//@ func (m *MemoryKV) PrefixRemove(ctx context.Context, prefix []byte, needle []byte) (err error)
//@   opt puredyn=content
//@   opt frame=off
//@   requires repOK(m)
//@   ensures representation-kept: repOK(m)
//@   ensures idempotent-never-fails: err == nil
//@   ensures child-absent-afterwards: !hasChild(m, str(prefix), str(needle))
//@   ensures other-children-unchanged: forall c string :: c != str(needle) ==> (hasChild(m, str(prefix), c) == (old(stored(m, str(prefix))) && old(hasChild(m, str(prefix), c))))
//@   ensures simple-and-lease-of-the-key-untouched: old(stored(m, str(prefix))) ==> (leaseOf(m, str(prefix)) == old(leaseOf(m, str(prefix))) && simpleOf(m, str(prefix)) == old(simpleOf(m, str(prefix))))
//@   ensures other-keys-unchanged: otherKeysKept(m, str(prefix))
