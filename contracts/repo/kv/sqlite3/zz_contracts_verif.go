//go:build verif

// Contracts for package sqlite3 (kv/sqlite3), checked by /verif/bin/specv.
// This file contains no executable code; only the //@ lines are read.
package sqlite3

// ---- C24: schema inspection and migration decisions.
// Ghost view of a database file: which tables / indexes exist, its user_version, and how many
// mutating statements (PRAGMA user_version = .., DDL) have been issued against it.
//@ absfield database/sql.DB tables set[string]
//@ absfield database/sql.DB indexes set[string]
//@ absfield database/sql.DB userVersion int
//@ absfield database/sql.DB mutations int

// the SQL helpers are assumed to do what their statement text says
//@ func tableExists(db *sql.DB, name string) (r bool, err error)
//@   trusted
//@   ensures err == nil ==> r == db.tables[name]
//@ func indexExists(db *sql.DB, name string) (r bool, err error)
//@   trusted
//@   ensures err == nil ==> r == db.indexes[name]
//@ func getUserVersion(db *sql.DB) (v int, err error)
//@   trusted
//@   ensures err == nil ==> v == db.userVersion
//@ func setUserVersion(db *sql.DB, v int) (err error)
//@   trusted
//@   modifies db.userVersion, db.mutations
//@   ensures db.mutations == old(db.mutations) + 1
//@   ensures err == nil ==> db.userVersion == v
//@   ensures err != nil ==> db.userVersion == old(db.userVersion)
//@ func applyMigration(db *sql.DB, migration migration) (err error)
//@   trusted
//@   modifies db.userVersion, db.mutations, db.tables, db.indexes
//@   ensures db.mutations == old(db.mutations) + 1
//@   ensures err == nil ==> db.userVersion == migration.version
//@   ensures err != nil ==> (db.userVersion == old(db.userVersion) && db.tables == old(db.tables) && db.indexes == old(db.indexes))
//@   ensures nothing-dropped: forall n string :: (old(db.tables)[n] ==> db.tables[n]) && (old(db.indexes)[n] ==> db.indexes[n])

//@ macro allV1(db *sql.DB) bool = db.tables["key_trackers"] && db.tables["simple_entries"] && db.tables["prefix_entries"] && db.tables["lease_entries"] && db.indexes["idx_hash"]
//@ macro anyV1(db *sql.DB) bool = db.tables["key_trackers"] || db.tables["simple_entries"] || db.tables["prefix_entries"] || db.tables["lease_entries"] || db.indexes["idx_hash"]

//@ func schemaLooksLikeV1(db *sql.DB) (r bool, err error)
//@   requires db != nil
//@   loop tbl: unroll 4
//@   ensures exactly-the-full-v1-schema: err == nil ==> r == allV1(db)
//@   ensures read-only: db.mutations == old(db.mutations)

//@ func schemaHasAnyV1Objects(db *sql.DB) (r bool, err error)
//@   requires db != nil
//@   loop tbl: unroll 4
//@   ensures any-v1-object: err == nil ==> r == anyV1(db)
//@   ensures read-only: db.mutations == old(db.mutations)

//@ func validateMigrationSequence(migrations []migration) (err error)
//@   ensures consecutive-from-one: err == nil ==> (forall i int :: 0 <= i && i < len(migrations) ==> migrations[i].version == i + 1)
//@   loop migration: invariant idx: -1 <= rangeindex && rangeindex < len(migrations)
//@   loop migration: invariant so-far: forall i int :: 0 <= i && i <= rangeindex ==> migrations[i].version == i + 1

//@ func loadMigrations() (r []migration, err error)
//@   opt frame=off
//@   safety off
//@   ensures consecutive-from-one: err == nil ==> (forall i int :: 0 <= i && i < len(r) ==> r[i].version == i + 1)

//@ func migrate(db *sql.DB) (err error)
//@   requires db != nil
//@   opt frame=off
//@   ghost latest int = 0
//@   at call getUserVersion#1: ghost latest := latestVersion
//@   ensures success-reaches-the-latest-version: (err == nil && latest >= 1) ==> db.userVersion == latest
//@   ensures nothing-is-ever-dropped: forall n string :: (old(db.tables)[n] ==> db.tables[n]) && (old(db.indexes)[n] ==> db.indexes[n])
//@   ensures up-to-date-database-is-untouched: (old(db.userVersion) == latest) ==> (db.mutations == old(db.mutations))
//@   ensures newer-database-is-refused-untouched: (old(db.userVersion) > latest) ==> (err != nil && db.mutations == old(db.mutations))
//@   ensures partial-legacy-schema-is-refused-untouched: (old(db.userVersion) == 0 && latest > 0 && old(anyV1(db)) && !old(allV1(db))) ==> (err != nil && db.mutations == old(db.mutations))
//@   ensures legacy-schema-is-adopted-not-recreated: (old(db.userVersion) == 0 && latest == 1 && old(allV1(db)) && err == nil) ==> (db.mutations == old(db.mutations) + 1 && db.tables == old(db.tables) && db.indexes == old(db.indexes))
//@   loop migration: invariant idx: -1 <= rangeindex && rangeindex < len(migrations) && latest == (len(migrations) > 0 ? migrations[len(migrations) - 1].version : 0)
//@   loop migration: invariant sorted: forall i int :: 0 <= i && i < len(migrations) ==> migrations[i].version == i + 1
//@   loop migration: invariant version: db.userVersion == ((rangeindex >= 0 && migrations[rangeindex].version > uv) ? migrations[rangeindex].version : uv)
//@   loop migration: invariant kept: forall n string :: (old(db.tables)[n] ==> db.tables[n]) && (old(db.indexes)[n] ==> db.indexes[n])
//@   loop migration: invariant legacy: (old(db.userVersion) == 0 && old(allV1(db)) && uv == 1 && (rangeindex < 0 || migrations[rangeindex].version <= 1)) ==> (db.mutations == old(db.mutations) + 1 && db.tables == old(db.tables) && db.indexes == old(db.indexes))

// ---- C16: key tracker flag algebra. The tracker row of a key records which kinds of data the key holds
// (1 simple, 2 prefix, 4 lease); ListKeys/RangeKeys read only the tracker. The SQL statements are assumed
// to do what their text says; what is proved is which statement is issued with which flags.
//@ func (s *SqliteKV) updateKeyTracker(ctx context.Context, tx *sql.Tx, key []byte, addFlags, removeFlags uint8) (err error)
//@   arith bv
//@   safety off
//@   opt frame=off
//@   opt puredyn=content
//@   requires s != nil && tx != nil
//@   ghost lastStmt *sql.Stmt = nil
//@   ghost inserted bool = false
//@   ghost deleted bool = false
//@   ghost updated bool = false
//@   ghost execFlags uint8 = 0
//@   ghost found bool = false
//@   ghost dbFlags uint8 = 0
//@   ghost children int64 = 0
//@   ghost counted bool = false
//@   at after call StmtContext#*: ghost lastStmt := callarg2
//@   at after call Scan#1: ghost found := callresult == nil
//@   at after call Scan#1: ghost dbFlags := flags
//@   at after call Scan#2: ghost children := count
//@   at after call Scan#2: ghost counted := callresult == nil
//@   at call Exec#1: assert insert-statement-with-the-added-flags: lastStmt == s.stmts.trackerInsert && cast(callarg1[2], "uint8") == addFlags && !inserted && !deleted && !updated
//@   at call Exec#1: ghost inserted := true
//@   at call Exec#2: assert delete-statement: lastStmt == s.stmts.trackerDelete && !inserted && !deleted && !updated
//@   at call Exec#2: ghost deleted := true
//@   at call Exec#3: assert update-statement: lastStmt == s.stmts.trackerUpdate && !inserted && !deleted && !updated
//@   at call Exec#3: ghost execFlags := cast(callarg1[0], "uint8")
//@   at call Exec#3: ghost updated := true
//@   ensures local-untracked-key-without-new-data-stays-untracked: (err == nil && !found && addFlags == 0) ==> (!inserted && !deleted && !updated)
//@   ensures local-untracked-key-with-new-data-is-inserted: (err == nil && !found && addFlags != 0) ==> (inserted && !deleted && !updated)
//@   ensures local-prefix-flag-kept-while-children-remain: (err == nil && found && updated) ==> execFlags == ((dbFlags | addFlags) &^ ((removeFlags & 2 != 0 && children > 0) ? (removeFlags &^ 2) : removeFlags))
//@   ensures local-tracker-deleted-exactly-when-no-kind-remains: (err == nil && found) ==> (!inserted && (deleted != updated) && (deleted == (((dbFlags | addFlags) &^ ((removeFlags & 2 != 0 && children > 0) ? (removeFlags &^ 2) : removeFlags)) == 0)))
//@   ensures local-prefix-removal-counts-the-children-first: (err == nil && found && removeFlags & 2 != 0) ==> counted

// ---- C17: RangeKeys picks the statement by the shape of the range and binds [low, high, high]
// (the WHERE clauses themselves are proved equivalent to the circular interval by script sqlite_sql)
//@ func bindUint64AsInt64(v uint64) (r int64)
//@   arith bv
//@   ensures same-bits: r == int64(v)

//@ func (s *SqliteKV) RangeKeys(ctx context.Context, low uint64, high uint64) (r [][]byte, err error)
//@   arith bv
//@   safety off
//@   opt frame=off
//@   requires s != nil
//@   ghost queried bool = false
//@   at call QueryContext#1: assert no-wrap-statement-when-low-below-high: high > low ==> callarg0 == s.stmts.rangeKeysNorm
//@   at call QueryContext#1: assert wrap-statement-otherwise: high <= low ==> callarg0 == s.stmts.rangeKeysWrap
//@   at call QueryContext#1: assert binds-low-high-high: len(callarg2) == 3 && cast(callarg2[0], "int64") == int64(low) && cast(callarg2[1], "int64") == int64(high) && cast(callarg2[2], "int64") == int64(high)
//@   at call QueryContext#1: ghost queried := true
//@   ensures local-success-means-the-range-was-queried: err == nil ==> queried

// ---- C23: crash atomicity by construction. SQLite (WAL journal, synchronous=NORMAL, immediate write
// transactions: all assumed, the DSN that asks for them is asserted in openSQLite) makes a committed transaction
// durable and an uncommitted one invisible after a crash. What is proved here is that the Go code uses it that way:
//   withWriteTx: the body runs inside one write transaction of the given connection; nil is returned only when
//     Commit returned nil; a failing body is rolled back and its error returned; a Commit error is returned;
//   every mutator: exactly one withWriteTx on the writer connection, no statement executed outside it, success
//     reported only when that transaction committed;
//   every transaction body: the data statement and the key-tracker update run on the transaction they were given,
//     tracker after data, and any failure fails the body (hence rolls back both).
//@ func withWriteTx(ctx context.Context, db *sql.DB, fn func(tx *sql.Tx) error) (err error)
//@   safety off
//@   opt frame=off
//@   ghost began int = 0
//@   ghost tx0 *sql.Tx = nil
//@   ghost berr error = nil
//@   ghost ran int = 0
//@   ghost ferr error = nil
//@   ghost commits int = 0
//@   ghost cerr error = nil
//@   ghost rollbacks int = 0
//@   at call BeginTx#*: assert one-write-transaction-on-the-given-connection: callarg0 == db && callarg2 == nil && began == 0
//@   at after call BeginTx#*: ghost tx0 := callresult0
//@   at after call BeginTx#*: ghost berr := callresult1
//@   at after call BeginTx#*: ghost began := began + 1
//@   at call dyn#*: assert the-body-runs-once-inside-the-open-transaction: callarg0 == tx0 && began == 1 && berr == nil && ran == 0 && commits == 0 && rollbacks == 0
//@   at after call dyn#*: ghost ferr := callresult
//@   at after call dyn#*: ghost ran := ran + 1
//@   at call Commit#*: assert commit-only-after-a-successful-body: callarg0 == tx0 && ran == 1 && ferr == nil && rollbacks == 0 && commits == 0
//@   at after call Commit#*: ghost cerr := callresult
//@   at after call Commit#*: ghost commits := commits + 1
//@   at call Rollback#*: assert rollback-only-after-a-failed-body: callarg0 == tx0 && ran == 1 && ferr != nil && commits == 0
//@   at call Rollback#*: ghost rollbacks := rollbacks + 1
//@   ensures local-success-is-reported-only-when-the-commit-succeeded: err == nil ==> (began == 1 && berr == nil && ran == 1 && ferr == nil && commits == 1 && cerr == nil && rollbacks == 0)
//@   ensures local-a-failed-body-is-rolled-back-and-its-error-returned: (ran == 1 && ferr != nil) ==> (err == ferr && rollbacks == 1 && commits == 0)
//@   ensures local-a-failed-begin-runs-nothing: berr != nil ==> (err == berr && ran == 0 && commits == 0)
//@   ensures local-a-failed-commit-is-reported: commits == 1 ==> err == cerr

//@ func openSQLite(logger *zap.Logger, dbPath string) (db *sql.DB, err error)
//@   safety off
//@   opt frame=off
//@   ghost fmtStr string = ""
//@   ghost dsn string = ""
//@   ghost opened int = 0
//@   at call Sprintf#*: ghost fmtStr := callarg0
//@   at after call Sprintf#*: ghost dsn := callresult
//@   at call Open#*: assert the-connection-string-asks-for-wal-normal-sync-and-immediate-write-transactions: callarg0 == "sqlite3" && callarg1 == dsn && contains(fmtStr, "_pragma=journal_mode(WAL)") && contains(fmtStr, "_pragma=synchronous(1)") && contains(fmtStr, "_txlock=immediate") && contains(fmtStr, "_pragma=busy_timeout(")
//@   at call Open#*: ghost opened := opened + 1
//@   ensures local-one-open: opened == 1

//@ func (s *SqliteKV) Put(ctx context.Context, key []byte, value []byte) (err error)
//@   safety off
//@   opt frame=off
//@   ghost txs int = 0
//@   ghost werr error = nil
//@   at call withWriteTx#*: assert one-write-transaction-on-the-writer-connection: callarg1 == s.writer && txs == 0
//@   at after call withWriteTx#*: ghost werr := callresult
//@   at after call withWriteTx#*: ghost txs := txs + 1
//@   at call Exec#?: assert no-statement-changes-the-store-outside-the-transaction: false
//@   at call ExecContext#?: assert no-statement-changes-the-store-outside-the-transaction: false
//@   ensures local-acknowledged-exactly-when-the-transaction-committed: txs == 1 && err == werr

//@ func (s *SqliteKV) Put$1(tx *sql.Tx) (err error)
//@   safety off
//@   opt frame=off
//@   requires the-transaction-and-the-captured-receiver-exist: tx != nil && s != nil
//@   ghost onTx bool = true
//@   ghost lastStmt *sql.Stmt = nil
//@   ghost execs int = 0
//@   ghost xerr error = nil
//@   ghost tracked int = 0
//@   ghost terr error = nil
//@   at call StmtContext#*: ghost onTx := onTx && callarg0 == tx
//@   at call StmtContext#*: ghost lastStmt := callarg2
//@   at call Exec#*: assert the-data-statement-runs-once-on-this-transaction-before-the-tracker: onTx && lastStmt == s.stmts.simplePut && execs == 0 && tracked == 0
//@   at after call Exec#*: ghost xerr := callresult1
//@   at after call Exec#*: ghost execs := execs + 1
//@   at call ExecContext#?: assert no-statement-bypasses-the-transaction: false
//@   at call updateKeyTracker#*: assert tracker-updated-in-the-same-transaction-after-the-data-statement-succeeded: callarg2 == tx && execs == 1 && xerr == nil && tracked == 0 && callarg3 == key && callarg4 == SimpleFlag && callarg5 == 0
//@   at after call updateKeyTracker#*: ghost terr := callresult
//@   at after call updateKeyTracker#*: ghost tracked := tracked + 1
//@   ensures local-success-means-data-and-tracker-were-both-written-in-this-transaction: err == nil ==> (execs == 1 && xerr == nil && tracked == 1 && terr == nil)
//@   ensures local-a-failed-statement-fails-the-transaction: (execs == 1 && xerr != nil) ==> err == xerr
//@   ensures local-a-failed-tracker-update-fails-the-transaction: tracked == 1 ==> err == terr

//@ func (s *SqliteKV) Delete(ctx context.Context, key []byte) (err error)
//@   safety off
//@   opt frame=off
//@   ghost txs int = 0
//@   ghost werr error = nil
//@   at call withWriteTx#*: assert one-write-transaction-on-the-writer-connection: callarg1 == s.writer && txs == 0
//@   at after call withWriteTx#*: ghost werr := callresult
//@   at after call withWriteTx#*: ghost txs := txs + 1
//@   at call Exec#?: assert no-statement-changes-the-store-outside-the-transaction: false
//@   at call ExecContext#?: assert no-statement-changes-the-store-outside-the-transaction: false
//@   ensures local-acknowledged-exactly-when-the-transaction-committed: txs == 1 && err == werr

//@ func (s *SqliteKV) Delete$1(tx *sql.Tx) (err error)
//@   safety off
//@   opt frame=off
//@   requires the-transaction-and-the-captured-receiver-exist: tx != nil && s != nil
//@   ghost onTx bool = true
//@   ghost lastStmt *sql.Stmt = nil
//@   ghost execs int = 0
//@   ghost xerr error = nil
//@   ghost tracked int = 0
//@   ghost terr error = nil
//@   at call StmtContext#*: ghost onTx := onTx && callarg0 == tx
//@   at call StmtContext#*: ghost lastStmt := callarg2
//@   at call Exec#*: assert the-data-statement-runs-once-on-this-transaction-before-the-tracker: onTx && lastStmt == s.stmts.simpleDel && execs == 0 && tracked == 0
//@   at after call Exec#*: ghost xerr := callresult1
//@   at after call Exec#*: ghost execs := execs + 1
//@   at call ExecContext#?: assert no-statement-bypasses-the-transaction: false
//@   at call updateKeyTracker#*: assert tracker-updated-in-the-same-transaction-after-the-data-statement-succeeded: callarg2 == tx && execs == 1 && xerr == nil && tracked == 0 && callarg3 == key && callarg4 == 0 && callarg5 == SimpleFlag
//@   at after call updateKeyTracker#*: ghost terr := callresult
//@   at after call updateKeyTracker#*: ghost tracked := tracked + 1
//@   ensures local-success-means-data-and-tracker-were-both-written-in-this-transaction: err == nil ==> (execs == 1 && xerr == nil && tracked == 1 && terr == nil)
//@   ensures local-a-failed-statement-fails-the-transaction: (execs == 1 && xerr != nil) ==> err == xerr
//@   ensures local-a-failed-tracker-update-fails-the-transaction: tracked == 1 ==> err == terr

//@ func (s *SqliteKV) PrefixAppend(ctx context.Context, prefix []byte, child []byte) (err error)
//@   safety off
//@   opt frame=off
//@   ghost txs int = 0
//@   ghost werr error = nil
//@   at call withWriteTx#*: assert one-write-transaction-on-the-writer-connection: callarg1 == s.writer && txs == 0
//@   at after call withWriteTx#*: ghost werr := callresult
//@   at after call withWriteTx#*: ghost txs := txs + 1
//@   at call Exec#?: assert no-statement-changes-the-store-outside-the-transaction: false
//@   at call ExecContext#?: assert no-statement-changes-the-store-outside-the-transaction: false
//@   ensures local-acknowledged-exactly-when-the-transaction-committed: txs == 1 && err == werr

//@ func (s *SqliteKV) PrefixAppend$1(tx *sql.Tx) (err error)
//@   safety off
//@   opt frame=off
//@   requires the-transaction-and-the-captured-receiver-exist: tx != nil && s != nil
//@   ghost onTx bool = true
//@   ghost lastStmt *sql.Stmt = nil
//@   ghost execs int = 0
//@   ghost xerr error = nil
//@   ghost tracked int = 0
//@   ghost terr error = nil
//@   at call StmtContext#*: ghost onTx := onTx && callarg0 == tx
//@   at call StmtContext#*: ghost lastStmt := callarg2
//@   at call Exec#*: assert the-data-statement-runs-once-on-this-transaction-before-the-tracker: onTx && lastStmt == s.stmts.prefixAppend && execs == 0 && tracked == 0
//@   at after call Exec#*: ghost xerr := callresult1
//@   at after call Exec#*: ghost execs := execs + 1
//@   at call ExecContext#?: assert no-statement-bypasses-the-transaction: false
//@   at call updateKeyTracker#*: assert tracker-updated-in-the-same-transaction-after-the-data-statement-succeeded: callarg2 == tx && execs == 1 && xerr == nil && tracked == 0 && callarg3 == prefix && callarg4 == PrefixFlag && callarg5 == 0
//@   at after call updateKeyTracker#*: ghost terr := callresult
//@   at after call updateKeyTracker#*: ghost tracked := tracked + 1
//@   ensures local-success-means-data-and-tracker-were-both-written-in-this-transaction: err == nil ==> (execs == 1 && xerr == nil && tracked == 1 && terr == nil)
//@   ensures local-a-failed-statement-fails-the-transaction: (execs == 1 && xerr != nil) ==> err == xerr
//@   ensures local-a-failed-tracker-update-fails-the-transaction: tracked == 1 ==> err == terr
//@   ghost rowsRead bool = false
//@   ghost rows int64 = 0
//@   ghost rerr error = nil
//@   at after call RowsAffected#*: ghost rows := callresult0
//@   at after call RowsAffected#*: ghost rerr := callresult1
//@   at after call RowsAffected#*: ghost rowsRead := true
//@   at call updateKeyTracker#*: assert the-tracker-is-touched-only-after-the-statement-changed-a-row: rowsRead && rerr == nil && rows != 0
//@   ensures local-a-statement-that-changed-no-row-is-the-documented-refusal: (rowsRead && rerr == nil && rows == 0) ==> err == chord.ErrKVPrefixConflict
//@   ensures local-an-unreadable-row-count-fails-the-transaction: (rowsRead && rerr != nil) ==> err == rerr
//@   ensures local-errors-come-from-the-statements-or-the-conflict-rule: err == nil || err == xerr || err == terr || err == chord.ErrKVPrefixConflict || tracked == 0

//@ func (s *SqliteKV) PrefixRemove(ctx context.Context, prefix []byte, child []byte) (err error)
//@   safety off
//@   opt frame=off
//@   ghost txs int = 0
//@   ghost werr error = nil
//@   at call withWriteTx#*: assert one-write-transaction-on-the-writer-connection: callarg1 == s.writer && txs == 0
//@   at after call withWriteTx#*: ghost werr := callresult
//@   at after call withWriteTx#*: ghost txs := txs + 1
//@   at call Exec#?: assert no-statement-changes-the-store-outside-the-transaction: false
//@   at call ExecContext#?: assert no-statement-changes-the-store-outside-the-transaction: false
//@   ensures local-acknowledged-exactly-when-the-transaction-committed: txs == 1 && err == werr

//@ func (s *SqliteKV) PrefixRemove$1(tx *sql.Tx) (err error)
//@   safety off
//@   opt frame=off
//@   requires the-transaction-and-the-captured-receiver-exist: tx != nil && s != nil
//@   ghost onTx bool = true
//@   ghost lastStmt *sql.Stmt = nil
//@   ghost execs int = 0
//@   ghost xerr error = nil
//@   ghost tracked int = 0
//@   ghost terr error = nil
//@   at call StmtContext#*: ghost onTx := onTx && callarg0 == tx
//@   at call StmtContext#*: ghost lastStmt := callarg2
//@   at call Exec#*: assert the-data-statement-runs-once-on-this-transaction-before-the-tracker: onTx && lastStmt == s.stmts.prefixRemove && execs == 0 && tracked == 0
//@   at after call Exec#*: ghost xerr := callresult1
//@   at after call Exec#*: ghost execs := execs + 1
//@   at call ExecContext#?: assert no-statement-bypasses-the-transaction: false
//@   at call updateKeyTracker#*: assert tracker-updated-in-the-same-transaction-after-the-data-statement-succeeded: callarg2 == tx && execs == 1 && xerr == nil && tracked == 0 && callarg3 == prefix && callarg4 == 0 && callarg5 == PrefixFlag
//@   at after call updateKeyTracker#*: ghost terr := callresult
//@   at after call updateKeyTracker#*: ghost tracked := tracked + 1
//@   ensures local-success-means-data-and-tracker-were-both-written-in-this-transaction: err == nil ==> (execs == 1 && xerr == nil && tracked == 1 && terr == nil)
//@   ensures local-a-failed-statement-fails-the-transaction: (execs == 1 && xerr != nil) ==> err == xerr
//@   ensures local-a-failed-tracker-update-fails-the-transaction: tracked == 1 ==> err == terr

//@ func (s *SqliteKV) Acquire(ctx context.Context, lease []byte, ttl time.Duration) (tok uint64, err error)
//@   safety off
//@   opt frame=off
//@   ghost txs int = 0
//@   ghost werr error = nil
//@   at call withWriteTx#*: assert one-write-transaction-on-the-writer-connection: callarg1 == s.writer && txs == 0
//@   at after call withWriteTx#*: ghost werr := callresult
//@   at after call withWriteTx#*: ghost txs := txs + 1
//@   at call Exec#?: assert no-statement-changes-the-store-outside-the-transaction: false
//@   at call ExecContext#?: assert no-statement-changes-the-store-outside-the-transaction: false
//@   ensures local-acknowledged-only-when-the-transaction-committed: err == nil ==> (txs == 1 && werr == nil)
//@   ensures local-a-failed-transaction-is-reported: (txs == 1 && werr != nil) ==> err == werr

//@ func (s *SqliteKV) Acquire$1(tx *sql.Tx) (err error)
//@   safety off
//@   opt frame=off
//@   requires the-transaction-and-the-captured-receiver-exist: tx != nil && s != nil
//@   ghost onTx bool = true
//@   ghost lastStmt *sql.Stmt = nil
//@   ghost execs int = 0
//@   ghost xerr error = nil
//@   ghost tracked int = 0
//@   ghost terr error = nil
//@   at call StmtContext#*: ghost onTx := onTx && callarg0 == tx
//@   at call StmtContext#*: ghost lastStmt := callarg2
//@   at call Exec#*: assert the-data-statement-runs-once-on-this-transaction-before-the-tracker: onTx && lastStmt == s.stmts.leaseAcquire && execs == 0 && tracked == 0
//@   at after call Exec#*: ghost xerr := callresult1
//@   at after call Exec#*: ghost execs := execs + 1
//@   at call ExecContext#?: assert no-statement-bypasses-the-transaction: false
//@   at call updateKeyTracker#*: assert tracker-updated-in-the-same-transaction-after-the-data-statement-succeeded: callarg2 == tx && execs == 1 && xerr == nil && tracked == 0 && callarg3 == lease && callarg4 == LeaseFlag && callarg5 == 0
//@   at after call updateKeyTracker#*: ghost terr := callresult
//@   at after call updateKeyTracker#*: ghost tracked := tracked + 1
//@   ensures local-success-means-data-and-tracker-were-both-written-in-this-transaction: err == nil ==> (execs == 1 && xerr == nil && tracked == 1 && terr == nil)
//@   ensures local-a-failed-statement-fails-the-transaction: (execs == 1 && xerr != nil) ==> err == xerr
//@   ensures local-a-failed-tracker-update-fails-the-transaction: tracked == 1 ==> err == terr
//@   ghost rowsRead bool = false
//@   ghost rows int64 = 0
//@   ghost rerr error = nil
//@   at after call RowsAffected#*: ghost rows := callresult0
//@   at after call RowsAffected#*: ghost rerr := callresult1
//@   at after call RowsAffected#*: ghost rowsRead := true
//@   at call updateKeyTracker#*: assert the-tracker-is-touched-only-after-the-statement-changed-a-row: rowsRead && rerr == nil && rows != 0
//@   ensures local-a-statement-that-changed-no-row-is-the-documented-refusal: (rowsRead && rerr == nil && rows == 0) ==> err == chord.ErrKVLeaseConflict
//@   ensures local-an-unreadable-row-count-fails-the-transaction: (rowsRead && rerr != nil) ==> err == rerr
//@   ensures local-errors-come-from-the-statements-or-the-conflict-rule: err == nil || err == xerr || err == terr || err == chord.ErrKVLeaseConflict || tracked == 0

//@ func (s *SqliteKV) Renew(ctx context.Context, lease []byte, ttl time.Duration, prevToken uint64) (tok uint64, err error)
//@   safety off
//@   opt frame=off
//@   ghost txs int = 0
//@   ghost werr error = nil
//@   at call withWriteTx#*: assert one-write-transaction-on-the-writer-connection: callarg1 == s.writer && txs == 0
//@   at after call withWriteTx#*: ghost werr := callresult
//@   at after call withWriteTx#*: ghost txs := txs + 1
//@   at call Exec#?: assert no-statement-changes-the-store-outside-the-transaction: false
//@   at call ExecContext#?: assert no-statement-changes-the-store-outside-the-transaction: false
//@   ensures local-acknowledged-only-when-the-transaction-committed: err == nil ==> (txs == 1 && werr == nil)
//@   ensures local-a-failed-transaction-is-reported: (txs == 1 && werr != nil) ==> err == werr

//@ func (s *SqliteKV) Renew$1(tx *sql.Tx) (err error)
//@   safety off
//@   opt frame=off
//@   requires the-transaction-and-the-captured-receiver-exist: tx != nil && s != nil
//@   ghost onTx bool = true
//@   ghost lastStmt *sql.Stmt = nil
//@   ghost execs int = 0
//@   ghost xerr error = nil
//@   ghost tracked int = 0
//@   ghost terr error = nil
//@   at call StmtContext#*: ghost onTx := onTx && callarg0 == tx
//@   at call StmtContext#*: ghost lastStmt := callarg2
//@   at call Exec#*: assert the-data-statement-runs-once-on-this-transaction-before-the-tracker: onTx && lastStmt == s.stmts.leaseRenew && execs == 0 && tracked == 0
//@   at after call Exec#*: ghost xerr := callresult1
//@   at after call Exec#*: ghost execs := execs + 1
//@   at call ExecContext#?: assert no-statement-bypasses-the-transaction: false
//@   at call updateKeyTracker#*: assert tracker-updated-in-the-same-transaction-after-the-data-statement-succeeded: callarg2 == tx && execs == 1 && xerr == nil && tracked == 0 && callarg3 == lease && callarg4 == LeaseFlag && callarg5 == 0
//@   at after call updateKeyTracker#*: ghost terr := callresult
//@   at after call updateKeyTracker#*: ghost tracked := tracked + 1
//@   ensures local-success-means-data-and-tracker-were-both-written-in-this-transaction: err == nil ==> (execs == 1 && xerr == nil && tracked == 1 && terr == nil)
//@   ensures local-a-failed-statement-fails-the-transaction: (execs == 1 && xerr != nil) ==> err == xerr
//@   ensures local-a-failed-tracker-update-fails-the-transaction: tracked == 1 ==> err == terr
//@   ghost rowsRead bool = false
//@   ghost rows int64 = 0
//@   ghost rerr error = nil
//@   at after call RowsAffected#*: ghost rows := callresult0
//@   at after call RowsAffected#*: ghost rerr := callresult1
//@   at after call RowsAffected#*: ghost rowsRead := true
//@   at call updateKeyTracker#*: assert the-tracker-is-touched-only-after-the-statement-changed-a-row: rowsRead && rerr == nil && rows != 0
//@   ensures local-a-statement-that-changed-no-row-is-the-documented-refusal: (rowsRead && rerr == nil && rows == 0) ==> err == chord.ErrKVLeaseExpired
//@   ensures local-an-unreadable-row-count-fails-the-transaction: (rowsRead && rerr != nil) ==> err == rerr
//@   ensures local-errors-come-from-the-statements-or-the-conflict-rule: err == nil || err == xerr || err == terr || err == chord.ErrKVLeaseExpired || tracked == 0

//@ func (s *SqliteKV) Release(ctx context.Context, lease []byte, token uint64) (err error)
//@   safety off
//@   opt frame=off
//@   ghost txs int = 0
//@   ghost werr error = nil
//@   at call withWriteTx#*: assert one-write-transaction-on-the-writer-connection: callarg1 == s.writer && txs == 0
//@   at after call withWriteTx#*: ghost werr := callresult
//@   at after call withWriteTx#*: ghost txs := txs + 1
//@   at call Exec#?: assert no-statement-changes-the-store-outside-the-transaction: false
//@   at call ExecContext#?: assert no-statement-changes-the-store-outside-the-transaction: false
//@   ensures local-acknowledged-exactly-when-the-transaction-committed: txs == 1 && err == werr

//@ func (s *SqliteKV) Release$1(tx *sql.Tx) (err error)
//@   safety off
//@   opt frame=off
//@   requires the-transaction-and-the-captured-receiver-exist: tx != nil && s != nil
//@   ghost onTx bool = true
//@   ghost lastStmt *sql.Stmt = nil
//@   ghost execs int = 0
//@   ghost xerr error = nil
//@   ghost tracked int = 0
//@   ghost terr error = nil
//@   at call StmtContext#*: ghost onTx := onTx && callarg0 == tx
//@   at call StmtContext#*: ghost lastStmt := callarg2
//@   at call Exec#*: assert the-data-statement-runs-once-on-this-transaction-before-the-tracker: onTx && lastStmt == s.stmts.leaseRelease && execs == 0 && tracked == 0
//@   at after call Exec#*: ghost xerr := callresult1
//@   at after call Exec#*: ghost execs := execs + 1
//@   at call ExecContext#?: assert no-statement-bypasses-the-transaction: false
//@   at call updateKeyTracker#*: assert tracker-updated-in-the-same-transaction-after-the-data-statement-succeeded: callarg2 == tx && execs == 1 && xerr == nil && tracked == 0 && callarg3 == lease && callarg4 == 0 && callarg5 == LeaseFlag
//@   at after call updateKeyTracker#*: ghost terr := callresult
//@   at after call updateKeyTracker#*: ghost tracked := tracked + 1
//@   ensures local-success-means-data-and-tracker-were-both-written-in-this-transaction: err == nil ==> (execs == 1 && xerr == nil && tracked == 1 && terr == nil)
//@   ensures local-a-failed-statement-fails-the-transaction: (execs == 1 && xerr != nil) ==> err == xerr
//@   ensures local-a-failed-tracker-update-fails-the-transaction: tracked == 1 ==> err == terr
//@   ghost rowsRead bool = false
//@   ghost rows int64 = 0
//@   ghost rerr error = nil
//@   at after call RowsAffected#*: ghost rows := callresult0
//@   at after call RowsAffected#*: ghost rerr := callresult1
//@   at after call RowsAffected#*: ghost rowsRead := true
//@   at call updateKeyTracker#*: assert the-tracker-is-touched-only-after-the-statement-changed-a-row: rowsRead && rerr == nil && rows != 0
//@   ensures local-a-statement-that-changed-no-row-is-the-documented-refusal: (rowsRead && rerr == nil && rows == 0) ==> err == chord.ErrKVLeaseExpired
//@   ensures local-an-unreadable-row-count-fails-the-transaction: (rowsRead && rerr != nil) ==> err == rerr
//@   ensures local-errors-come-from-the-statements-or-the-conflict-rule: err == nil || err == xerr || err == terr || err == chord.ErrKVLeaseExpired || tracked == 0

//@ func (s *SqliteKV) Import(ctx context.Context, keys [][]byte, values []*protocol.KVTransfer) (err error)
//@   safety off
//@   opt frame=off
//@   ghost txs int = 0
//@   ghost werr error = nil
//@   at call withWriteTx#*: assert one-write-transaction-on-the-writer-connection: callarg1 == s.writer && txs == 0 && len(keys) == len(values)
//@   at after call withWriteTx#*: ghost werr := callresult
//@   at after call withWriteTx#*: ghost txs := txs + 1
//@   at call Exec#?: assert no-statement-changes-the-store-outside-the-transaction: false
//@   at call ExecContext#?: assert no-statement-changes-the-store-outside-the-transaction: false
//@   ensures local-acknowledged-only-when-the-transaction-committed: err == nil ==> (txs == 1 && werr == nil)
//@   ensures local-a-failed-transaction-is-reported: txs == 1 ==> err == werr

//@ func (s *SqliteKV) Import$1(tx *sql.Tx) (err error)
//@   arith bv
//@   safety off
//@   opt frame=off
//@   requires the-transaction-and-the-captured-receiver-exist: tx != nil && s != nil
//@   ghost onTx bool = true
//@   ghost failed bool = false
//@   at call StmtContext#*: ghost onTx := onTx && callarg0 == tx
//@   at call Exec#*: assert every-statement-runs-on-this-transaction-and-none-after-a-failure: onTx && !failed
//@   at after call Exec#*: ghost failed := failed || callresult1 != nil
//@   at call ExecContext#?: assert no-statement-bypasses-the-transaction: false
//@   ghost sOK bool = false
//@   at after call importedSimpleValue#*: ghost sOK := callresult1
//@   ghost hasLease bool = false
//@   at after call GetLeaseToken#1: ghost hasLease := callresult != 0
//@   at call updateKeyTracker#*: assert tracker-updated-in-the-same-transaction-for-the-imported-key: callarg2 == tx && !failed && callarg3 == key && callarg5 == 0
//@   at call updateKeyTracker#*: assert tracker-flags-name-exactly-the-kinds-imported: val != nil && callarg4 == (uint8(sOK ? 1 : 0) | uint8(len(children) > 0 ? 2 : 0) | uint8(hasLease ? 4 : 0)) && SimpleFlag == 1 && PrefixFlag == 2 && LeaseFlag == 4
//@   at after call updateKeyTracker#*: ghost failed := failed || callresult != nil
//@   ensures local-success-means-no-statement-failed: err == nil ==> !failed
//@   loop key: invariant all-statements-so-far-on-this-transaction-and-successful: onTx && !failed
//@   loop child: invariant all-statements-so-far-on-this-transaction-and-successful: onTx && !failed

//@ func (s *SqliteKV) RemoveKeys(ctx context.Context, keys [][]byte) (err error)
//@   safety off
//@   opt frame=off
//@   ghost txs int = 0
//@   ghost werr error = nil
//@   at call withWriteTx#*: assert one-write-transaction-on-the-writer-connection: callarg1 == s.writer && txs == 0
//@   at after call withWriteTx#*: ghost werr := callresult
//@   at after call withWriteTx#*: ghost txs := txs + 1
//@   at call Exec#?: assert no-statement-changes-the-store-outside-the-transaction: false
//@   at call ExecContext#?: assert no-statement-changes-the-store-outside-the-transaction: false
//@   ensures local-acknowledged-only-when-the-transaction-committed-or-nothing-was-asked: err == nil ==> ((txs == 1 && werr == nil) || len(keys) == 0)
//@   ensures local-a-failed-transaction-is-reported: txs == 1 ==> err == werr

//@ func (s *SqliteKV) RemoveKeys$1(tx *sql.Tx) (err error)
//@   safety off
//@   opt frame=off
//@   requires the-transaction-exists: tx != nil
//@   ghost failed bool = false
//@   ghost batches int = 0
//@   ghost execs int = 0
//@   at call placeholders#*: ghost batches := batches + 1
//@   at call Exec#*: assert every-delete-runs-on-this-transaction-and-none-after-a-failure: callarg0 == tx && !failed
//@   at call Exec#*: assert every-delete-binds-exactly-the-keys-of-the-batch: len(callarg2) == len(batch)
//@   at call Exec#1: assert simple-values-of-the-batch: execs == 4 * batches - 4 && callarg1 == "DELETE FROM `simple_entries` WHERE `key` IN (" + ph + ")"
//@   at call Exec#2: assert prefix-children-of-the-batch: execs == 4 * batches - 3 && callarg1 == "DELETE FROM `prefix_entries` WHERE `prefix` IN (" + ph + ")"
//@   at call Exec#3: assert leases-of-the-batch: execs == 4 * batches - 2 && callarg1 == "DELETE FROM `lease_entries` WHERE `owner` IN (" + ph + ")"
//@   at call Exec#4: assert tracker-rows-of-the-batch-in-the-same-transaction: execs == 4 * batches - 1 && callarg1 == "DELETE FROM `key_trackers` WHERE `key` IN (" + ph + ")"
//@   at after call Exec#*: ghost failed := failed || callresult1 != nil
//@   at after call Exec#*: ghost execs := execs + 1
//@   ensures local-success-means-every-batch-lost-data-and-tracker-rows-together: err == nil ==> (!failed && execs == 4 * batches)
//@   loop batch: invariant whole-batches-so-far: !failed && execs == 4 * batches && batches >= 0

// ---- C10: the SQLite listing reads only the key tracker: every tracked key with the requested prefix yields one
// entry per kind flag it carries (simple, prefix, lease) with that key, and nothing else is appended
//@ func (s *SqliteKV) ListKeys(ctx context.Context, prefix []byte) (r []*protocol.KeyComposite, err error)
//@   arith bv
//@   safety off
//@   opt frame=off
//@   requires s != nil
//@   ghost scanned bool = false
//@   ghost gf uint8 = 0
//@   ghost hp bool = false
//@   ghost a1 bool = false
//@   ghost a2 bool = false
//@   ghost a3 bool = false
//@   at call QueryContext#1: assert reads-the-tracker-listing-statement: callarg0 == s.stmts.listKeys
//@   at after call Scan#1: ghost scanned := callresult == nil
//@   at after call Scan#1: ghost gf := flags
//@   at after call Scan#1: ghost hp := false
//@   at after call Scan#1: ghost a1 := false
//@   at after call Scan#1: ghost a2 := false
//@   at after call Scan#1: ghost a3 := false
//@   at call HasPrefix#1: assert filters-on-the-requested-prefix: callarg0 == key && callarg1 == prefix
//@   at after call HasPrefix#1: ghost hp := callresult
//@   at call append#1: assert a-simple-entry-for-a-matching-key-with-the-simple-flag: scanned && hp && gf & 1 != 0 && !a1 && len(callarg1) == 1 && callarg1[0].Type == protocol.KeyComposite_SIMPLE && callarg1[0].Key == key && flags == gf
//@   at call append#1: ghost a1 := true
//@   at call append#2: assert a-prefix-entry-for-a-matching-key-with-the-prefix-flag: scanned && hp && gf & 2 != 0 && !a2 && len(callarg1) == 1 && callarg1[0].Type == protocol.KeyComposite_PREFIX && callarg1[0].Key == key && flags == gf
//@   at call append#2: ghost a2 := true
//@   at call append#3: assert a-lease-entry-for-a-matching-key-with-the-lease-flag: scanned && hp && gf & 4 != 0 && !a3 && len(callarg1) == 1 && callarg1[0].Type == protocol.KeyComposite_LEASE && callarg1[0].Key == key && flags == gf
//@   at call append#3: ghost a3 := true
//@   loop 1: invariant every-scanned-row-produced-exactly-its-kinds: scanned ==> (a1 == (hp && gf & 1 != 0) && a2 == (hp && gf & 2 != 0) && a3 == (hp && gf & 4 != 0))
//@   ensures local-flag-values: SimpleFlag == 1 && PrefixFlag == 2 && LeaseFlag == 4

// ---- C17 (SQLite side of the hand-over): Export reads all three kinds of every requested key inside one read
// transaction, keeps every child row it scanned, fills one slot per key, and fails as a whole on any read error other
// than "no row"; importedSimpleValue decides which transfers carry a simple value (a nil value with other kinds does
// not create one, an all-empty transfer stands for an empty simple value).
//@ func importedSimpleValue(val *protocol.KVTransfer) (r []byte, ok bool)
//@   safety off
//@   ensures nil-transfer-has-no-value: val == nil ==> (!ok && r == nil)
//@   ensures a-present-simple-value-is-taken-as-is: (val != nil && val.SimpleValue != nil) ==> (ok && r == val.SimpleValue)
//@   ensures an-all-empty-transfer-is-an-empty-simple-value: (val != nil && val.SimpleValue == nil && len(val.PrefixChildren) == 0 && val.LeaseToken == 0) ==> (ok && r != nil && len(r) == 0)
//@   ensures other-kinds-without-simple-value-create-none: (val != nil && val.SimpleValue == nil && (len(val.PrefixChildren) != 0 || val.LeaseToken != 0)) ==> !ok

//@ func (s *SqliteKV) Export(ctx context.Context, keys [][]byte) (r []*protocol.KVTransfer, err error)
//@   safety off
//@   opt frame=off
//@   ghost txs int = 0
//@   ghost rerr error = nil
//@   at call withReadTx#*: assert one-read-transaction-on-the-reader-connection: callarg1 == s.reader && txs == 0 && len(vals) == len(keys)
//@   at after call withReadTx#*: ghost rerr := callresult
//@   at after call withReadTx#*: ghost txs := txs + 1
//@   ensures local-a-failed-read-exports-nothing: (txs == 1 && rerr != nil) ==> (err == rerr && r == nil)
//@   ensures local-success-returns-one-slot-per-key: err == nil ==> (txs == 1 && rerr == nil && len(r) == len(keys))

//@ func (s *SqliteKV) Export$1(tx *sql.Tx) (err error)
//@   safety off
//@   opt frame=off
//@   requires the-transaction-and-the-captured-receiver-exist: tx != nil && s != nil && len(vals) == len(keys)
//@   ghost onTx bool = true
//@   ghost lastStmt *sql.Stmt = nil
//@   at call StmtContext#*: ghost onTx := onTx && callarg0 == tx
//@   at call StmtContext#*: ghost lastStmt := callarg2
//@   at call QueryRow#1: assert the-scan-destinations-start-empty-for-every-key: simpleValue == nil && leaseToken == 0
//@   at call QueryRow#1: assert reads-the-simple-value-of-this-key-in-the-transaction: onTx && lastStmt == s.stmts.exportSimpleGet && len(callarg1) == 1 && cast(callarg1[0], "[]byte") == key
//@   at call Query#1: assert reads-the-children-of-this-key-in-the-transaction: onTx && lastStmt == s.stmts.exportPrefixList && len(callarg1) == 1 && cast(callarg1[0], "[]byte") == key
//@   at call QueryRow#2: assert reads-the-lease-of-this-key-in-the-transaction: onTx && lastStmt == s.stmts.exportLeaseGet && len(callarg1) == 1 && cast(callarg1[0], "[]byte") == key
//@   at call append#1: assert every-scanned-child-is-kept: callarg0 == prefix && len(callarg1) == 1 && callarg1[0] == child
//@   at call scanInt64AsUint64#1: assert the-scanned-lease-token-is-exported: callarg0 == leaseToken
//@   ensures success-fills-every-slot: err == nil ==> (forall j int {vals[j]} :: (0 <= j && j < len(keys)) ==> vals[j] != nil)
//@   loop key: invariant slots-filled-so-far: onTx && -1 <= rangeindex && rangeindex < len(keys) && len(vals) == len(keys) && (forall j int {vals[j]} :: (0 <= j && j <= rangeindex) ==> vals[j] != nil)
//@   loop child: invariant still-on-the-transaction: onTx && 0 <= rangeindex && rangeindex < len(keys) && len(vals) == len(keys) && (forall j int {vals[j]} :: (0 <= j && j < rangeindex) ==> vals[j] != nil)

// ---- C24: the schema helpers issue exactly the statements their (assumed) meaning above rests on. The contracts
// above say what the statements mean (trusted: SQLite); these variants prove which statement text is sent, with which
// argument, and that the helper's result is the scanned answer.
//@ func tableExists@sql(db *sql.DB, name string) (r bool, err error)
//@   safety off
//@   opt frame=off
//@   ghost serr error = nil
//@   at call QueryRow#1: assert asks-the-schema-for-a-table-of-that-name: callarg0 == db && callarg1 == "SELECT COUNT(*) FROM sqlite_schema WHERE type='table' AND name=?" && len(callarg2) == 1 && cast(callarg2[0], "string") == name
//@   at after call Scan#1: ghost serr := callresult
//@   ensures local-result-is-the-scanned-count: err == serr && r == (count > 0)

//@ func indexExists@sql(db *sql.DB, name string) (r bool, err error)
//@   safety off
//@   opt frame=off
//@   ghost serr error = nil
//@   at call QueryRow#1: assert asks-the-schema-for-an-index-of-that-name: callarg0 == db && callarg1 == "SELECT COUNT(*) FROM sqlite_schema WHERE type='index' AND name=?" && len(callarg2) == 1 && cast(callarg2[0], "string") == name
//@   at after call Scan#1: ghost serr := callresult
//@   ensures local-result-is-the-scanned-count: err == serr && r == (count > 0)
