//go:build verif

// Contracts for package sqlite3 (kv/sqlite3), checked by /verif/bin/specv.
// This file contains no executable code; only the //@ lines are read.
package sqlite3

// ---- C24: schema inspection and migration decisions.
// Ghost view of a database file: which tables / indexes exist, its user_version, and how many
// mutating statements (PRAGMA user_version = .., DDL) have been issued against it.
//@ absfield database/sql.DB tables set[string]
//@ absfield database/sql.DB indexes set[string]
//@ absfield database/sql.DB userVersion int
//@ absfield database/sql.DB mutations int

// the SQL helpers are assumed to do what their statement text says
//@ func tableExists(db *sql.DB, name string) (r bool, err error)
//@   trusted
//@   ensures err == nil ==> r == db.tables[name]
//@ func indexExists(db *sql.DB, name string) (r bool, err error)
//@   trusted
//@   ensures err == nil ==> r == db.indexes[name]
//@ func getUserVersion(db *sql.DB) (v int, err error)
//@   trusted
//@   ensures err == nil ==> v == db.userVersion
//@ func setUserVersion(db *sql.DB, v int) (err error)
//@   trusted
//@   modifies db.userVersion, db.mutations
//@   ensures db.mutations == old(db.mutations) + 1
//@   ensures err == nil ==> db.userVersion == v
//@   ensures err != nil ==> db.userVersion == old(db.userVersion)
//@ func applyMigration(db *sql.DB, migration migration) (err error)
//@   trusted
//@   modifies db.userVersion, db.mutations, db.tables, db.indexes
//@   ensures db.mutations == old(db.mutations) + 1
//@   ensures err == nil ==> db.userVersion == migration.version
//@   ensures err != nil ==> (db.userVersion == old(db.userVersion) && db.tables == old(db.tables) && db.indexes == old(db.indexes))
//@   ensures nothing-dropped: forall n string :: (old(db.tables)[n] ==> db.tables[n]) && (old(db.indexes)[n] ==> db.indexes[n])

//@ macro allV1(db *sql.DB) bool = db.tables["key_trackers"] && db.tables["simple_entries"] && db.tables["prefix_entries"] && db.tables["lease_entries"] && db.indexes["idx_hash"]
//@ macro anyV1(db *sql.DB) bool = db.tables["key_trackers"] || db.tables["simple_entries"] || db.tables["prefix_entries"] || db.tables["lease_entries"] || db.indexes["idx_hash"]

//@ func schemaLooksLikeV1(db *sql.DB) (r bool, err error)
//@   requires db != nil
//@   loop tbl: unroll 4
//@   ensures exactly-the-full-v1-schema: err == nil ==> r == allV1(db)
//@   ensures read-only: db.mutations == old(db.mutations)

//@ func schemaHasAnyV1Objects(db *sql.DB) (r bool, err error)
//@   requires db != nil
//@   loop tbl: unroll 4
//@   ensures any-v1-object: err == nil ==> r == anyV1(db)
//@   ensures read-only: db.mutations == old(db.mutations)

//@ func validateMigrationSequence(migrations []migration) (err error)
//@   ensures consecutive-from-one: err == nil ==> (forall i int :: 0 <= i && i < len(migrations) ==> migrations[i].version == i + 1)
//@   loop migration: invariant idx: -1 <= rangeindex && rangeindex < len(migrations)
//@   loop migration: invariant so-far: forall i int :: 0 <= i && i <= rangeindex ==> migrations[i].version == i + 1

//@ func loadMigrations() (r []migration, err error)
//@   opt frame=off
//@   safety off
//@   ensures consecutive-from-one: err == nil ==> (forall i int :: 0 <= i && i < len(r) ==> r[i].version == i + 1)

//@ func migrate(db *sql.DB) (err error)
//@   requires db != nil
//@   opt frame=off
//@   ghost latest int = 0
//@   at call getUserVersion#1: ghost latest := latestVersion
//@   ensures success-reaches-the-latest-version: (err == nil && latest >= 1) ==> db.userVersion == latest
//@   ensures nothing-is-ever-dropped: forall n string :: (old(db.tables)[n] ==> db.tables[n]) && (old(db.indexes)[n] ==> db.indexes[n])
//@   ensures up-to-date-database-is-untouched: (old(db.userVersion) == latest) ==> (db.mutations == old(db.mutations))
//@   ensures newer-database-is-refused-untouched: (old(db.userVersion) > latest) ==> (err != nil && db.mutations == old(db.mutations))
//@   ensures partial-legacy-schema-is-refused-untouched: (old(db.userVersion) == 0 && latest > 0 && old(anyV1(db)) && !old(allV1(db))) ==> (err != nil && db.mutations == old(db.mutations))
//@   ensures legacy-schema-is-adopted-not-recreated: (old(db.userVersion) == 0 && latest == 1 && old(allV1(db)) && err == nil) ==> (db.mutations == old(db.mutations) + 1 && db.tables == old(db.tables) && db.indexes == old(db.indexes))
//@   loop migration: invariant idx: -1 <= rangeindex && rangeindex < len(migrations) && latest == (len(migrations) > 0 ? migrations[len(migrations) - 1].version : 0)
//@   loop migration: invariant sorted: forall i int :: 0 <= i && i < len(migrations) ==> migrations[i].version == i + 1
//@   loop migration: invariant version: db.userVersion == ((rangeindex >= 0 && migrations[rangeindex].version > uv) ? migrations[rangeindex].version : uv)
//@   loop migration: invariant kept: forall n string :: (old(db.tables)[n] ==> db.tables[n]) && (old(db.indexes)[n] ==> db.indexes[n])
//@   loop migration: invariant legacy: (old(db.userVersion) == 0 && old(allV1(db)) && uv == 1 && (rangeindex < 0 || migrations[rangeindex].version <= 1)) ==> (db.mutations == old(db.mutations) + 1 && db.tables == old(db.tables) && db.indexes == old(db.indexes))

// ---- C16: key tracker flag algebra. The tracker row of a key records which kinds of data the key holds
// (1 simple, 2 prefix, 4 lease); ListKeys/RangeKeys read only the tracker. The SQL statements are assumed
// to do what their text says; what is proved is which statement is issued with which flags.
//@ func (s *SqliteKV) updateKeyTracker(ctx context.Context, tx *sql.Tx, key []byte, addFlags, removeFlags uint8) (err error)
//@   arith bv
//@   safety off
//@   opt frame=off
//@   opt puredyn=content
//@   requires s != nil && tx != nil
//@   ghost lastStmt *sql.Stmt = nil
//@   ghost inserted bool = false
//@   ghost deleted bool = false
//@   ghost updated bool = false
//@   ghost execFlags uint8 = 0
//@   ghost found bool = false
//@   ghost dbFlags uint8 = 0
//@   ghost children int64 = 0
//@   ghost counted bool = false
//@   at after call StmtContext#*: ghost lastStmt := callarg2
//@   at after call Scan#1: ghost found := callresult == nil
//@   at after call Scan#1: ghost dbFlags := flags
//@   at after call Scan#2: ghost children := count
//@   at after call Scan#2: ghost counted := callresult == nil
//@   at call Exec#1: assert insert-statement-with-the-added-flags: lastStmt == s.stmts.trackerInsert && cast(callarg1[2], "uint8") == addFlags && !inserted && !deleted && !updated
//@   at call Exec#1: ghost inserted := true
//@   at call Exec#2: assert delete-statement: lastStmt == s.stmts.trackerDelete && !inserted && !deleted && !updated
//@   at call Exec#2: ghost deleted := true
//@   at call Exec#3: assert update-statement: lastStmt == s.stmts.trackerUpdate && !inserted && !deleted && !updated
//@   at call Exec#3: ghost execFlags := cast(callarg1[0], "uint8")
//@   at call Exec#3: ghost updated := true
//@   ensures local-untracked-key-without-new-data-stays-untracked: (err == nil && !found && addFlags == 0) ==> (!inserted && !deleted && !updated)
//@   ensures local-untracked-key-with-new-data-is-inserted: (err == nil && !found && addFlags != 0) ==> (inserted && !deleted && !updated)
//@   ensures local-prefix-flag-kept-while-children-remain: (err == nil && found && updated) ==> execFlags == ((dbFlags | addFlags) &^ ((removeFlags & 2 != 0 && children > 0) ? (removeFlags &^ 2) : removeFlags))
//@   ensures local-tracker-deleted-exactly-when-no-kind-remains: (err == nil && found) ==> (!inserted && (deleted != updated) && (deleted == (((dbFlags | addFlags) &^ ((removeFlags & 2 != 0 && children > 0) ? (removeFlags &^ 2) : removeFlags)) == 0)))
//@   ensures local-prefix-removal-counts-the-children-first: (err == nil && found && removeFlags & 2 != 0) ==> counted

// ---- C17: RangeKeys picks the statement by the shape of the range and binds [low, high, high]
// (the WHERE clauses themselves are proved equivalent to the circular interval by script sqlite_sql)
//@ func bindUint64AsInt64(v uint64) (r int64)
//@   arith bv
//@   ensures same-bits: r == int64(v)

//@ func (s *SqliteKV) RangeKeys(ctx context.Context, low uint64, high uint64) (r [][]byte, err error)
//@   arith bv
//@   safety off
//@   opt frame=off
//@   requires s != nil
//@   ghost queried bool = false
//@   at call QueryContext#1: assert no-wrap-statement-when-low-below-high: high > low ==> callarg0 == s.stmts.rangeKeysNorm
//@   at call QueryContext#1: assert wrap-statement-otherwise: high <= low ==> callarg0 == s.stmts.rangeKeysWrap
//@   at call QueryContext#1: assert binds-low-high-high: len(callarg2) == 3 && cast(callarg2[0], "int64") == int64(low) && cast(callarg2[1], "int64") == int64(high) && cast(callarg2[2], "int64") == int64(high)
//@   at call QueryContext#1: ghost queried := true
//@   ensures local-success-means-the-range-was-queried: err == nil ==> queried
