//go:build verif

// Contracts for package pki, checked by /verif/bin/specv.
// This file contains no executable code; only the //@ lines are read.
package pki

// ---- C32: issuing and renewing client certificates
//@ func (p *Server) RequestCertificate(ctx context.Context, req *protocol.CertificateRequest) (resp *protocol.CertificateResponse, err error)
//@   safety off
//@   opt frame=off
//@   ghost perr error = nil
//@   ghost issued bool = false
//@   ghost subj pkix.Name
//@   at call VerifySolution#1: assert proof-is-checked-with-the-pki-parameters: callarg1.Difficulty == pki.HashcashDifficulty && callarg1.Expires == pki.HashcashExpires
//@   at after call VerifySolution#1: ghost perr := callresult1
//@   at call MakeSubjectV2#1: assert subject-is-derived-from-the-hash-of-the-proofs-key: perr == nil && callarg1 == hashed
//@   at after call MakeSubjectV2#1: ghost subj := callresult
//@   at call GenerateCertificate#1: assert certificate-carries-the-proofs-key-and-the-derived-subject: perr == nil && callarg1 == p.ClientCA && callarg2.PublicKey == d.PubKey && callarg2.Subject == subj
//@   at call GenerateCertificate#1: ghost issued := true
//@   ensures local-no-certificate-without-a-valid-proof: perr != nil ==> (err != nil && resp == nil && !issued)
//@   ensures local-success-means-issued: err == nil ==> issued

//@ func (p *Server) RenewCertificate(ctx context.Context, req *protocol.CertificateRenewalRequest) (resp *protocol.CertificateResponse, err error)
//@   safety off
//@   opt frame=off
//@   ghost verr error = nil
//@   ghost verified bool = false
//@   ghost ierr error = nil
//@   ghost extracted bool = false
//@   ghost perr error = nil
//@   ghost proved bool = false
//@   ghost same bool = false
//@   ghost compared bool = false
//@   ghost issued bool = false
//@   ghost caParsed *x509.Certificate = nil
//@   ghost adds int = 0
//@   at after call ParseCertificate#*: ghost caParsed := (callarg0 == p.ClientCA.Certificate[0] ? callresult0 : caParsed)
//@   at call AddCert#*: assert the-only-trusted-root-is-the-first-certificate-of-the-client-ca-added-once: callarg0 == caPool && callarg1 == caCert && caCert == caParsed && caParsed != nil && adds == 0
//@   at call AddCert#*: ghost adds := adds + 1
//@   at call Verify#1: assert chain-is-verified-against-the-client-ca-for-client-auth: callarg0 == oldCert && callarg1.Roots == caPool
//@   at after call Verify#1: ghost verr := callresult1
//@   at after call Verify#1: ghost verified := true
//@   at call ExtractCertificateIdentity#1: assert identity-is-taken-from-the-verified-certificate: verified && verr == nil && callarg0 == oldCert
//@   at after call ExtractCertificateIdentity#1: ghost ierr := callresult1
//@   at after call ExtractCertificateIdentity#1: ghost extracted := true
//@   at call VerifySolution#1: assert proof-is-checked-only-for-a-v2-certificate-of-this-ca: extracted && ierr == nil && identity.Version != pki.TokenV1 && callarg1.Difficulty == pki.HashcashDifficulty && callarg1.Expires == pki.HashcashExpires
//@   at after call VerifySolution#1: ghost perr := callresult1
//@   at after call VerifySolution#1: ghost proved := true
//@   at call Equal#1: assert the-proofs-key-is-compared-with-the-certificates-key: proved && perr == nil && callarg0 == d.PubKey && callarg1 == oldPubKey
//@   at after call Equal#1: ghost same := callresult
//@   at after call Equal#1: ghost compared := true
//@   at call GenerateCertificate#1: assert renewed-only-for-the-key-holder-and-with-the-same-subject: verified && verr == nil && extracted && ierr == nil && identity.Version != pki.TokenV1 && proved && perr == nil && compared && same && callarg1 == p.ClientCA && callarg2.PublicKey == d.PubKey && callarg2.Subject == oldCert.Subject
//@   at call GenerateCertificate#1: ghost issued := true
//@   ensures local-success-means-renewed-under-all-conditions: err == nil ==> (issued && adds == 1)
//@   ensures local-refusals-issue-nothing: ((verified && verr != nil) || (extracted && ierr != nil) || (proved && perr != nil) || (compared && !same)) ==> (err != nil && !issued)
