//go:build verif

// Contracts for package chord, checked by /verif/bin/specv.
// This file contains no executable code; only the //@ lines are read.
package chord

// ---- C13: node lifecycle state word  (index<<4 | state)

//@ spec stOf(w uint64) uint64 = w & 15
//@ spec idxOf(w uint64) uint64 = w >> 4
//@ spec pack(i uint64, s uint64) uint64 = (i << 4) | s
//@ spec rgWord(o uint64, n uint64) bool = n == o || idxOf(n) > idxOf(o)

//@ lemma bv_pack_injective: forall i, j, s, t uint64 :: (s < 16 && t < 16 && i < 1<<60 && j < 1<<60 && pack(i, s) == pack(j, t)) ==> (i == j && s == t)
//@ lemma bv_pack_unpack: forall i, s uint64 :: (s < 16 && i < 1<<60) ==> (idxOf(pack(i, s)) == i && stOf(pack(i, s)) == s)

//@ func (s *nodeState) Transition(exp chord.State, nxt chord.State) (r chord.State, ok bool)
//@   arith bv
//@   opt rg=rgWord
//@   requires states: exp < 16 && nxt < 16
//@   requires history: s.history != nil
//@   at after call Load#1: assume counter-below-2p60: idxOf(load_seen) < 1<<60 - 1
//@   modifies s.state, s.history.m, s.history.keys
//@   ensures local-cas-expected: ok ==> stOf(cas_seen) == exp
//@   ensures local-cas-next: ok ==> s.state.v == pack(idxOf(cas_seen) + 1, nxt) && r == nxt
//@   ensures local-guarantee: rgWord(cas_seen, s.state.v)
//@   ensures local-history-index: ok ==> s.history.m == upd(old(s.history.m), idxOf(cas_seen) + 1, nxt) && s.history.keys == add(old(s.history.keys), idxOf(cas_seen) + 1)
//@   ensures local-fail-unchanged: !ok ==> s.state.v == cas_seen && s.history.m == old(s.history.m) && s.history.keys == old(s.history.keys)
//@   ensures local-fail-reports-loaded: !ok ==> r == stOf(load_seen)
//@   ensures success-state: ok ==> stOf(s.state.v) == nxt && r == nxt
//@   ensures success-history-tip: ok ==> s.history.keys[idxOf(s.state.v)] && s.history.m[idxOf(s.state.v)] == nxt
//@   ensures local-fail-means-mismatch: !ok ==> (stOf(cas_seen) != exp || idxOf(cas_seen) != idxOf(load_seen))

//@ func (s *nodeState) Get() (r chord.State)
//@   arith bv
//@   opt rg=rgWord
//@   modifies s.state
//@   ensures in-range: r < 16
//@   ensures local-reports-word: r == stOf(load_seen)

//@ func (s *nodeState) Set(val chord.State)
//@   arith bv
//@   requires val < 16 && s.history != nil
//@   modifies s.state, s.history.m, s.history.keys
//@   ensures state-set: stOf(s.state.v) == val
//@   ensures history-tip: s.history.keys[idxOf(s.state.v)] && s.history.m[idxOf(s.state.v)] == val

//@ func newNodeState(initial chord.State) (r *nodeState)
//@   arith bv
//@   requires initial < 16
//@   ensures fresh: r != nil && fresh(r) && r.history != nil
//@   ensures word: r.state.v == pack(0, initial)
//@   ensures history: r.history.keys[0] && r.history.m[0] == initial
//@   ensures history-only-zero: forall k uint64 :: r.history.keys[k] ==> k == 0

// ---- C09 / C01: lookups

//@ pure (*LocalNode).ID

//@ func (n *LocalNode) closestPrecedingNode(key uint64) (r chord.VNode)
//@   arith bv
//@   use ids48
//@   opt inline=fingerRangeView,computeView
//@   requires n.ID() < 1<<48 && key < 1<<48
//@   ensures non-nil: r != nil
//@   ensures self-or-strictly-between: r == n || between48(n.ID(), r.ID(), key, false)
//@   ensures finger-membership: (forall k int :: (1 <= k && k <= 48 && n.fingers[k].node != nil) ==> chord.mem(n.fingers[k].node.ID())) ==> (r == n || chord.mem(r.ID()))
//@   loop fingerRangeView/k: invariant index: 0 <= k && k <= 48
//@   loop fingerRangeView/k: invariant member: (forall j int :: (1 <= j && j <= 48 && n.fingers[j].node != nil) ==> chord.mem(n.fingers[j].node.ID())) ==> (finger == nil || chord.mem(finger.ID()))
//@   loop fingerRangeView/k: invariant candidate: finger == nil || between48(n.ID(), finger.ID(), key, false)

//@ macro localOK(n *LocalNode) bool = chord.mem(n.ID()) && n.predecessor != nil && chord.mem(n.predecessor.ID())
//@      && (forall m uint64 :: (chord.mem(m) && m < 1<<48) ==> !chord.between48(n.predecessor.ID(), m, n.ID(), false))
//@      && len(n.successors) >= 1 && n.successors[0] != nil && n.successors[0].ID() == chord.ownerOf((n.ID() + 1) & (1<<48 - 1))
//@      && (forall k int :: (1 <= k && k <= 48 && n.fingers[k].node != nil) ==> chord.mem(n.fingers[k].node.ID()))

//@ func (n *LocalNode) FindSuccessor(key uint64) (r chord.VNode, err error)
//@   arith bv
//@   use ids48, ring, bv_ring_owner_is_self, bv_ring_owner_is_successor_ne, bv_ring_owner_is_successor_eq, bv_ring_next_id, bv_ring_hop_decreases, bv_ring_successor_hop_decreases
//@   opt opaque=dist48,between48
//@   opt recursion=lookup
//@   opt inline=checkNodeState,getPredecessor,getSuccessor
//@   requires n.ID() < 1<<48 && key < 1<<48 && n.state != nil
//@   modifies nodeState.state
//@   decreases dist48(n.ID() + 1, key)
//@   ensures non-nil-result: err == nil ==> r != nil
//@   ensures owner-on-stable-ring: (chord.stableRing() && old(localOK(n)) && err == nil) ==> r.ID() == chord.ownerOf(key)
//@   at return#2: assert hint-owner-member: localOK(n) ==> (chord.mem(chord.ownerOf(key)) && chord.ownerOf(key) < 1<<48)
//@   at return#2: assert hint-owner-not-inside: localOK(n) ==> !chord.between48(n.predecessor.ID(), chord.ownerOf(key), n.ID(), false)
//@   at return#2: assert hint-owner-closest: localOK(n) ==> chord.dist48(key, chord.ownerOf(key)) <= chord.dist48(key, n.ID())
//@   at return#4: assert hint-owner-member: localOK(n) ==> (chord.mem(chord.ownerOf(key)) && chord.ownerOf(key) < 1<<48 && chord.mem(n.successors[0].ID()))
//@   at return#4: assert hint-successor-closest: localOK(n) ==> chord.dist48((n.ID() + 1) & (1<<48 - 1), n.successors[0].ID()) <= chord.dist48((n.ID() + 1) & (1<<48 - 1), chord.ownerOf(key))
//@   at return#4: assert hint-owner-closest: localOK(n) ==> chord.dist48(key, chord.ownerOf(key)) <= chord.dist48(key, n.successors[0].ID())

// ---- C08: a join request is answered in every neighbour-pointer state

//@ func (n *LocalNode) RequestToJoin(joiner chord.VNode) (pred chord.VNode, succs []chord.VNode, err error)
//@   opt frame=off
//@   use ids48
//@   safety nil,bounds,assert,panic
//@   requires valid-joiner: joiner != nil && n.ID() < 281474976710656 && joiner.ID() < 281474976710656
//@   requires started: n.state != nil && n.state.history != nil
//@   ghost local bool = false
//@   at call Lock#1: ghost local := true
//@   ensures local-handling-is-success-or-retryable: local ==> (err == nil || chord.retryableChord(err))
//@   ensures success-hands-over: (local && err == nil) ==> (len(succs) >= 1 && n.predecessor == joiner && n.surrogate == joiner)
// the pointers may be changed by other goroutines until the lock that protects them is held: they are havocked at
// each lock acquisition and every later statement is about the values read under the lock (surrL, predL)
//@   ghost surrL chord.VNode = nil
//@   ghost predL chord.VNode = nil
//@   ghost gotS bool = false
//@   ghost gotP bool = false
//@   at after call Lock#1: havoc n.surrogate
//@   at after call Lock#1: ghost surrL := n.surrogate
//@   at after call Lock#1: ghost gotS := true
//@   at after call Lock#2: havoc n.predecessor
//@   at after call Lock#2: ghost predL := n.predecessor
//@   at after call Lock#2: ghost gotP := true
//@   ensures local-refusal-changes-no-pointer: (local && err != nil) ==> ((gotP ==> n.predecessor == predL) && (gotS ==> n.surrogate == surrL))
//@   ghost locksTaken int = 0
//@   ghost unlocksDeferred int = 0
//@   at call Lock#*: ghost locksTaken := locksTaken + 1
//@   at defer Unlock#*: assert an-unlock-is-deferred-right-after-its-lock: unlocksDeferred + 1 == locksTaken
//@   at defer Unlock#*: ghost unlocksDeferred := unlocksDeferred + 1
//@   ensures local-no-lock-is-left-held-on-any-return: locksTaken == unlocksDeferred
//@   ghost ranged int = 0
//@   ghost inRange bool = false
//@   at call Between#*: assert the-joiner-must-lie-strictly-between-the-predecessor-read-under-the-lock-and-this-node: gotP && predL != nil && callarg0 == predL.ID() && callarg1 == joiner.ID() && callarg2 == n.ID() && callarg3 == false
//@   at after call Between#*: ghost inRange := callresult
//@   at after call Between#*: ghost ranged := ranged + 1
// C06 / C07 / C05: the membership lock around the hand-over
//@   ghost tries int = 0
//@   ghost took bool = false
//@   ghost sets int = 0
//@   ghost transfers int = 0
//@   ghost terr error = nil
//@   at call Transition#*: assert the-lock-is-a-cas-from-active-to-transferring-taken-before-anything-is-touched: callarg0 == n.state && callarg1 == chord.Active && callarg2 == chord.Transferring && tries == 0 && sets == 0 && transfers == 0 && gotS && !gotP && n.surrogate == surrL
//@   at after call Transition#*: ghost took := callresult1
//@   at after call Transition#*: ghost tries := tries + 1
//@   at $1/call Set#1: assert only-a-held-lock-is-released-and-by-setting-active: callarg0 == n.state && callarg1 == chord.Active && took && sets == 0
//@   at $1/call Set#1: ghost sets := sets + 1
//@   at call transferKeysUpward#*: assert keys-move-to-the-joiner-only-under-the-lock-from-the-old-predecessor: took && sets == 0 && transfers == 0 && gotP && ranged == 1 && inRange && any(callarg2) == any(predL) && any(callarg3) == any(joiner) && n.surrogate == surrL && n.predecessor == predL
//@   at after call transferKeysUpward#*: ghost terr := callresult
//@   at after call transferKeysUpward#*: ghost transfers := transfers + 1
//@   ensures local-a-refused-request-leaves-the-lifecycle-word-alone: (local && !took) ==> (sets == 0 && transfers == 0 && err == chord.ErrJoinInvalidState)
//@   ensures local-a-failed-hand-over-releases-the-lock: (took && err != nil) ==> sets == 1
//@   ensures local-a-successful-hand-over-keeps-the-lock-for-the-joiner-to-release: (local && err == nil) ==> (took && sets == 0 && transfers == 1 && terr == nil)
//@   ensures local-a-failed-transfer-fails-the-join: (transfers == 1 && terr != nil) ==> err == chord.ErrJoinTransferFailure

// ---- C14: every RemoteNode method maps the RPC error with chord.ErrorMapper

//@ func (n *RemoteNode) Ping() (err any)
//@   safety off
//@   opt frame=off
//@   ghost rpcErr error = nil
//@   at after call Ping#1: ghost rpcErr := callresult1
//@   ensures rpc-errors-are-mapped: rpcErr != nil ==> err == chord.ErrorMapper(rpcErr)
//@   ensures rpc-success-is-not-an-error-of-the-call: (rpcErr == nil && err != nil) ==> true

//@ func (n *RemoteNode) Notify() (err any)
//@   safety off
//@   opt frame=off
//@   ghost rpcErr error = nil
//@   at after call Notify#1: ghost rpcErr := callresult1
//@   ensures rpc-errors-are-mapped: rpcErr != nil ==> err == chord.ErrorMapper(rpcErr)
//@   ensures rpc-success-is-not-an-error-of-the-call: (rpcErr == nil && err != nil) ==> true

//@ func (n *RemoteNode) FindSuccessor() (r0 any, err any)
//@   safety off
//@   opt frame=off
//@   ghost rpcErr error = nil
//@   at after call FindSuccessor#1: ghost rpcErr := callresult1
//@   ensures rpc-errors-are-mapped: rpcErr != nil ==> err == chord.ErrorMapper(rpcErr)
//@   ensures rpc-success-is-not-an-error-of-the-call: (rpcErr == nil && err != nil) ==> true

//@ func (n *RemoteNode) GetSuccessors() (r0 any, err any)
//@   safety off
//@   opt frame=off
//@   ghost rpcErr error = nil
//@   at after call GetSuccessors#1: ghost rpcErr := callresult1
//@   ensures rpc-errors-are-mapped: rpcErr != nil ==> err == chord.ErrorMapper(rpcErr)
//@   ensures rpc-success-is-not-an-error-of-the-call: (rpcErr == nil && err != nil) ==> true

//@ func (n *RemoteNode) GetPredecessor() (r0 any, err any)
//@   safety off
//@   opt frame=off
//@   ghost rpcErr error = nil
//@   at after call GetPredecessor#1: ghost rpcErr := callresult1
//@   ensures rpc-errors-are-mapped: rpcErr != nil ==> err == chord.ErrorMapper(rpcErr)
//@   ensures rpc-success-is-not-an-error-of-the-call: (rpcErr == nil && err != nil) ==> true

//@ func (n *RemoteNode) Put() (err any)
//@   safety off
//@   opt frame=off
//@   ghost rpcErr error = nil
//@   at after call Put#1: ghost rpcErr := callresult1
//@   ensures rpc-errors-are-mapped: rpcErr != nil ==> err == chord.ErrorMapper(rpcErr)
//@   ensures rpc-success-is-not-an-error-of-the-call: (rpcErr == nil && err != nil) ==> true

//@ func (n *RemoteNode) Get() (r0 any, err any)
//@   safety off
//@   opt frame=off
//@   ghost rpcErr error = nil
//@   at after call Get#1: ghost rpcErr := callresult1
//@   ensures rpc-errors-are-mapped: rpcErr != nil ==> err == chord.ErrorMapper(rpcErr)
//@   ensures rpc-success-is-not-an-error-of-the-call: (rpcErr == nil && err != nil) ==> true

//@ func (n *RemoteNode) Delete() (err any)
//@   safety off
//@   opt frame=off
//@   ghost rpcErr error = nil
//@   at after call Delete#1: ghost rpcErr := callresult1
//@   ensures rpc-errors-are-mapped: rpcErr != nil ==> err == chord.ErrorMapper(rpcErr)
//@   ensures rpc-success-is-not-an-error-of-the-call: (rpcErr == nil && err != nil) ==> true

//@ func (n *RemoteNode) PrefixAppend() (err any)
//@   safety off
//@   opt frame=off
//@   ghost rpcErr error = nil
//@   at after call Append#1: ghost rpcErr := callresult1
//@   ensures rpc-errors-are-mapped: rpcErr != nil ==> err == chord.ErrorMapper(rpcErr)
//@   ensures rpc-success-is-not-an-error-of-the-call: (rpcErr == nil && err != nil) ==> true

//@ func (n *RemoteNode) PrefixList() (r0 any, err any)
//@   safety off
//@   opt frame=off
//@   ghost rpcErr error = nil
//@   at after call List#1: ghost rpcErr := callresult1
//@   ensures rpc-errors-are-mapped: rpcErr != nil ==> err == chord.ErrorMapper(rpcErr)
//@   ensures rpc-success-is-not-an-error-of-the-call: (rpcErr == nil && err != nil) ==> true

//@ func (n *RemoteNode) PrefixContains() (r0 any, err any)
//@   safety off
//@   opt frame=off
//@   ghost rpcErr error = nil
//@   at after call Contains#1: ghost rpcErr := callresult1
//@   ensures rpc-errors-are-mapped: rpcErr != nil ==> err == chord.ErrorMapper(rpcErr)
//@   ensures rpc-success-is-not-an-error-of-the-call: (rpcErr == nil && err != nil) ==> true

//@ func (n *RemoteNode) PrefixRemove() (err any)
//@   safety off
//@   opt frame=off
//@   ghost rpcErr error = nil
//@   at after call Remove#1: ghost rpcErr := callresult1
//@   ensures rpc-errors-are-mapped: rpcErr != nil ==> err == chord.ErrorMapper(rpcErr)
//@   ensures rpc-success-is-not-an-error-of-the-call: (rpcErr == nil && err != nil) ==> true

//@ func (n *RemoteNode) Acquire() (r0 any, err any)
//@   safety off
//@   opt frame=off
//@   ghost rpcErr error = nil
//@   at after call Acquire#1: ghost rpcErr := callresult1
//@   ensures rpc-errors-are-mapped: rpcErr != nil ==> err == chord.ErrorMapper(rpcErr)
//@   ensures rpc-success-is-not-an-error-of-the-call: (rpcErr == nil && err != nil) ==> true

//@ func (n *RemoteNode) Renew() (r0 any, err any)
//@   safety off
//@   opt frame=off
//@   ghost rpcErr error = nil
//@   at after call Renew#1: ghost rpcErr := callresult1
//@   ensures rpc-errors-are-mapped: rpcErr != nil ==> err == chord.ErrorMapper(rpcErr)
//@   ensures rpc-success-is-not-an-error-of-the-call: (rpcErr == nil && err != nil) ==> true

//@ func (n *RemoteNode) Release() (err any)
//@   safety off
//@   opt frame=off
//@   ghost rpcErr error = nil
//@   at after call Release#1: ghost rpcErr := callresult1
//@   ensures rpc-errors-are-mapped: rpcErr != nil ==> err == chord.ErrorMapper(rpcErr)
//@   ensures rpc-success-is-not-an-error-of-the-call: (rpcErr == nil && err != nil) ==> true

//@ func (n *RemoteNode) Import() (err any)
//@   safety off
//@   opt frame=off
//@   ghost rpcErr error = nil
//@   at after call Import#1: ghost rpcErr := callresult1
//@   ensures rpc-errors-are-mapped: rpcErr != nil ==> err == chord.ErrorMapper(rpcErr)
//@   ensures rpc-success-is-not-an-error-of-the-call: (rpcErr == nil && err != nil) ==> true

//@ func (n *RemoteNode) ListKeys() (r0 any, err any)
//@   safety off
//@   opt frame=off
//@   ghost rpcErr error = nil
//@   at after call ListKeys#1: ghost rpcErr := callresult1
//@   ensures rpc-errors-are-mapped: rpcErr != nil ==> err == chord.ErrorMapper(rpcErr)
//@   ensures rpc-success-is-not-an-error-of-the-call: (rpcErr == nil && err != nil) ==> true

//@ func (n *RemoteNode) RequestToJoin() (r0 any, r1 any, err any)
//@   safety off
//@   opt frame=off
//@   ghost rpcErr error = nil
//@   at after call RequestToJoin#1: ghost rpcErr := callresult1
//@   ensures rpc-errors-are-mapped: rpcErr != nil ==> err == chord.ErrorMapper(rpcErr)
//@   ensures rpc-success-is-not-an-error-of-the-call: (rpcErr == nil && err != nil) ==> true

//@ func (n *RemoteNode) FinishJoin() (err any)
//@   safety off
//@   opt frame=off
//@   ghost rpcErr error = nil
//@   at after call FinishJoin#1: ghost rpcErr := callresult1
//@   ensures rpc-errors-are-mapped: rpcErr != nil ==> err == chord.ErrorMapper(rpcErr)
//@   ensures rpc-success-is-not-an-error-of-the-call: (rpcErr == nil && err != nil) ==> true

//@ func (n *RemoteNode) RequestToLeave() (err any)
//@   safety off
//@   opt frame=off
//@   ghost rpcErr error = nil
//@   at after call RequestToLeave#1: ghost rpcErr := callresult1
//@   ensures rpc-errors-are-mapped: rpcErr != nil ==> err == chord.ErrorMapper(rpcErr)
//@   ensures rpc-success-is-not-an-error-of-the-call: (rpcErr == nil && err != nil) ==> true

//@ func (n *RemoteNode) FinishLeave() (err any)
//@   safety off
//@   opt frame=off
//@   ghost rpcErr error = nil
//@   at after call FinishLeave#1: ghost rpcErr := callresult1
//@   ensures rpc-errors-are-mapped: rpcErr != nil ==> err == chord.ErrorMapper(rpcErr)
//@   ensures rpc-success-is-not-an-error-of-the-call: (rpcErr == nil && err != nil) ==> true

// ---- C06 / C07: the lifecycle word as membership lock. A node holds its own lock while its state is Joining,
// Transferring or Leaving; the only ways in are the compare-and-swap transitions Inactive->Joining,
// Active->Transferring and Active->Leaving, so two membership changes cannot hold one node at a time (C13 proves the
// CAS itself). What is proved below, over the calls each function makes (ghost call log), for every outcome of every
// remote call: a refused request leaves the state alone and returns a retryable error; a lock that was taken is
// released on every failure path, with the right call on the right node; success keeps the locks for the party that
// releases them later.

//@ func (n *LocalNode) RequestToLeave(leaver chord.VNode) (err error)
//@   opt frame=off
//@   safety off
//@   requires started: n.state != nil && n.state.history != nil
//@   ghost tries int = 0
//@   ghost took bool = false
//@   ghost sets int = 0
//@   at call Transition#*: assert the-lock-is-a-cas-from-active-to-transferring: callarg0 == n.state && callarg1 == chord.Active && callarg2 == chord.Transferring && tries == 0
//@   at after call Transition#*: ghost took := callresult1
//@   at after call Transition#*: ghost tries := tries + 1
//@   at call Set#?: ghost sets := sets + 1
//@   ensures local-granted-exactly-when-the-cas-won: tries == 1 && (err == nil) == took && sets == 0
//@   ensures a-refusal-is-retryable: err != nil ==> err == chord.ErrLeaveInvalidState

//@ func (n *LocalNode) FinishLeave(stabilize bool, release bool) (err error)
//@   opt frame=off
//@   safety off
//@   use ids48
//@   requires started: n.state != nil && n.state.history != nil && n.ID() < 281474976710656
//@   ghost tries int = 0
//@   ghost took bool = false
//@   ghost sets int = 0
//@   at call Transition#*: assert the-release-is-a-cas-from-transferring-to-active: callarg0 == n.state && callarg1 == chord.Transferring && callarg2 == chord.Active && tries == 0 && release
//@   at after call Transition#*: ghost took := callresult1
//@   at after call Transition#*: ghost tries := tries + 1
//@   at call Set#?: ghost sets := sets + 1
//@   ensures local-release-attempted-exactly-when-asked: tries == (release ? 1 : 0) && sets == 0
//@   ensures local-a-release-that-found-no-lock-is-reported: (release && !took) ==> err == chord.ErrLeaveInvalidState
//@   ensures local-otherwise-success: (!release || took) ==> err == nil

//@ func (n *LocalNode) FinishJoin(stabilize bool, release bool) (err error)
//@   opt frame=off
//@   safety off
//@   use ids48
//@   requires started: n.state != nil && n.state.history != nil && n.ID() < 281474976710656
//@   ghost tries int = 0
//@   ghost took bool = false
//@   ghost sets int = 0
//@   at call Transition#*: assert the-release-is-a-cas-from-transferring-to-active: callarg0 == n.state && callarg1 == chord.Transferring && callarg2 == chord.Active && tries == 0 && release
//@   at after call Transition#*: ghost took := callresult1
//@   at after call Transition#*: ghost tries := tries + 1
//@   at call Set#?: ghost sets := sets + 1
//@   ensures local-release-attempted-exactly-when-asked: tries == (release ? 1 : 0) && sets == 0
//@   ensures local-a-release-that-found-no-lock-is-reported: (release && !took) ==> err == chord.ErrJoinInvalidState
//@   ensures local-otherwise-success: (!release || took) ==> err == nil

//@ func (n *LocalNode) executeLeave() (pre chord.VNode, succ chord.VNode, err error)
//@   opt frame=off
//@   safety off
//@   requires started: n.state != nil && n.state.history != nil
//@   ghost asked int = 0
//@   ghost rerr error = nil
//@   ghost tries int = 0
//@   ghost took bool = false
//@   ghost succReleased int = 0
//@   ghost localReleased int = 0
//@   ghost transfers int = 0
//@   ghost terr error = nil
//@   at call RequestToLeave#*: assert asks-its-successor-once-naming-itself-as-the-leaver: any(callrecv) == any(succ) && asked == 0 && cast(callarg0, "*LocalNode") == n
//@   at after call RequestToLeave#*: ghost rerr := callresult
//@   at after call RequestToLeave#*: ghost asked := asked + 1
//@   at call Transition#*: assert the-local-lock-is-a-cas-from-active-to-leaving: callarg0 == n.state && callarg1 == chord.Active && callarg2 == chord.Leaving && tries == 0
//@   at after call Transition#*: ghost took := callresult1
//@   at after call Transition#*: ghost tries := tries + 1
//@   at call FinishLeave#*: assert only-a-held-successor-lock-is-released-and-with-the-release-flag: any(callrecv) == any(succ) && asked == 1 && rerr == nil && succReleased == 0 && callarg0 == false && callarg1 == true
//@   at call FinishLeave#*: ghost succReleased := succReleased + 1
//@   at call Set#*: assert the-held-local-lock-is-released-by-setting-active: callarg0 == n.state && callarg1 == chord.Active && took && localReleased == 0
//@   at call Set#*: ghost localReleased := localReleased + 1
//@   at call transferKeysDownward#*: assert keys-move-to-the-successor-only-under-both-locks: took && asked == 1 && rerr == nil && succReleased == 0 && localReleased == 0 && any(callarg2) == any(succ) && transfers == 0
//@   at after call transferKeysDownward#*: ghost terr := callresult
//@   at after call transferKeysDownward#*: ghost transfers := transfers + 1
//@   ghost mus int = 0
//@   ghost musDeferred int = 0
//@   at call Lock#*: ghost mus := mus + 1
//@   at defer Unlock#*: assert an-unlock-is-deferred-right-after-its-lock: musDeferred + 1 == mus
//@   at defer Unlock#*: ghost musDeferred := musDeferred + 1
//@   ensures local-no-mutex-is-left-held-on-any-return: mus == musDeferred
//@   ensures local-a-failed-attempt-releases-every-lock-it-took: err != nil ==> ((took ==> localReleased == 1) && ((asked == 1 && rerr == nil) ==> succReleased == 1))
//@   ensures local-success-keeps-both-locks-and-has-moved-the-keys: (err == nil && asked == 1) ==> (rerr == nil && took && localReleased == 0 && succReleased == 0 && transfers == 1 && terr == nil && cast(n.surrogate, "*LocalNode") == n)
//@   ensures local-the-lone-node-shortcut-needs-both-neighbours-to-be-the-node-itself: (err == nil && asked == 0) ==> (pre != nil && succ != nil && pre.ID() == n.ID() && succ.ID() == n.ID() && tries == 0 && transfers == 0)
//@   ensures local-a-failed-transfer-fails-the-attempt: (transfers == 1 && terr != nil) ==> err == terr

// Join: Inactive->Joining is the joiner's own lock; a failed join gives it back (state Inactive again); on success
// the predecessor is told to stabilize first, then the joiner becomes Active, and only then is the successor's
// Transferring lock released, in that order.
//@ func (n *LocalNode) Join(peer chord.VNode) (err error)
//@   opt frame=off
//@   safety off
//@   requires started: n.state != nil && n.state.history != nil
//@   ghost tries int = 0
//@   ghost took bool = false
//@   ghost joins int = 0
//@   ghost jerr error = nil
//@   ghost jpred chord.VNode = nil
//@   ghost jsuccs []chord.VNode
//@   ghost backInactive int = 0
//@   ghost active int = 0
//@   ghost advisory int = 0
//@   ghost released int = 0
//@   at call Transition#*: assert the-joiners-lock-is-a-cas-from-inactive-to-joining: callarg0 == n.state && callarg1 == chord.Inactive && callarg2 == chord.Joining && tries == 0
//@   at after call Transition#*: ghost took := callresult1
//@   at after call Transition#*: ghost tries := tries + 1
//@   at call executeJoin#*: assert joins-only-under-its-own-lock: took && joins == 0
//@   at after call executeJoin#*: ghost jpred := callresult0
//@   at after call executeJoin#*: ghost jsuccs := callresult1
//@   at after call executeJoin#*: ghost jerr := callresult2
//@   at after call executeJoin#*: ghost joins := joins + 1
//@   at call Set#*: assert state-is-set-only-to-give-up-or-to-finish: callarg0 == n.state && took && joins == 1 && ((jerr != nil && callarg1 == chord.Inactive && backInactive == 0 && active == 0) || (jerr == nil && callarg1 == chord.Active && advisory == 1 && active == 0 && released == 0))
//@   at call Set#*: ghost backInactive := backInactive + (callarg1 == chord.Inactive ? 1 : 0)
//@   at call Set#*: ghost active := active + (callarg1 == chord.Active ? 1 : 0)
//@   at call startTasks#*: assert the-returned-neighbours-are-installed-before-the-periodic-tasks-start: joins == 1 && jerr == nil && n.predecessor == jpred && n.successors == jsuccs && advisory == 0 && active == 0
//@   at call FinishJoin#*: assert predecessor-advisory-first-then-successor-release-after-becoming-active: joins == 1 && jerr == nil && ((callarg0 == true && callarg1 == false && any(callrecv) == any(jpred) && advisory == 0 && active == 0 && released == 0) || (callarg0 == false && callarg1 == true && len(jsuccs) >= 1 && any(callrecv) == any(jsuccs[0]) && advisory == 1 && active == 1 && released == 0))
//@   at call FinishJoin#*: ghost advisory := advisory + (callarg0 ? 1 : 0)
//@   at call FinishJoin#*: ghost released := released + (callarg1 ? 1 : 0)
//@   ensures local-a-node-that-is-not-inactive-does-nothing: !took ==> (err != nil && joins == 0 && backInactive == 0 && active == 0)
//@   ensures local-a-failed-join-returns-to-inactive-and-reports-the-error: (took && jerr != nil) ==> (err == jerr && backInactive == 1 && active == 0 && advisory == 0 && released == 0)
//@   ensures local-a-successful-join-ends-active-with-both-neighbours-told: (took && joins == 1 && jerr == nil) ==> (err == nil && advisory == 1 && active == 1 && released == 1 && backInactive == 0)

// executeJoin's result on success (what Join relies on): a predecessor and at least one successor
//@ func (n *LocalNode) executeJoin(peer chord.VNode) (predecessor chord.VNode, successors []chord.VNode, err error)
//@   trusted
//@   ensures err == nil ==> (predecessor != nil && len(successors) >= 1 && successors[0] != nil)

// Leave: every attempt is executeLeave (which releases what it took when it fails, see above). When the retries are
// exhausted nothing else happens: no state change, no neighbour call (the node keeps serving). After a successful
// attempt the predecessor is told to stabilize, then the node becomes Left, then the successor's lock is released.
//@ func (n *LocalNode) Leave()
//@   opt frame=off
//@   safety off
//@   requires started: n.state != nil && n.state.history != nil
//@   ghost dos int = 0
//@   ghost derr error = nil
//@   ghost sets int = 0
//@   ghost advisory int = 0
//@   ghost released int = 0
//@   ghost stopped int = 0
//@   at after call Do#*: ghost derr := callresult
//@   at after call Do#*: ghost dos := dos + 1
//@   at call Set#*: assert the-node-becomes-left-only-after-a-successful-attempt-and-after-the-advisory: callarg0 == n.state && callarg1 == chord.Left && dos == 1 && derr == nil && sets == 0 && released == 0
//@   at call Set#*: ghost sets := sets + 1
//@   at call FinishLeave#*: assert predecessor-advisory-before-left-successor-release-after: dos == 1 && derr == nil && ((callarg0 == true && callarg1 == false && any(callrecv) == any(pre) && sets == 0 && advisory == 0) || (callarg0 == false && callarg1 == true && any(callrecv) == any(succ) && sets == 1 && released == 0))
//@   at call FinishLeave#*: ghost advisory := advisory + (callarg0 ? 1 : 0)
//@   at call FinishLeave#*: ghost released := released + (callarg1 ? 1 : 0)
//@   at $1/call close#1: assert tasks-stop-only-after-the-node-left: dos == 1 && derr == nil && sets == 1
//@   at $1/call close#1: ghost stopped := stopped + 1
//@   ensures local-giving-up-changes-nothing: (dos == 0 || derr != nil) ==> (sets == 0 && advisory == 0 && released == 0 && stopped == 0)
//@   ensures local-a-successful-leave-ends-left-and-stops-the-tasks: (dos == 1 && derr == nil) ==> (sets == 1 && stopped == 1)
//@   ensures local-the-successor-lock-is-released-unless-the-node-was-alone: (dos == 1 && derr == nil && succ != nil && succ.ID() != n.ID()) ==> released == 1

// ---- C03 / C05: key hand-over. Keys leave the local store only after the receiving node acknowledged the import of
// exactly those keys with the values exported for them; any failure before that returns the error with nothing
// removed. The moved range is (low, new predecessor] on a join (low = the previous predecessor) and the whole store
// on a leave; that RangeKeys/Export/Import/RemoveKeys do what they say is decided per backend (C15, C17, C19).
//@ func (n *LocalNode) transferKeysUpward(ctx context.Context, prevPredecessor chord.VNode, newPredecessor chord.VNode) (err error)
//@   opt frame=off
//@   safety off
//@   use ids48
//@   requires newPredecessor != nil && n.ID() < 281474976710656
//@   ghost ranged int = 0
//@   ghost rkeys [][]byte
//@   ghost rerr error = nil
//@   ghost exported int = 0
//@   ghost xvals []*protocol.KVTransfer
//@   ghost xerr error = nil
//@   ghost imported int = 0
//@   ghost ierr error = nil
//@   ghost removed int = 0
//@   ghost inRange bool = false
//@   at call Between#*: assert the-new-predecessor-must-lie-strictly-between-the-previous-one-and-this-node: callarg0 == (prevPredecessor == nil ? n.ID() : prevPredecessor.ID()) && callarg1 == newPredecessor.ID() && callarg2 == n.ID() && callarg3 == false
//@   at after call Between#*: ghost inRange := callresult
//@   at call RangeKeys#*: assert selects-the-range-from-the-previous-predecessor-up-to-and-including-the-new-one: any(callrecv) == any(n.kv) && ranged == 0 && callarg1 == (prevPredecessor == nil ? n.ID() : prevPredecessor.ID()) && callarg2 == newPredecessor.ID() && inRange
//@   at after call RangeKeys#*: ghost rkeys := callresult0
//@   at after call RangeKeys#*: ghost rerr := callresult1
//@   at after call RangeKeys#*: ghost ranged := ranged + 1
//@   at call Export#*: assert exports-exactly-the-selected-keys: any(callrecv) == any(n.kv) && ranged == 1 && rerr == nil && exported == 0 && callarg1 == rkeys && len(rkeys) > 0
//@   at after call Export#*: ghost xvals := callresult0
//@   at after call Export#*: ghost xerr := callresult1
//@   at after call Export#*: ghost exported := exported + 1
//@   at call Import#*: assert imports-the-selected-keys-with-their-exported-values-into-the-new-predecessor: any(callrecv) == any(newPredecessor) && exported == 1 && xerr == nil && imported == 0 && callarg1 == rkeys && callarg2 == xvals
//@   at after call Import#*: ghost ierr := callresult
//@   at after call Import#*: ghost imported := imported + 1
//@   at call RemoveKeys#*: assert removes-locally-only-what-the-receiver-acknowledged: any(callrecv) == any(n.kv) && imported == 1 && ierr == nil && removed == 0 && callarg1 == rkeys
//@   at call RemoveKeys#*: ghost removed := removed + 1
//@   ensures local-a-failure-is-returned-and-nothing-was-removed: ((ranged == 1 && rerr != nil) ==> (err == rerr && removed == 0)) && ((exported == 1 && xerr != nil) ==> (err == xerr && removed == 0)) && ((imported == 1 && ierr != nil) ==> (err == ierr && removed == 0))
//@   ensures local-success-means-nothing-to-move-or-moved-and-removed: err == nil ==> (ranged == 0 || (rerr == nil && (len(rkeys) == 0 || (imported == 1 && ierr == nil && removed == 1))))

//@ func (n *LocalNode) transferKeysDownward(ctx context.Context, successor chord.VNode) (err error)
//@   opt frame=off
//@   safety off
//@   requires successor != nil
//@   ghost ranged int = 0
//@   ghost rkeys [][]byte
//@   ghost rerr error = nil
//@   ghost exported int = 0
//@   ghost xvals []*protocol.KVTransfer
//@   ghost xerr error = nil
//@   ghost imported int = 0
//@   ghost ierr error = nil
//@   ghost removed int = 0
//@   at call RangeKeys#*: assert selects-the-whole-store: any(callrecv) == any(n.kv) && ranged == 0 && callarg1 == 0 && callarg2 == 0
//@   at after call RangeKeys#*: ghost rkeys := callresult0
//@   at after call RangeKeys#*: ghost rerr := callresult1
//@   at after call RangeKeys#*: ghost ranged := ranged + 1
//@   at call Export#*: assert exports-exactly-the-selected-keys: any(callrecv) == any(n.kv) && ranged == 1 && rerr == nil && exported == 0 && callarg1 == rkeys && len(rkeys) > 0
//@   at after call Export#*: ghost xvals := callresult0
//@   at after call Export#*: ghost xerr := callresult1
//@   at after call Export#*: ghost exported := exported + 1
//@   at call Import#*: assert imports-the-selected-keys-with-their-exported-values-into-the-successor: any(callrecv) == any(successor) && exported == 1 && xerr == nil && imported == 0 && callarg1 == rkeys && callarg2 == xvals
//@   at after call Import#*: ghost ierr := callresult
//@   at after call Import#*: ghost imported := imported + 1
//@   at call RemoveKeys#*: assert removes-locally-only-what-the-receiver-acknowledged: any(callrecv) == any(n.kv) && imported == 1 && ierr == nil && removed == 0 && callarg1 == rkeys
//@   at call RemoveKeys#*: ghost removed := removed + 1
//@   ensures local-a-failure-is-returned-and-nothing-was-removed: ((ranged == 1 && rerr != nil) ==> (err == rerr && removed == 0)) && ((exported == 1 && xerr != nil) ==> (err == xerr && removed == 0)) && ((imported == 1 && ierr != nil) ==> (err != nil && removed == 0))
//@   ensures local-success-means-nothing-to-move-or-moved-and-removed: err == nil ==> (ranged == 1 && rerr == nil && (len(rkeys) == 0 || (imported == 1 && ierr == nil && removed == 1)))

// ---- C04: the KV gate. Every KV request runs its handler at most once and returns exactly what the handler
// returned; when no handler runs the request fails (retryable ErrKVStaleOwnership, or the lookup error) with no
// effect. The local store is handed to the handler only (a) for replication traffic, or (b) while both the surrogate
// and predecessor read locks are held, the lifecycle word read under them was Active, the key is not in a range
// already handed to a joiner (n, surrogate], and the key is in (predecessor, n]. A joining or leaving node holds the
// surrogate write lock while keys move (RequestToJoin, executeLeave), so a handler on the local store never overlaps
// a hand-over of its key.
//@ func kvMiddleware(ctx context.Context, n *LocalNode, key []byte, handler func(ctx context.Context, kv chord.KV, target kvTargetType, id uint64) (V, error)) (r V, err error)
//@   opt frame=off
//@   safety off
//@   use ids48
//@   requires started: n != nil && n.state != nil && n.state.history != nil && n.ID() < 281474976710656
//@   ghost calls int = 0
//@   ghost hid uint64 = 0
//@   at call Hash#1: assert hashes-the-request-key: callarg0 == key
//@   at after call Hash#1: ghost hid := callresult
//@   ghost hres V
//@   ghost herr error = nil
//@   ghost repl bool = false
//@   ghost looked int = 0
//@   ghost lsucc chord.VNode = nil
//@   ghost lerr error = nil
//@   ghost rlocks int = 0
//@   ghost stateRead int = 0
//@   ghost st chord.State = 0
//@   ghost surrChecked bool = false
//@   ghost inSurr bool = false
//@   ghost predChecked bool = false
//@   ghost inPred bool = false
//@   at after call GetRequestTarget#*: ghost repl := callresult == protocol.Context_KV_REPLICATION
//@   at call FindSuccessor#*: assert looks-up-the-owner-of-the-key-hash: callarg1 == hid && looked == 0 && !repl
//@   at after call FindSuccessor#*: ghost lsucc := callresult0
//@   at after call FindSuccessor#*: ghost lerr := callresult1
//@   at after call FindSuccessor#*: ghost looked := looked + 1
//@   at call RLock#*: ghost rlocks := rlocks + 1
//@   ghost l1 *sync.RWMutex = nil
//@   ghost l2 *sync.RWMutex = nil
//@   at call RLock#1: ghost l1 := callarg0
//@   at call RLock#2: ghost l2 := callarg0
//@   at call RLock#2: assert the-second-read-lock-is-taken-after-the-state-was-read: rlocks == 2 && stateRead == 1
//@   at defer RUnlock#1: assert the-first-lock-is-held-until-return: callarg0 == l1 && calls == 0
//@   at defer RUnlock#2: assert the-second-lock-is-held-until-return: callarg0 == l2 && calls == 0
//@   at call Get#*: assert the-lifecycle-word-is-read-under-the-surrogate-lock: callarg0 == n.state && rlocks == 1 && stateRead == 0
//@   at after call Get#*: ghost st := callresult
//@   at after call Get#*: ghost stateRead := stateRead + 1
//@   at call Between#1: assume a-nodes-identity-carries-its-ring-id: callarg2 == n.surrogate.ID()
//@   at call Between#1: assert range-already-handed-to-a-joiner: rlocks == 2 && n.surrogate != nil && callarg0 == n.ID() && callarg1 == hid && callarg3 == true
//@   at after call Between#1: ghost inSurr := callresult
//@   at after call Between#1: ghost surrChecked := true
//@   at call Between#2: assert own-range-from-the-predecessor: rlocks == 2 && n.predecessor != nil && callarg0 == n.predecessor.ID() && callarg1 == hid && callarg2 == n.ID() && callarg3 == true
//@   at after call Between#2: ghost inPred := callresult
//@   at after call Between#2: ghost predChecked := true
//@   at call dyn#*: assert one-handler-call-on-the-right-store: calls == 0 && callarg0 == ctx && callarg3 == hid && ((callarg2 == targetReplication && repl && any(callarg1) == any(n.kv)) || (callarg2 == targetRemote && !repl && looked == 1 && lerr == nil && lsucc.ID() != n.ID() && any(callarg1) == any(lsucc)) || (callarg2 == targetSurrogate && !repl && looked == 1 && lerr == nil && lsucc.ID() == n.ID() && rlocks == 2 && st == chord.Active && stateRead == 1 && surrChecked && inSurr && any(callarg1) == any(n.surrogate)) || (callarg2 == targetLocal && !repl && looked == 1 && lerr == nil && lsucc.ID() == n.ID() && rlocks == 2 && st == chord.Active && stateRead == 1 && (n.surrogate == nil || (surrChecked && !inSurr)) && (n.predecessor == nil || (predChecked && inPred)) && any(callarg1) == any(n.kv)))
//@   at after call dyn#*: ghost hres := callresult0
//@   at after call dyn#*: ghost herr := callresult1
//@   at after call dyn#*: ghost calls := calls + 1
//@   ensures local-the-handlers-answer-is-the-answer: calls == 1 ==> (r == hres && err == herr)
//@   ensures local-without-a-handler-the-request-fails-without-effect: calls == 0 ==> (err != nil && r == zero(V))
//@   ensures local-refusals-are-retryable-or-the-lookup-error: calls == 0 ==> (err == chord.ErrKVStaleOwnership || (looked == 1 && err == lerr && lerr != chord.ErrNodeGone))
//@   ensures local-a-node-that-is-not-active-serves-nothing-locally: (stateRead == 1 && st != chord.Active) ==> (calls == 0 && err == chord.ErrKVStaleOwnership)
// ---- C04: the KV entry points hand their own key to the gate and their own arguments to whichever store the gate
// picked, once, and return exactly what came back (generated by /verif/scripts/gen_kvwrap.py)
//@ func (n *LocalNode) Put(ctx context.Context, key []byte, value []byte) (err error)
//@   opt frame=off
//@   safety off
//@   use ids48
//@   requires started: n.state != nil && n.state.history != nil && n.ID() < 281474976710656
//@   ghost gates int = 0
//@   ghost gerr error = nil
//@   at call kvMiddleware#*: assert the-gate-decides-on-this-requests-key: callarg0 == ctx && callarg1 == n && callarg2 == key && gates == 0
//@   at after call kvMiddleware#*: ghost gerr := callresult1
//@   at after call kvMiddleware#*: ghost gates := gates + 1
//@   ensures local-the-gates-answer-is-returned: gates == 1 && err == gerr

//@ func (n *LocalNode) Put$1(ctx context.Context, kv chord.KV, target kvTargetType, id uint64) (r any, err error)
//@   opt frame=off
//@   safety off
//@   ghost ops int = 0
//@   ghost oerr error = nil
//@   at call Put#*: assert one-operation-on-the-store-the-gate-picked-with-the-requests-arguments: any(callrecv) == any(kv) && callarg0 == ctx && callarg1 == key && callarg2 == value && ops == 0
//@   at after call Put#*: ghost oerr := callresult
//@   at after call Put#*: ghost ops := ops + 1
//@   ensures local-the-stores-answer-is-returned: ops == 1 && err == oerr

//@ func (n *LocalNode) Get(ctx context.Context, key []byte) (val []byte, err error)
//@   opt frame=off
//@   safety off
//@   use ids48
//@   requires started: n.state != nil && n.state.history != nil && n.ID() < 281474976710656
//@   ghost gates int = 0
//@   ghost gerr error = nil
//@   ghost gval []byte
//@   at call kvMiddleware#*: assert the-gate-decides-on-this-requests-key: callarg0 == ctx && callarg1 == n && callarg2 == key && gates == 0
//@   at after call kvMiddleware#*: ghost gval := callresult0
//@   at after call kvMiddleware#*: ghost gerr := callresult1
//@   at after call kvMiddleware#*: ghost gates := gates + 1
//@   ensures local-the-gates-answer-is-returned: gates == 1 && err == gerr && val == gval

//@ func (n *LocalNode) Get$1(ctx context.Context, kv chord.KV, target kvTargetType, id uint64) (r []byte, err error)
//@   opt frame=off
//@   safety off
//@   ghost ops int = 0
//@   ghost oerr error = nil
//@   ghost oval []byte
//@   at call Get#*: assert one-operation-on-the-store-the-gate-picked-with-the-requests-arguments: any(callrecv) == any(kv) && callarg0 == ctx && callarg1 == key && ops == 0
//@   at after call Get#*: ghost oval := callresult0
//@   at after call Get#*: ghost oerr := callresult1
//@   at after call Get#*: ghost ops := ops + 1
//@   ensures local-the-stores-answer-is-returned: ops == 1 && err == oerr && r == oval

//@ func (n *LocalNode) Delete(ctx context.Context, key []byte) (err error)
//@   opt frame=off
//@   safety off
//@   use ids48
//@   requires started: n.state != nil && n.state.history != nil && n.ID() < 281474976710656
//@   ghost gates int = 0
//@   ghost gerr error = nil
//@   at call kvMiddleware#*: assert the-gate-decides-on-this-requests-key: callarg0 == ctx && callarg1 == n && callarg2 == key && gates == 0
//@   at after call kvMiddleware#*: ghost gerr := callresult1
//@   at after call kvMiddleware#*: ghost gates := gates + 1
//@   ensures local-the-gates-answer-is-returned: gates == 1 && err == gerr

//@ func (n *LocalNode) Delete$1(ctx context.Context, kv chord.KV, target kvTargetType, id uint64) (r any, err error)
//@   opt frame=off
//@   safety off
//@   ghost ops int = 0
//@   ghost oerr error = nil
//@   at call Delete#*: assert one-operation-on-the-store-the-gate-picked-with-the-requests-arguments: any(callrecv) == any(kv) && callarg0 == ctx && callarg1 == key && ops == 0
//@   at after call Delete#*: ghost oerr := callresult
//@   at after call Delete#*: ghost ops := ops + 1
//@   ensures local-the-stores-answer-is-returned: ops == 1 && err == oerr

//@ func (n *LocalNode) PrefixAppend(ctx context.Context, prefix []byte, child []byte) (err error)
//@   opt frame=off
//@   safety off
//@   use ids48
//@   requires started: n.state != nil && n.state.history != nil && n.ID() < 281474976710656
//@   ghost gates int = 0
//@   ghost gerr error = nil
//@   at call kvMiddleware#*: assert the-gate-decides-on-this-requests-key: callarg0 == ctx && callarg1 == n && callarg2 == prefix && gates == 0
//@   at after call kvMiddleware#*: ghost gerr := callresult1
//@   at after call kvMiddleware#*: ghost gates := gates + 1
//@   ensures local-the-gates-answer-is-returned: gates == 1 && err == gerr

//@ func (n *LocalNode) PrefixAppend$1(ctx context.Context, kv chord.KV, target kvTargetType, id uint64) (r any, err error)
//@   opt frame=off
//@   safety off
//@   ghost ops int = 0
//@   ghost oerr error = nil
//@   at call PrefixAppend#*: assert one-operation-on-the-store-the-gate-picked-with-the-requests-arguments: any(callrecv) == any(kv) && callarg0 == ctx && callarg1 == prefix && callarg2 == child && ops == 0
//@   at after call PrefixAppend#*: ghost oerr := callresult
//@   at after call PrefixAppend#*: ghost ops := ops + 1
//@   ensures local-the-stores-answer-is-returned: ops == 1 && err == oerr

//@ func (n *LocalNode) PrefixList(ctx context.Context, prefix []byte) (val [][]byte, err error)
//@   opt frame=off
//@   safety off
//@   use ids48
//@   requires started: n.state != nil && n.state.history != nil && n.ID() < 281474976710656
//@   ghost gates int = 0
//@   ghost gerr error = nil
//@   ghost gval [][]byte
//@   at call kvMiddleware#*: assert the-gate-decides-on-this-requests-key: callarg0 == ctx && callarg1 == n && callarg2 == prefix && gates == 0
//@   at after call kvMiddleware#*: ghost gval := callresult0
//@   at after call kvMiddleware#*: ghost gerr := callresult1
//@   at after call kvMiddleware#*: ghost gates := gates + 1
//@   ensures local-the-gates-answer-is-returned: gates == 1 && err == gerr && val == gval

//@ func (n *LocalNode) PrefixList$1(ctx context.Context, kv chord.KV, target kvTargetType, id uint64) (r [][]byte, err error)
//@   opt frame=off
//@   safety off
//@   ghost ops int = 0
//@   ghost oerr error = nil
//@   ghost oval [][]byte
//@   at call PrefixList#*: assert one-operation-on-the-store-the-gate-picked-with-the-requests-arguments: any(callrecv) == any(kv) && callarg0 == ctx && callarg1 == prefix && ops == 0
//@   at after call PrefixList#*: ghost oval := callresult0
//@   at after call PrefixList#*: ghost oerr := callresult1
//@   at after call PrefixList#*: ghost ops := ops + 1
//@   ensures local-the-stores-answer-is-returned: ops == 1 && err == oerr && r == oval

//@ func (n *LocalNode) PrefixContains(ctx context.Context, prefix []byte, child []byte) (val bool, err error)
//@   opt frame=off
//@   safety off
//@   use ids48
//@   requires started: n.state != nil && n.state.history != nil && n.ID() < 281474976710656
//@   ghost gates int = 0
//@   ghost gerr error = nil
//@   ghost gval bool
//@   at call kvMiddleware#*: assert the-gate-decides-on-this-requests-key: callarg0 == ctx && callarg1 == n && callarg2 == prefix && gates == 0
//@   at after call kvMiddleware#*: ghost gval := callresult0
//@   at after call kvMiddleware#*: ghost gerr := callresult1
//@   at after call kvMiddleware#*: ghost gates := gates + 1
//@   ensures local-the-gates-answer-is-returned: gates == 1 && err == gerr && val == gval

//@ func (n *LocalNode) PrefixContains$1(ctx context.Context, kv chord.KV, target kvTargetType, id uint64) (r bool, err error)
//@   opt frame=off
//@   safety off
//@   ghost ops int = 0
//@   ghost oerr error = nil
//@   ghost oval bool
//@   at call PrefixContains#*: assert one-operation-on-the-store-the-gate-picked-with-the-requests-arguments: any(callrecv) == any(kv) && callarg0 == ctx && callarg1 == prefix && callarg2 == child && ops == 0
//@   at after call PrefixContains#*: ghost oval := callresult0
//@   at after call PrefixContains#*: ghost oerr := callresult1
//@   at after call PrefixContains#*: ghost ops := ops + 1
//@   ensures local-the-stores-answer-is-returned: ops == 1 && err == oerr && r == oval

//@ func (n *LocalNode) PrefixRemove(ctx context.Context, prefix []byte, child []byte) (err error)
//@   opt frame=off
//@   safety off
//@   use ids48
//@   requires started: n.state != nil && n.state.history != nil && n.ID() < 281474976710656
//@   ghost gates int = 0
//@   ghost gerr error = nil
//@   at call kvMiddleware#*: assert the-gate-decides-on-this-requests-key: callarg0 == ctx && callarg1 == n && callarg2 == prefix && gates == 0
//@   at after call kvMiddleware#*: ghost gerr := callresult1
//@   at after call kvMiddleware#*: ghost gates := gates + 1
//@   ensures local-the-gates-answer-is-returned: gates == 1 && err == gerr

//@ func (n *LocalNode) PrefixRemove$1(ctx context.Context, kv chord.KV, target kvTargetType, id uint64) (r any, err error)
//@   opt frame=off
//@   safety off
//@   ghost ops int = 0
//@   ghost oerr error = nil
//@   at call PrefixRemove#*: assert one-operation-on-the-store-the-gate-picked-with-the-requests-arguments: any(callrecv) == any(kv) && callarg0 == ctx && callarg1 == prefix && callarg2 == child && ops == 0
//@   at after call PrefixRemove#*: ghost oerr := callresult
//@   at after call PrefixRemove#*: ghost ops := ops + 1
//@   ensures local-the-stores-answer-is-returned: ops == 1 && err == oerr

//@ func (n *LocalNode) Acquire(ctx context.Context, lease []byte, ttl time.Duration) (val uint64, err error)
//@   opt frame=off
//@   safety off
//@   use ids48
//@   requires started: n.state != nil && n.state.history != nil && n.ID() < 281474976710656
//@   ghost gates int = 0
//@   ghost gerr error = nil
//@   ghost gval uint64
//@   at call kvMiddleware#*: assert the-gate-decides-on-this-requests-key: callarg0 == ctx && callarg1 == n && callarg2 == lease && gates == 0
//@   at after call kvMiddleware#*: ghost gval := callresult0
//@   at after call kvMiddleware#*: ghost gerr := callresult1
//@   at after call kvMiddleware#*: ghost gates := gates + 1
//@   ensures local-the-gates-answer-is-returned: gates == 1 && err == gerr && val == gval

//@ func (n *LocalNode) Acquire$1(ctx context.Context, kv chord.KV, target kvTargetType, id uint64) (r uint64, err error)
//@   opt frame=off
//@   safety off
//@   ghost ops int = 0
//@   ghost oerr error = nil
//@   ghost oval uint64
//@   at call Acquire#*: assert one-operation-on-the-store-the-gate-picked-with-the-requests-arguments: any(callrecv) == any(kv) && callarg0 == ctx && callarg1 == lease && callarg2 == ttl && ops == 0
//@   at after call Acquire#*: ghost oval := callresult0
//@   at after call Acquire#*: ghost oerr := callresult1
//@   at after call Acquire#*: ghost ops := ops + 1
//@   ensures local-the-stores-answer-is-returned: ops == 1 && err == oerr && r == oval

//@ func (n *LocalNode) Renew(ctx context.Context, lease []byte, ttl time.Duration, prevToken uint64) (val uint64, err error)
//@   opt frame=off
//@   safety off
//@   use ids48
//@   requires started: n.state != nil && n.state.history != nil && n.ID() < 281474976710656
//@   ghost gates int = 0
//@   ghost gerr error = nil
//@   ghost gval uint64
//@   at call kvMiddleware#*: assert the-gate-decides-on-this-requests-key: callarg0 == ctx && callarg1 == n && callarg2 == lease && gates == 0
//@   at after call kvMiddleware#*: ghost gval := callresult0
//@   at after call kvMiddleware#*: ghost gerr := callresult1
//@   at after call kvMiddleware#*: ghost gates := gates + 1
//@   ensures local-the-gates-answer-is-returned: gates == 1 && err == gerr && val == gval

//@ func (n *LocalNode) Renew$1(ctx context.Context, kv chord.KV, target kvTargetType, id uint64) (r uint64, err error)
//@   opt frame=off
//@   safety off
//@   ghost ops int = 0
//@   ghost oerr error = nil
//@   ghost oval uint64
//@   at call Renew#*: assert one-operation-on-the-store-the-gate-picked-with-the-requests-arguments: any(callrecv) == any(kv) && callarg0 == ctx && callarg1 == lease && callarg2 == ttl && callarg3 == prevToken && ops == 0
//@   at after call Renew#*: ghost oval := callresult0
//@   at after call Renew#*: ghost oerr := callresult1
//@   at after call Renew#*: ghost ops := ops + 1
//@   ensures local-the-stores-answer-is-returned: ops == 1 && err == oerr && r == oval

//@ func (n *LocalNode) Release(ctx context.Context, lease []byte, token uint64) (err error)
//@   opt frame=off
//@   safety off
//@   use ids48
//@   requires started: n.state != nil && n.state.history != nil && n.ID() < 281474976710656
//@   ghost gates int = 0
//@   ghost gerr error = nil
//@   at call kvMiddleware#*: assert the-gate-decides-on-this-requests-key: callarg0 == ctx && callarg1 == n && callarg2 == lease && gates == 0
//@   at after call kvMiddleware#*: ghost gerr := callresult1
//@   at after call kvMiddleware#*: ghost gates := gates + 1
//@   ensures local-the-gates-answer-is-returned: gates == 1 && err == gerr

//@ func (n *LocalNode) Release$1(ctx context.Context, kv chord.KV, target kvTargetType, id uint64) (r any, err error)
//@   opt frame=off
//@   safety off
//@   ghost ops int = 0
//@   ghost oerr error = nil
//@   at call Release#*: assert one-operation-on-the-store-the-gate-picked-with-the-requests-arguments: any(callrecv) == any(kv) && callarg0 == ctx && callarg1 == lease && callarg2 == token && ops == 0
//@   at after call Release#*: ghost oerr := callresult
//@   at after call Release#*: ghost ops := ops + 1
//@   ensures local-the-stores-answer-is-returned: ops == 1 && err == oerr

// the receiving side of a hand-over: a node that is gone refuses (the sender then keeps its keys, see transferKeys*),
// any other node stores exactly what it was sent, under its surrogate write lock, and reports the store's answer
//@ func (n *LocalNode) Import(ctx context.Context, keys [][]byte, values []*protocol.KVTransfer) (err error)
//@   opt frame=off
//@   safety off
//@   requires started: n.state != nil && n.state.history != nil
//@   ghost st chord.State = 0
//@   ghost reads int = 0
//@   ghost locked bool = false
//@   ghost imports int = 0
//@   ghost ierr error = nil
//@   at after call Get#*: ghost st := callresult
//@   at after call Get#*: ghost reads := reads + 1
//@   at call Lock#*: ghost locked := true
//@   at call Import#*: assert stores-exactly-what-was-sent-under-the-surrogate-write-lock-unless-gone: any(callrecv) == any(n.kv) && callarg0 == ctx && callarg1 == keys && callarg2 == values && locked && imports == 0 && reads == 1 && st != chord.Inactive && st != chord.Leaving && st != chord.Left
//@   at after call Import#*: ghost ierr := callresult
//@   at after call Import#*: ghost imports := imports + 1
//@   ensures local-a-node-that-is-gone-refuses-and-stores-nothing: (reads == 1 && (st == chord.Inactive || st == chord.Leaving || st == chord.Left)) ==> (err == chord.ErrNodeGone && imports == 0)
//@   ensures local-otherwise-the-stores-answer-is-returned: (reads == 1 && st != chord.Inactive && st != chord.Leaving && st != chord.Left) ==> (imports == 1 && err == ierr)

// ---- C10: ring-wide listing. Fork/join decomposition (trusted: errgroup, sync.WaitGroup, channel semantics):
//   the ring walk visits successor after successor starting just after the node, refuses a ring that repeats a node
//   before coming back, and ends with the node itself: the list of nodes has pairwise distinct ring ids, the node
//   itself exactly once (last);
//   exactly one listing task is started per listed node with the blocking errgroup.Go (never dropped), each task
//   asks its own node with the direct-target context and the caller's prefix and sends the answer exactly once;
//   the collector appends every received batch; the closer waits for all tasks, then closes the result channel, then
//   waits for the collector, then reports; the caller returns the collected keys only after that report was nil.
//   A directly targeted node lists its own store only while Active, under the surrogate read lock.
//@ func (n *LocalNode) ListKeys(ctx context.Context, prefix []byte) (keys []*protocol.KeyComposite, err error)
//@   opt frame=off
//@   safety off
//@   use ids48
//@   requires started: n.state != nil && n.state.history != nil && n.ID() < 281474976710656
//@   ghost direct bool = false
//@   ghost forks int = 0
//@   ghost ctxOK bool = false
//@   ghost waited int = 0
//@   ghost werr error = nil
//@   at after call GetRequestTarget#1: ghost direct := callresult == protocol.Context_KV_DIRECT_TARGET
//@   at call WithContext#1: assert per-node-requests-are-marked-direct: callarg1 != nil && callarg1.RequestTarget == protocol.Context_KV_DIRECT_TARGET
//@   at call WithContext#1: assert the-walk-ends-with-every-node-once-and-this-node-last: len(nodes) >= 1 && cast(nodes[len(nodes) - 1], "*LocalNode") == n && (forall j int {nodes[j]} :: (0 <= j && j < len(nodes) - 1) ==> (nodes[j] != nil && nodes[j].ID() != n.ID())) && (forall i, j int {nodes[i], nodes[j]} :: (0 <= i && i < j && j < len(nodes) - 1) ==> nodes[i].ID() != nodes[j].ID())
//@   at call WithContext#1: ghost ctxOK := true
//@   at call Go#*: assert one-blocking-task-per-listed-node: ctxOK && forks == rangeindex
//@   at call Go#*: ghost forks := forks + 1
//@   at call TryGo#?: assert listing-tasks-are-never-dropped: false
//@   at after recv#1: ghost werr := callresult
//@   at after recv#1: ghost waited := waited + 1
//@   ensures local-a-ring-wide-listing-returns-only-after-every-task-and-the-collector-finished-without-error: (!direct && err == nil) ==> (waited == 1 && werr == nil && forks >= 1)
//@   loop 1: invariant distinct-nodes-so-far-none-of-them-this-node: seen != nil && next != nil && (forall j int {nodes[j]} :: (0 <= j && j < len(nodes)) ==> (nodes[j] != nil && has(seen, nodes[j].ID()) && seen[nodes[j].ID()] && nodes[j].ID() != n.ID())) && (forall i, j int {nodes[i], nodes[j]} :: (0 <= i && i < j && j < len(nodes)) ==> nodes[i].ID() != nodes[j].ID()) && !direct && !ctxOK && forks == 0 && waited == 0
//@   loop 2: invariant one-task-per-node-so-far: forks == rangeindex + 1 && ctxOK && waited == 0 && !direct

// a directly targeted node lists its own store only while Active, under the surrogate read lock
//@ func (n *LocalNode) ListKeys$1() (keys []*protocol.KeyComposite, err error)
//@   opt frame=off
//@   safety off
//@   requires started: n.state != nil && n.state.history != nil
//@   ghost locked bool = false
//@   ghost st chord.State = 0
//@   ghost reads int = 0
//@   ghost lists int = 0
//@   ghost lkeys []*protocol.KeyComposite
//@   ghost lerr error = nil
//@   at call RLock#*: ghost locked := true
//@   at call Get#*: assert state-read-under-the-lock: locked && reads == 0
//@   at after call Get#*: ghost st := callresult
//@   at after call Get#*: ghost reads := reads + 1
//@   at call ListKeys#*: assert lists-its-own-store-with-the-callers-prefix-while-active: any(callrecv) == any(n.kv) && callarg0 == ctx && callarg1 == prefix && locked && reads == 1 && st == chord.Active && lists == 0
//@   at after call ListKeys#*: ghost lkeys := callresult0
//@   at after call ListKeys#*: ghost lerr := callresult1
//@   at after call ListKeys#*: ghost lists := lists + 1
//@   ensures local-a-node-that-is-not-active-refuses: (reads == 1 && st != chord.Active) ==> (err == chord.ErrKVStaleOwnership && lists == 0)
//@   ensures local-otherwise-the-stores-answer-is-returned: (reads == 1 && st == chord.Active) ==> (lists == 1 && keys == lkeys && err == lerr)

// the collector appends every batch it receives, in order, and calls Done exactly once (deferred)
//@ func (n *LocalNode) ListKeys$2()
//@   opt frame=off
//@   safety off
//@   ghost dones int = 0
//@   ghost batches int = 0
//@   at defer Done#*: assert done-is-deferred-before-collecting: dones == 0 && batches == 0
//@   at defer Done#*: ghost dones := dones + 1
//@   at call append#*: assert every-received-batch-is-appended-to-the-result: callarg0 == keys
//@   at call append#*: ghost batches := batches + 1
//@   ensures local-done-once: dones == 1

// one listing task: asks its own node with the group context and the caller's prefix; an error is returned to the
// group (which cancels the others), an answer is sent exactly once
//@ func (n *LocalNode) ListKeys$3() (err error)
//@   opt frame=off
//@   safety off
//@   ghost lists int = 0
//@   ghost lkeys []*protocol.KeyComposite
//@   ghost lerr error = nil
//@   ghost sends int = 0
//@   at call ListKeys#*: assert asks-its-own-node-with-the-group-context-and-the-callers-prefix: any(callrecv) == any(node) && callarg0 == listCtx && callarg1 == prefix && lists == 0
//@   at after call ListKeys#*: ghost lkeys := callresult0
//@   at after call ListKeys#*: ghost lerr := callresult1
//@   at after call ListKeys#*: ghost lists := lists + 1
//@   at send#*: assert sends-exactly-the-nodes-answer-once: callarg0 == resultCh && callarg1 == lkeys && lists == 1 && lerr == nil && sends == 0
//@   at send#*: ghost sends := sends + 1
//@   ensures local-an-error-goes-to-the-group-an-answer-to-the-collector: lists == 1 && ((lerr != nil) ==> (err == lerr && sends == 0)) && ((lerr == nil) ==> (err == nil && sends == 1))

// the closer: all tasks, then close the result channel, then the collector, then the report
//@ func (n *LocalNode) ListKeys$4()
//@   opt frame=off
//@   safety off
//@   ghost step int = 0
//@   ghost gerr error = nil
//@   at call Wait#1: assert first-wait-for-every-listing-task: step == 0
//@   at after call Wait#1: ghost gerr := callresult
//@   at after call Wait#1: ghost step := 1
//@   at call close#*: assert then-close-the-result-channel: step == 1 && callarg0 == resultCh
//@   at call close#*: ghost step := 2
//@   at call Wait#2: assert then-wait-for-the-collector: step == 2
//@   at call Wait#2: ghost step := 3
//@   at send#*: assert then-report-the-groups-error: step == 3 && callarg0 == gErr && callarg1 == gerr
//@   at send#*: ghost step := 4
//@   ensures local-all-four-steps: step == 4

// ---- C02: the pointer-repair step rules (the rules a convergence argument for Chord rests on; convergence itself
// is a liveness property of the whole ring and is not decided here).
// Notify: a notifier is adopted as predecessor exactly when there is no predecessor, or the current one does not
// answer Ping, or it does and the notifier lies strictly between it and this node; the same notifier again changes
// nothing. The adoption is applied at return only if the pointers still hold the values the decision was based on.
//@ func (n *LocalNode) Notify(predecessor chord.VNode) (err error)
//@   opt frame=off
//@   safety off
//@   use ids48
//@   requires started: n.state != nil && n.state.history != nil && n.ID() < 281474976710656 && predecessor != nil
//@   ghost pings int = 0
//@   ghost perr error = nil
//@   ghost btw bool = false
//@   ghost btws int = 0
//@   ghost locks int = 0
//@   ghost scur chord.VNode = nil
//@   ghost pcur chord.VNode = nil
//@   at call Ping#*: assert pings-the-predecessor-it-knows: any(callrecv) == any(predecessorSnapshot) && pings == 0 && predecessorSnapshot != nil
//@   at after call Ping#*: ghost perr := callresult
//@   at after call Ping#*: ghost pings := pings + 1
//@   at call Between#*: assert closer-means-strictly-between-the-known-predecessor-and-this-node: callarg0 == predecessorSnapshot.ID() && callarg1 == predecessor.ID() && callarg2 == n.ID() && callarg3 == false && pings == 1 && perr == nil
//@   at after call Between#*: ghost btw := callresult
//@   at after call Between#*: ghost btws := btws + 1
//@   at after call Ping#*: havoc n.predecessor, n.surrogate
//@   at $1/call Lock#1: ghost scur := n.surrogate
//@   at $1/call Lock#2: ghost pcur := n.predecessor
//@   at $1/call Lock#*: ghost locks := locks + 1
//@   ensures local-a-node-that-is-not-running-refuses-and-touches-nothing: err != nil ==> (locks == 0 && pings == 0)
//@   ensures local-no-predecessor-adopts-the-notifier: (err == nil && predecessorSnapshot == nil) ==> candidatePredecessor == predecessor
//@   ensures local-the-same-predecessor-again-changes-nothing: (err == nil && predecessorSnapshot != nil && predecessorSnapshot.ID() == predecessor.ID()) ==> (candidatePredecessor == nil && pings == 0)
//@   ensures local-a-dead-predecessor-is-replaced: (pings == 1 && perr != nil) ==> candidatePredecessor == predecessor
//@   ensures local-a-live-predecessor-is-replaced-exactly-by-a-closer-notifier: (pings == 1 && perr == nil) ==> (btws == 1 && (btw ==> candidatePredecessor == predecessor) && (!btw ==> candidatePredecessor == nil))
//@   ensures local-a-different-predecessor-is-pinged: (err == nil && predecessorSnapshot != nil && predecessorSnapshot.ID() != predecessor.ID()) ==> pings == 1
//@   ensures local-no-adoption-touches-no-pointer: (err == nil && candidatePredecessor == nil) ==> locks == 0
//@   ensures local-adoption-is-applied-only-to-unchanged-pointers: (err == nil && candidatePredecessor != nil) ==> (locks == 2 && n.predecessor == (pcur == predecessorSnapshot ? candidatePredecessor : pcur) && n.surrogate == (scur == surrogateSnapshot ? (candidatePredecessor.ID() == n.ID() ? nil : candidatePredecessor) : scur))

// checkPredecessor: the predecessor pointer is cleared only after that very predecessor failed a Ping, and only if
// the pointer still holds it; a missing predecessor or the node itself is never pinged.
//@ func (n *LocalNode) checkPredecessor() (err error)
//@   opt frame=off
//@   safety off
//@   ghost pings int = 0
//@   ghost perr error = nil
//@   ghost locks int = 0
//@   ghost pcur chord.VNode = nil
//@   at call Ping#*: assert pings-the-predecessor-it-read: any(callrecv) == any(pre) && pre != nil && pre.ID() != n.ID() && pings == 0
//@   at after call Ping#*: ghost perr := callresult
//@   at after call Ping#*: ghost pings := pings + 1
//@   at after call Ping#*: havoc n.predecessor
//@   at call Lock#*: ghost pcur := n.predecessor
//@   at call Lock#*: ghost locks := locks + 1
//@   ensures local-nothing-to-check-changes-nothing: pings == 0 ==> (err == nil && locks == 0 && (pre == nil || pre.ID() == n.ID()))
//@   ensures local-a-live-predecessor-is-kept: (pings == 1 && perr == nil) ==> (err == nil && locks == 0)
//@   ensures local-a-dead-predecessor-is-cleared-if-still-current: (pings == 1 && perr != nil) ==> (err == perr && locks == 1 && n.predecessor == (pcur == pre ? nil : pcur))

// stabilize: the new successor list is headed by the first successor that answered both GetPredecessor and
// GetSuccessors (dead heads are skipped in order), or by the node that successor reports as its predecessor when it
// lies strictly between this node and that successor and answers GetSuccessors; the list is stored only when it was
// rebuilt and its hash changed, and the new immediate successor is then notified about this node.
//@ func (n *LocalNode) stabilize() (err error)
//@   opt frame=off
//@   safety off
//@   use ids48
//@   requires started: n.state != nil && n.state.history != nil && n.ID() < 281474976710656
//@   ghost btw bool = false
//@   ghost rebuilt int = 0
//@   ghost stores int = 0
//@   ghost notified int = 0
//@   at call GetPredecessor#*: assert asks-the-current-head: any(callrecv) == any(head) && head != nil && rebuilt == 0
//@   at call GetSuccessors#1: assert asks-the-current-head: any(callrecv) == any(head) && rebuilt == 0
//@   at call MakeSuccListByID#1: assert the-first-answering-successor-heads-the-new-list: any(callarg0) == any(head) && spErr == nil && nsErr == nil && callarg1 == newSuccList && callarg2 == chord.ExtendedSuccessorEntries && rebuilt == 0
//@   at call MakeSuccListByID#1: ghost rebuilt := rebuilt + 1
//@   at call Between#*: assert closer-means-strictly-between-this-node-and-the-head: newSucc != nil && callarg0 == n.ID() && callarg1 == newSucc.ID() && callarg2 == head.ID() && callarg3 == false && rebuilt == 1
//@   at after call Between#*: ghost btw := callresult
//@   at call GetSuccessors#2: assert asks-the-closer-node: any(callrecv) == any(newSucc) && btw && rebuilt == 1
//@   at call MakeSuccListByID#2: assert a-closer-node-that-answers-takes-over-as-head: any(callarg0) == any(newSucc) && btw && nsErr == nil && callarg1 == newSuccList && callarg2 == chord.ExtendedSuccessorEntries && rebuilt == 1
//@   at call MakeSuccListByID#2: ghost rebuilt := rebuilt + 1
//@   at call updateSuccessorsList#*: assert only-a-rebuilt-list-is-stored-with-its-hash: modified && rebuilt >= 1 && callarg1 == listHash && callarg2 == succList && stores == 0
//@   at call updateSuccessorsList#*: ghost stores := stores + 1
//@   at call Notify#*: assert the-new-immediate-successor-is-told-about-this-node: modified && rebuilt >= 1 && len(succList) > 0 && any(callrecv) == any(succList[0]) && cast(callarg0, "*LocalNode") == n && notified == 0
//@   at call Notify#*: ghost notified := notified + 1
//@   ensures local-nothing-answered-nothing-stored: rebuilt == 0 ==> (stores == 0 && notified == 0)
//@   loop 1: invariant dead-heads-are-only-skipped: !modified && rebuilt == 0 && stores == 0 && notified == 0

//@ func (n *LocalNode) updateSuccessorsList(listHash uint64, succList []chord.VNode)
//@   opt frame=off
//@   safety off
//@   ensures stored: n.successors == succList

// fixK: finger k becomes the node FindSuccessor reports for id + 2^(k-1) (mod 2^48); a failed lookup changes nothing
//@ func (n *LocalNode) fixK(k int) (updated bool, err error)
//@   opt frame=off
//@   safety off
//@   use ids48
//@   requires in-range: 1 <= k && k <= 48 && n.ID() < 281474976710656 && n.state != nil
//@   ghost tgt uint64 = 0
//@   ghost looks int = 0
//@   ghost lerr error = nil
//@   ghost lres chord.VNode = nil
//@   ghost updates int = 0
//@   at call ModuloSum#*: assert target-is-the-node-id-plus-the-finger-offset: callarg0 == n.ID()
//@   at after call ModuloSum#*: ghost tgt := callresult
//@   at call FindSuccessor#*: assert looks-up-the-finger-target: callarg1 == tgt && looks == 0
//@   at after call FindSuccessor#*: ghost lres := callresult0
//@   at after call FindSuccessor#*: ghost lerr := callresult1
//@   at after call FindSuccessor#*: ghost looks := looks + 1
//@   at call computeUpdate#*: assert the-entry-of-finger-k-is-updated-after-a-successful-lookup: looks == 1 && lerr == nil && lres != nil && updates == 0
//@   at call computeUpdate#*: ghost updates := updates + 1
//@   ensures local-a-failed-lookup-changes-nothing: (looks == 1 && lerr != nil) ==> (err == lerr && updates == 0)
//@   ensures local-success-means-the-entry-was-visited: err == nil ==> (looks == 1 && updates == 1)
//@   ensures local-every-answered-lookup-reaches-the-entry-also-when-the-answer-is-the-node-itself: (looks == 1 && lerr == nil && lres != nil) ==> (err == nil && updates == 1)

//@ func (n *LocalNode) fixK$1(entry *fingerEntry)
//@   opt frame=off
//@   safety off
//@   requires entry != nil && f != nil
//@   ensures the-finger-points-at-the-looked-up-node-by-id: entry.node != nil && entry.node.ID() == f.ID()
//@   ensures an-entry-with-the-right-id-is-kept: (old(entry.node) != nil && old(entry.node).ID() == f.ID()) ==> entry.node == old(entry.node)
