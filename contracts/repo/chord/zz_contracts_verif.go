//go:build verif

// Contracts for package chord, checked by /verif/bin/specv.
// This file contains no executable code; only the //@ lines are read.
package chord

// ---- C13: node lifecycle state word  (index<<4 | state)

//@ spec stOf(w uint64) uint64 = w & 15
//@ spec idxOf(w uint64) uint64 = w >> 4
//@ spec pack(i uint64, s uint64) uint64 = (i << 4) | s
//@ spec rgWord(o uint64, n uint64) bool = n == o || idxOf(n) > idxOf(o)

//@ lemma bv_pack_injective: forall i, j, s, t uint64 :: (s < 16 && t < 16 && i < 1<<60 && j < 1<<60 && pack(i, s) == pack(j, t)) ==> (i == j && s == t)
//@ lemma bv_pack_unpack: forall i, s uint64 :: (s < 16 && i < 1<<60) ==> (idxOf(pack(i, s)) == i && stOf(pack(i, s)) == s)

//@ func (s *nodeState) Transition(exp chord.State, nxt chord.State) (r chord.State, ok bool)
//@   arith bv
//@   opt rg=rgWord
//@   requires states: exp < 16 && nxt < 16
//@   requires history: s.history != nil
//@   at after call Load#1: assume counter-below-2p60: idxOf(load_seen) < 1<<60 - 1
//@   modifies s.state, s.history.m, s.history.keys
//@   ensures local-cas-expected: ok ==> stOf(cas_seen) == exp
//@   ensures local-cas-next: ok ==> s.state.v == pack(idxOf(cas_seen) + 1, nxt) && r == nxt
//@   ensures local-guarantee: rgWord(cas_seen, s.state.v)
//@   ensures local-history-index: ok ==> s.history.m == upd(old(s.history.m), idxOf(cas_seen) + 1, nxt) && s.history.keys == add(old(s.history.keys), idxOf(cas_seen) + 1)
//@   ensures local-fail-unchanged: !ok ==> s.state.v == cas_seen && s.history.m == old(s.history.m) && s.history.keys == old(s.history.keys)
//@   ensures local-fail-reports-loaded: !ok ==> r == stOf(load_seen)
//@   ensures success-state: ok ==> stOf(s.state.v) == nxt && r == nxt
//@   ensures success-history-tip: ok ==> s.history.keys[idxOf(s.state.v)] && s.history.m[idxOf(s.state.v)] == nxt
//@   ensures local-fail-means-mismatch: !ok ==> (stOf(cas_seen) != exp || idxOf(cas_seen) != idxOf(load_seen))

//@ func (s *nodeState) Get() (r chord.State)
//@   arith bv
//@   opt rg=rgWord
//@   modifies s.state
//@   ensures in-range: r < 16
//@   ensures local-reports-word: r == stOf(load_seen)

//@ func (s *nodeState) Set(val chord.State)
//@   arith bv
//@   requires val < 16 && s.history != nil
//@   modifies s.state, s.history.m, s.history.keys
//@   ensures state-set: stOf(s.state.v) == val
//@   ensures history-tip: s.history.keys[idxOf(s.state.v)] && s.history.m[idxOf(s.state.v)] == val

//@ func newNodeState(initial chord.State) (r *nodeState)
//@   arith bv
//@   requires initial < 16
//@   ensures fresh: r != nil && fresh(r) && r.history != nil
//@   ensures word: r.state.v == pack(0, initial)
//@   ensures history: r.history.keys[0] && r.history.m[0] == initial
//@   ensures history-only-zero: forall k uint64 :: r.history.keys[k] ==> k == 0

// ---- C09 / C01: lookups

//@ pure (*LocalNode).ID

//@ func (n *LocalNode) closestPrecedingNode(key uint64) (r chord.VNode)
//@   arith bv
//@   use ids48
//@   opt inline=fingerRangeView,computeView
//@   requires n.ID() < 1<<48 && key < 1<<48
//@   ensures non-nil: r != nil
//@   ensures self-or-strictly-between: r == n || between48(n.ID(), r.ID(), key, false)
//@   ensures finger-membership: (forall k int :: (1 <= k && k <= 48 && n.fingers[k].node != nil) ==> chord.mem(n.fingers[k].node.ID())) ==> (r == n || chord.mem(r.ID()))
//@   loop fingerRangeView/k: invariant index: 0 <= k && k <= 48
//@   loop fingerRangeView/k: invariant member: (forall j int :: (1 <= j && j <= 48 && n.fingers[j].node != nil) ==> chord.mem(n.fingers[j].node.ID())) ==> (finger == nil || chord.mem(finger.ID()))
//@   loop fingerRangeView/k: invariant candidate: finger == nil || between48(n.ID(), finger.ID(), key, false)

//@ macro localOK(n *LocalNode) bool = chord.mem(n.ID()) && n.predecessor != nil && chord.mem(n.predecessor.ID())
//@      && (forall m uint64 :: (chord.mem(m) && m < 1<<48) ==> !chord.between48(n.predecessor.ID(), m, n.ID(), false))
//@      && len(n.successors) >= 1 && n.successors[0] != nil && n.successors[0].ID() == chord.ownerOf((n.ID() + 1) & (1<<48 - 1))
//@      && (forall k int :: (1 <= k && k <= 48 && n.fingers[k].node != nil) ==> chord.mem(n.fingers[k].node.ID()))

//@ func (n *LocalNode) FindSuccessor(key uint64) (r chord.VNode, err error)
//@   arith bv
//@   use ids48, ring, bv_ring_owner_is_self, bv_ring_owner_is_successor_ne, bv_ring_owner_is_successor_eq, bv_ring_next_id, bv_ring_hop_decreases, bv_ring_successor_hop_decreases
//@   opt opaque=dist48,between48
//@   opt recursion=lookup
//@   opt inline=checkNodeState,getPredecessor,getSuccessor
//@   requires n.ID() < 1<<48 && key < 1<<48 && n.state != nil
//@   modifies nodeState.state
//@   decreases dist48(n.ID() + 1, key)
//@   ensures non-nil-result: err == nil ==> r != nil
//@   ensures owner-on-stable-ring: (chord.stableRing() && old(localOK(n)) && err == nil) ==> r.ID() == chord.ownerOf(key)
//@   at return#2: assert hint-owner-member: localOK(n) ==> (chord.mem(chord.ownerOf(key)) && chord.ownerOf(key) < 1<<48)
//@   at return#2: assert hint-owner-not-inside: localOK(n) ==> !chord.between48(n.predecessor.ID(), chord.ownerOf(key), n.ID(), false)
//@   at return#2: assert hint-owner-closest: localOK(n) ==> chord.dist48(key, chord.ownerOf(key)) <= chord.dist48(key, n.ID())
//@   at return#4: assert hint-owner-member: localOK(n) ==> (chord.mem(chord.ownerOf(key)) && chord.ownerOf(key) < 1<<48 && chord.mem(n.successors[0].ID()))
//@   at return#4: assert hint-successor-closest: localOK(n) ==> chord.dist48((n.ID() + 1) & (1<<48 - 1), n.successors[0].ID()) <= chord.dist48((n.ID() + 1) & (1<<48 - 1), chord.ownerOf(key))
//@   at return#4: assert hint-owner-closest: localOK(n) ==> chord.dist48(key, chord.ownerOf(key)) <= chord.dist48(key, n.successors[0].ID())

// ---- C08: a join request is answered in every neighbour-pointer state

//@ func (n *LocalNode) RequestToJoin(joiner chord.VNode) (pred chord.VNode, succs []chord.VNode, err error)
//@   opt frame=off
//@   use ids48
//@   safety nil,bounds,assert,panic
//@   requires valid-joiner: joiner != nil && n.ID() < 281474976710656 && joiner.ID() < 281474976710656
//@   requires started: n.state != nil && n.state.history != nil
//@   ghost local bool = false
//@   at call Lock#1: ghost local := true
//@   ensures local-handling-is-success-or-retryable: local ==> (err == nil || chord.retryableChord(err))
//@   ensures success-hands-over: (local && err == nil) ==> (len(succs) >= 1 && n.predecessor == joiner && n.surrogate == joiner)
//@   ensures refusal-changes-no-pointer: (local && err != nil) ==> (n.predecessor == old(n.predecessor) && n.surrogate == old(n.surrogate))

// ---- C14: every RemoteNode method maps the RPC error with chord.ErrorMapper

//@ func (n *RemoteNode) Ping() (err any)
//@   safety off
//@   opt frame=off
//@   ghost rpcErr error = nil
//@   at after call Ping#1: ghost rpcErr := callresult1
//@   ensures rpc-errors-are-mapped: rpcErr != nil ==> err == chord.ErrorMapper(rpcErr)
//@   ensures rpc-success-is-not-an-error-of-the-call: (rpcErr == nil && err != nil) ==> true

//@ func (n *RemoteNode) Notify() (err any)
//@   safety off
//@   opt frame=off
//@   ghost rpcErr error = nil
//@   at after call Notify#1: ghost rpcErr := callresult1
//@   ensures rpc-errors-are-mapped: rpcErr != nil ==> err == chord.ErrorMapper(rpcErr)
//@   ensures rpc-success-is-not-an-error-of-the-call: (rpcErr == nil && err != nil) ==> true

//@ func (n *RemoteNode) FindSuccessor() (r0 any, err any)
//@   safety off
//@   opt frame=off
//@   ghost rpcErr error = nil
//@   at after call FindSuccessor#1: ghost rpcErr := callresult1
//@   ensures rpc-errors-are-mapped: rpcErr != nil ==> err == chord.ErrorMapper(rpcErr)
//@   ensures rpc-success-is-not-an-error-of-the-call: (rpcErr == nil && err != nil) ==> true

//@ func (n *RemoteNode) GetSuccessors() (r0 any, err any)
//@   safety off
//@   opt frame=off
//@   ghost rpcErr error = nil
//@   at after call GetSuccessors#1: ghost rpcErr := callresult1
//@   ensures rpc-errors-are-mapped: rpcErr != nil ==> err == chord.ErrorMapper(rpcErr)
//@   ensures rpc-success-is-not-an-error-of-the-call: (rpcErr == nil && err != nil) ==> true

//@ func (n *RemoteNode) GetPredecessor() (r0 any, err any)
//@   safety off
//@   opt frame=off
//@   ghost rpcErr error = nil
//@   at after call GetPredecessor#1: ghost rpcErr := callresult1
//@   ensures rpc-errors-are-mapped: rpcErr != nil ==> err == chord.ErrorMapper(rpcErr)
//@   ensures rpc-success-is-not-an-error-of-the-call: (rpcErr == nil && err != nil) ==> true

//@ func (n *RemoteNode) Put() (err any)
//@   safety off
//@   opt frame=off
//@   ghost rpcErr error = nil
//@   at after call Put#1: ghost rpcErr := callresult1
//@   ensures rpc-errors-are-mapped: rpcErr != nil ==> err == chord.ErrorMapper(rpcErr)
//@   ensures rpc-success-is-not-an-error-of-the-call: (rpcErr == nil && err != nil) ==> true

//@ func (n *RemoteNode) Get() (r0 any, err any)
//@   safety off
//@   opt frame=off
//@   ghost rpcErr error = nil
//@   at after call Get#1: ghost rpcErr := callresult1
//@   ensures rpc-errors-are-mapped: rpcErr != nil ==> err == chord.ErrorMapper(rpcErr)
//@   ensures rpc-success-is-not-an-error-of-the-call: (rpcErr == nil && err != nil) ==> true

//@ func (n *RemoteNode) Delete() (err any)
//@   safety off
//@   opt frame=off
//@   ghost rpcErr error = nil
//@   at after call Delete#1: ghost rpcErr := callresult1
//@   ensures rpc-errors-are-mapped: rpcErr != nil ==> err == chord.ErrorMapper(rpcErr)
//@   ensures rpc-success-is-not-an-error-of-the-call: (rpcErr == nil && err != nil) ==> true

//@ func (n *RemoteNode) PrefixAppend() (err any)
//@   safety off
//@   opt frame=off
//@   ghost rpcErr error = nil
//@   at after call Append#1: ghost rpcErr := callresult1
//@   ensures rpc-errors-are-mapped: rpcErr != nil ==> err == chord.ErrorMapper(rpcErr)
//@   ensures rpc-success-is-not-an-error-of-the-call: (rpcErr == nil && err != nil) ==> true

//@ func (n *RemoteNode) PrefixList() (r0 any, err any)
//@   safety off
//@   opt frame=off
//@   ghost rpcErr error = nil
//@   at after call List#1: ghost rpcErr := callresult1
//@   ensures rpc-errors-are-mapped: rpcErr != nil ==> err == chord.ErrorMapper(rpcErr)
//@   ensures rpc-success-is-not-an-error-of-the-call: (rpcErr == nil && err != nil) ==> true

//@ func (n *RemoteNode) PrefixContains() (r0 any, err any)
//@   safety off
//@   opt frame=off
//@   ghost rpcErr error = nil
//@   at after call Contains#1: ghost rpcErr := callresult1
//@   ensures rpc-errors-are-mapped: rpcErr != nil ==> err == chord.ErrorMapper(rpcErr)
//@   ensures rpc-success-is-not-an-error-of-the-call: (rpcErr == nil && err != nil) ==> true

//@ func (n *RemoteNode) PrefixRemove() (err any)
//@   safety off
//@   opt frame=off
//@   ghost rpcErr error = nil
//@   at after call Remove#1: ghost rpcErr := callresult1
//@   ensures rpc-errors-are-mapped: rpcErr != nil ==> err == chord.ErrorMapper(rpcErr)
//@   ensures rpc-success-is-not-an-error-of-the-call: (rpcErr == nil && err != nil) ==> true

//@ func (n *RemoteNode) Acquire() (r0 any, err any)
//@   safety off
//@   opt frame=off
//@   ghost rpcErr error = nil
//@   at after call Acquire#1: ghost rpcErr := callresult1
//@   ensures rpc-errors-are-mapped: rpcErr != nil ==> err == chord.ErrorMapper(rpcErr)
//@   ensures rpc-success-is-not-an-error-of-the-call: (rpcErr == nil && err != nil) ==> true

//@ func (n *RemoteNode) Renew() (r0 any, err any)
//@   safety off
//@   opt frame=off
//@   ghost rpcErr error = nil
//@   at after call Renew#1: ghost rpcErr := callresult1
//@   ensures rpc-errors-are-mapped: rpcErr != nil ==> err == chord.ErrorMapper(rpcErr)
//@   ensures rpc-success-is-not-an-error-of-the-call: (rpcErr == nil && err != nil) ==> true

//@ func (n *RemoteNode) Release() (err any)
//@   safety off
//@   opt frame=off
//@   ghost rpcErr error = nil
//@   at after call Release#1: ghost rpcErr := callresult1
//@   ensures rpc-errors-are-mapped: rpcErr != nil ==> err == chord.ErrorMapper(rpcErr)
//@   ensures rpc-success-is-not-an-error-of-the-call: (rpcErr == nil && err != nil) ==> true

//@ func (n *RemoteNode) Import() (err any)
//@   safety off
//@   opt frame=off
//@   ghost rpcErr error = nil
//@   at after call Import#1: ghost rpcErr := callresult1
//@   ensures rpc-errors-are-mapped: rpcErr != nil ==> err == chord.ErrorMapper(rpcErr)
//@   ensures rpc-success-is-not-an-error-of-the-call: (rpcErr == nil && err != nil) ==> true

//@ func (n *RemoteNode) ListKeys() (r0 any, err any)
//@   safety off
//@   opt frame=off
//@   ghost rpcErr error = nil
//@   at after call ListKeys#1: ghost rpcErr := callresult1
//@   ensures rpc-errors-are-mapped: rpcErr != nil ==> err == chord.ErrorMapper(rpcErr)
//@   ensures rpc-success-is-not-an-error-of-the-call: (rpcErr == nil && err != nil) ==> true

//@ func (n *RemoteNode) RequestToJoin() (r0 any, r1 any, err any)
//@   safety off
//@   opt frame=off
//@   ghost rpcErr error = nil
//@   at after call RequestToJoin#1: ghost rpcErr := callresult1
//@   ensures rpc-errors-are-mapped: rpcErr != nil ==> err == chord.ErrorMapper(rpcErr)
//@   ensures rpc-success-is-not-an-error-of-the-call: (rpcErr == nil && err != nil) ==> true

//@ func (n *RemoteNode) FinishJoin() (err any)
//@   safety off
//@   opt frame=off
//@   ghost rpcErr error = nil
//@   at after call FinishJoin#1: ghost rpcErr := callresult1
//@   ensures rpc-errors-are-mapped: rpcErr != nil ==> err == chord.ErrorMapper(rpcErr)
//@   ensures rpc-success-is-not-an-error-of-the-call: (rpcErr == nil && err != nil) ==> true

//@ func (n *RemoteNode) RequestToLeave() (err any)
//@   safety off
//@   opt frame=off
//@   ghost rpcErr error = nil
//@   at after call RequestToLeave#1: ghost rpcErr := callresult1
//@   ensures rpc-errors-are-mapped: rpcErr != nil ==> err == chord.ErrorMapper(rpcErr)
//@   ensures rpc-success-is-not-an-error-of-the-call: (rpcErr == nil && err != nil) ==> true

//@ func (n *RemoteNode) FinishLeave() (err any)
//@   safety off
//@   opt frame=off
//@   ghost rpcErr error = nil
//@   at after call FinishLeave#1: ghost rpcErr := callresult1
//@   ensures rpc-errors-are-mapped: rpcErr != nil ==> err == chord.ErrorMapper(rpcErr)
//@   ensures rpc-success-is-not-an-error-of-the-call: (rpcErr == nil && err != nil) ==> true
