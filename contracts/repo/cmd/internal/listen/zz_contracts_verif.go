//go:build verif

// Contracts for package listen, checked by /verif/bin/specv.
// This file contains no executable code; only the //@ lines are read.
package listen

// ---- C47: listen address normalization

//@ func overrideHostIPVersion(host string, version IPVersion) (r IPVersion)
//@   pure
//@   ensures fly-host-is-ipv4: r == (host == FlyGlobalServicesHost ? IPV4 : version)

//@ func NetworkForVersion(proto string, version IPVersion) (r string)
//@   pure
//@   ensures local-suffix-by-family: r == (version == IPV4 ? proto + "4" : (version == IPV6 ? proto + "6" : proto))

//@ func ClassifyIPVersion(host string) (r IPVersion)
//@   pure
//@   ensures not-an-ip: net.ParseIP(host) == nil ==> r == IPAny
//@   ensures ip-family: net.ParseIP(host) != nil ==> r == (net.ParseIP(host).To4() != nil ? IPV4 : IPV6)

//@ func coalesceAddrs(addrs []string) (r []string)
//@   opt strings=abstract
//@   ghost src gmap[int]int
//@   ghost inv gmap[int]int
//@   at call append#1: ghost src[len(out)] := rangeindex
//@   at call append#1: ghost inv[rangeindex] := len(out)
//@   ensures fresh-result: fresh(r) && unchanged(addrs)
//@   ensures no-blanks: forall a int :: 0 <= a && a < len(r) ==> r[a] != ""
//@   ensures local-trimmed-inputs-in-order: forall a int :: 0 <= a && a < len(r) ==> (0 <= src[a] && src[a] < len(addrs) && r[a] == strings.TrimSpace(addrs[src[a]]))
//@   ensures local-order-preserved: forall a, b int :: 0 <= a && a < b && b < len(r) ==> src[a] < src[b]
//@   ensures local-every-non-blank-kept: forall i int :: (0 <= i && i < len(addrs) && strings.TrimSpace(addrs[i]) != "") ==> (0 <= inv[i] && inv[i] < len(r) && src[inv[i]] == i)
//@   ensures empty-iff-all-blank: (len(r) == 0) == (forall i int :: 0 <= i && i < len(addrs) ==> strings.TrimSpace(addrs[i]) == "")
//@   loop v: invariant idx: -1 <= rangeindex && rangeindex < len(addrs) && 0 <= len(out) && len(out) <= rangeindex + 1
//@   loop v: invariant own: fresh(out) && unchanged(addrs)
//@   loop v: invariant no-blanks: forall a int :: 0 <= a && a < len(out) ==> out[a] != ""
//@   loop v: invariant src: forall a int :: 0 <= a && a < len(out) ==> (0 <= src[a] && src[a] <= rangeindex && out[a] == strings.TrimSpace(addrs[src[a]]))
//@   loop v: invariant mono: forall a, b int :: 0 <= a && a < b && b < len(out) ==> src[a] < src[b]
//@   loop v: invariant kept: forall i int :: (0 <= i && i <= rangeindex && strings.TrimSpace(addrs[i]) != "") ==> (0 <= inv[i] && inv[i] < len(out) && src[inv[i]] == i)
//@   loop v: invariant empty: (len(out) == 0) == (forall i int :: 0 <= i && i <= rangeindex ==> strings.TrimSpace(addrs[i]) == "")

//@ func ParseAddresses(proto string, baseAddrs []string, overrides []string) (r []Address, err error)
//@   opt frame=off
//@   opt strings=abstract
//@   ghost base []string
//@   ghost over []string
//@   ghost src gmap[int]int
//@   ghost splitFailed bool = false
//@   ghost badHost bool = false
//@   at after call coalesceAddrs#1: ghost base := callresult
//@   at after call coalesceAddrs#2: ghost over := callresult
//@   at call append#1: ghost src[len(out)] := rangeindex
//@   at return#2: ghost splitFailed := true
//@   at return#3: ghost badHost := true
//@   ensures override-replaces-base: err == nil ==> (forall k int :: 0 <= k && k < len(r) ==> (0 <= src[k] && src[k] < len(addrs) && r[k].Address == addrs[src[k]])) && addrs == (len(over) > 0 ? over : base)
//@   ensures error-only-when-justified: (err != nil && !splitFailed && !badHost) ==> (len(base) == 0 && len(over) == 0)
//@   ensures empty-input-is-an-error: (len(base) == 0 && len(over) == 0) ==> err != nil
//@   ensures first-seen-order: err == nil ==> (forall a, b int :: 0 <= a && a < b && b < len(r) ==> src[a] < src[b])
//@   ensures no-duplicates: err == nil ==> (forall a, b int :: 0 <= a && a < b && b < len(r) ==> r[a].Address != r[b].Address)
//@   ensures only-ip-or-fly-hosts: err == nil ==> (forall k int :: 0 <= k && k < len(r) ==> (r[k].Host == "" || net.ParseIP(r[k].Host) != nil || r[k].Host == FlyGlobalServicesHost))
//@   ensures family-and-network: err == nil ==> (forall k int :: 0 <= k && k < len(r) ==> (r[k].Version == overrideHostIPVersion(r[k].Host, ClassifyIPVersion(r[k].Host)) && r[k].Network == NetworkForVersion(proto, r[k].Version)))
//@   loop a: invariant idx: -1 <= rangeindex && rangeindex < len(addrs) && 0 <= len(out) && len(out) <= rangeindex + 1
//@   loop a: invariant own: fresh(out) && fresh(seen) && unchanged(addrs) && addrs == (len(over) > 0 ? over : base) && !splitFailed && !badHost
//@   loop a: invariant src: forall k int :: 0 <= k && k < len(out) ==> (0 <= src[k] && src[k] <= rangeindex && out[k].Address == addrs[src[k]])
//@   loop a: invariant mono: forall a1, b1 int :: 0 <= a1 && a1 < b1 && b1 < len(out) ==> src[a1] < src[b1]
//@   loop a: invariant seen-sub: forall k int :: 0 <= k && k < len(out) ==> has(seen, out[k].Address)
//@   loop a: invariant nodup: forall a1, b1 int :: 0 <= a1 && a1 < b1 && b1 < len(out) ==> out[a1].Address != out[b1].Address
//@   loop a: invariant hosts: forall k int :: 0 <= k && k < len(out) ==> (out[k].Host == "" || net.ParseIP(out[k].Host) != nil || out[k].Host == FlyGlobalServicesHost)
//@   loop a: invariant family: forall k int :: 0 <= k && k < len(out) ==> out[k].Version == overrideHostIPVersion(out[k].Host, ClassifyIPVersion(out[k].Host))
//@   loop a: invariant network: forall k int :: 0 <= k && k < len(out) ==> out[k].Network == NetworkForVersion(proto, out[k].Version)

// second contract of the same function: every (distinct) input address is kept
//@ func ParseAddresses@coverage(proto string, baseAddrs []string, overrides []string) (r []Address, err error)
//@   opt frame=off
//@   opt strings=abstract
//@   ghost where gmap[string]int
//@   ghost pos gmap[int]int
//@   at lookup#1: ghost pos[rangeindex] := where[a]
//@   at mapupdate#1: ghost where[a] := len(out)
//@   at mapupdate#1: ghost pos[rangeindex] := len(out)
//@   ensures every-address-kept: err == nil ==> (forall i int {pos[i]} :: 0 <= i && i < len(addrs) ==> (0 <= pos[i] && pos[i] < len(r) && r[pos[i]].Address == addrs[i]))
//@   loop a: invariant idx: -1 <= rangeindex && rangeindex < len(addrs) && 0 <= len(out) && len(out) <= rangeindex + 1
//@   loop a: invariant own: fresh(out) && fresh(seen) && unchanged(addrs)
//@   loop a: invariant where: forall s string {where[s]} :: has(seen, s) ==> (0 <= where[s] && where[s] < len(out) && out[where[s]].Address == s)
//@   loop a: invariant covered: forall i int {pos[i]} :: 0 <= i && i <= rangeindex ==> (0 <= pos[i] && pos[i] < len(out) && out[pos[i]].Address == addrs[i])
