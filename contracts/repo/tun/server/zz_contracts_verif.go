//go:build verif

// Contracts for package server (tun/server), checked by /verif/bin/specv.
// This file contains no executable code; only the //@ lines are read.
package server

// ---- C28: route lookup classification and cache lifetimes

//@ spec allNotFound(e gmap[int]error) bool = forall i int :: 0 <= i && i < 3 ==> e[i] == fs.ErrNotExist
//@ spec allFailed(e gmap[int]error) bool = forall i int :: 0 <= i && i < 3 ==> (e[i] != nil && e[i] != fs.ErrNotExist)

//@ func (s *Server) routeCacheLoader(ctx context.Context, hostname string) (ret theine.Loaded[routesResult], loadErr error)
//@   safety off
//@   opt frame=off
//@   ghost r0 gmap[int]*protocol.TunnelRoute
//@   ghost e0 gmap[int]error
//@   at after call All#1: ghost r0 := snap(callresult0)
//@   at after call All#1: ghost e0 := snap(callresult1)
//@   ensures never-errors: loadErr == nil
//@   ensures not-found: allNotFound(e0) ==> (ret.Value.err == tun.ErrDestinationNotFound && ret.TTL == routeNegativeTTL && len(ret.Value.routes) == 0)
//@   ensures lookup-failed: allFailed(e0) ==> (ret.Value.err == tun.ErrLookupFailed && ret.TTL == routeFailedTTL && len(ret.Value.routes) == 0)
//@   ensures otherwise-positive: (!allNotFound(e0) && !allFailed(e0)) ==> (ret.Value.err == nil && ret.TTL == routePositiveTTL)
//@   ensures routes-non-nil: forall a int :: 0 <= a && a < len(ret.Value.routes) ==> ret.Value.routes[a] != nil
//@   ensures ttl-order: routeFailedTTL < routeNegativeTTL && routeNegativeTTL < routePositiveTTL
//@   loop err: invariant idx: -1 <= rangeindex#2 && rangeindex#2 < len(errors) && len(errors) == 3 && numLookup == 3
//@   loop err: invariant counts: 0 <= numNotFound && numNotFound <= rangeindex#2 + 1 && 0 <= numError && numError <= rangeindex#2 + 1
//@   loop err: invariant nf: (numNotFound == rangeindex#2 + 1) == (forall j int :: 0 <= j && j <= rangeindex#2 ==> errors[j] == fs.ErrNotExist)
//@   loop err: invariant fl: (numError == rangeindex#2 + 1) == (forall j int :: 0 <= j && j <= rangeindex#2 ==> (errors[j] != nil && errors[j] != fs.ErrNotExist))
//@   loop err: invariant same: forall j int :: 0 <= j && j < 3 ==> errors[j] == e0[j]
//@   loop route: invariant idx: -1 <= rangeindex#3 && rangeindex#3 < len(routes) && len(routes) == 3
//@   loop route: invariant alias: sameBacking(filtered, routes) && 0 <= len(filtered) && len(filtered) <= rangeindex#3 + 1 && cap(filtered) == cap(routes)
//@   loop route: invariant nonnil: forall a int :: 0 <= a && a < len(filtered) ==> filtered[a] != nil
//@   loop 4: invariant nonnil: forall a int :: 0 <= a && a < len(filtered) ==> filtered[a] != nil
//@   loop 4: invariant idx: len(filtered) <= i#2 && sameBacking(filtered, routes)

// one lookup job of routeCacheLoader (slot k): a route is returned exactly when no error is
//@ func (s *Server) routeCacheLoader$2(ctx context.Context) (r *protocol.TunnelRoute, err error)
//@   safety off
//@   opt frame=off
//@   ensures route-iff-no-error: (r != nil) == (err == nil)
//@   ensures fresh-route: r != nil ==> fresh(r)

// ---- C29/C30: who may use a custom hostname
//@ pure (*go.miragespace.co/specter/spec/protocol.CustomHostname).GetClientToken
//@ pure (*go.miragespace.co/specter/spec/protocol.CustomHostname).GetClientIdentity
//@ pure (*go.miragespace.co/specter/spec/protocol.ClientToken).GetToken
//@ pure (*go.miragespace.co/specter/spec/protocol.Node).GetId
//@ pure (*go.miragespace.co/specter/spec/protocol.Node).GetAddress
//@ macro boundTo(b *protocol.CustomHostname, token *protocol.ClientToken, client *protocol.Node) bool = bytes.Equal(b.GetClientToken().GetToken(), token.GetToken()) && b.GetClientIdentity().GetId() == client.GetId() && b.GetClientIdentity().GetAddress() == client.GetAddress()

//@ func (s *Server) checkAcme(ctx context.Context, hostname string, proof *protocol.ProofOfWork, token *protocol.ClientToken, client *protocol.Node) (found bool, err error)
//@   safety off
//@   opt frame=off
//@   requires s.Chord != nil
//@   ensures read-only: s.Chord.kvWrites == old(s.Chord.kvWrites)
//@   ghost perr error = nil
//@   ghost looked bool = false
//@   ghost ferr error = nil
//@   ghost b *protocol.CustomHostname = nil
//@   at call VerifySolution#1: assert proof-is-checked-for-this-hostname-with-the-acme-parameters: callarg0 == proof && callarg1.Difficulty == acme.HashcashDifficulty && callarg1.Expires == acme.HashcashExpires
//@   at after call VerifySolution#1: ghost perr := callresult1
//@   at call FindCustomHostname#1: assert binding-is-looked-up-only-for-an-admissible-hostname-with-valid-proof: perr == nil && !contains(hostname, s.Acme) && !contains(hostname, s.Apex) && strCount(hostname, ".") >= 2 && callarg1 == s.Chord && callarg2 == hostname
//@   at after call FindCustomHostname#1: ghost ferr := callresult1
//@   at after call FindCustomHostname#1: ghost b := callresult0
//@   at after call FindCustomHostname#1: ghost looked := true
//@   ensures local-invalid-proof-is-refused: perr != nil ==> (!found && err != nil)
//@   ensures reserved-zones-are-refused: (contains(hostname, s.Acme) || contains(hostname, s.Apex)) ==> (!found && err != nil)
//@   ensures bare-domains-are-refused: strCount(hostname, ".") < 2 ==> (!found && err != nil)
//@   ensures local-found-means-bound-to-this-client: found ==> (err == nil && looked && ferr == nil && boundTo(b, token, client))
//@   ensures local-bound-to-another-client-is-refused: (looked && ferr == nil && !boundTo(b, token, client)) ==> (!found && err != nil)
//@   ensures local-unbound-hostname-is-not-found: (looked && ferr == tun.ErrHostnameNotFound) ==> (!found && err == nil)
//@   ensures local-lookup-failure-is-an-error: (looked && ferr != nil && ferr != tun.ErrHostnameNotFound) ==> (!found && err != nil)
//@   ensures found-implies-no-error: found ==> err == nil

// ---- C30: keyless TLS
//@ macro remainingAfterSkew(leaf *x509.Certificate, now time.Time) int64 = leaf.NotAfter.UnixNano() - 60000000000 - now.UnixNano()

//@ func computeKeylessTTL(cert *tls.Certificate, now time.Time) (r time.Duration)
//@   safety off
//@   opt frame=off
//@   ghost used *x509.Certificate = nil
//@   at call Add#1: assert the-parsed-leaf-is-preferred: (cert.Leaf != nil ==> leaf == cert.Leaf) && callarg1 == -60000000000
//@   at call Add#1: ghost used := leaf
//@   ghost parses int = 0
//@   ghost parsed0 *x509.Certificate = nil
//@   ghost perr error = nil
//@   at call ParseCertificate#1: assert only-a-missing-leaf-is-parsed-from-the-first-chain-entry: cert.Leaf == nil && len(cert.Certificate) > 0 && callarg0 == cert.Certificate[0] && parses == 0
//@   at after call ParseCertificate#1: ghost parsed0 := callresult0
//@   at after call ParseCertificate#1: ghost perr := callresult1
//@   at after call ParseCertificate#1: ghost parses := parses + 1
//@   ensures local-a-leaf-that-parses-decides-the-ttl: (parses == 1 && perr == nil) ==> used == parsed0
//@   ensures local-a-missing-leaf-is-parsed-when-the-chain-has-an-entry: (cert != nil && cert.Leaf == nil && len(cert.Certificate) > 0) ==> parses == 1
//@   ensures always-positive-and-capped: 0 < r && r <= keylessPositiveTTL
//@   ensures never-past-expiry-minus-skew: (cert != nil && cert.Leaf != nil && remainingAfterSkew(cert.Leaf, now) > 0) ==> r <= remainingAfterSkew(cert.Leaf, now)
//@   ensures expired-certificate-gets-the-minimum: (cert != nil && cert.Leaf != nil && remainingAfterSkew(cert.Leaf, now) <= 0) ==> r == 1000000000
//@   ensures local-same-for-a-leaf-parsed-on-the-fly: used != nil ==> ((remainingAfterSkew(used, now) > 0 ==> r <= remainingAfterSkew(used, now)) && (remainingAfterSkew(used, now) <= 0 ==> r == 1000000000))

//@ func (s *Server) keylessCertLoader(ctx context.Context, hostname string) (ret theine.Loaded[keylessCertResult], loadErr error)
//@   safety off
//@   opt frame=off
//@   ghost ttl0 time.Duration = 0
//@   ghost computed bool = false
//@   ghost got *tls.Certificate = nil
//@   at after call GetCertificateWithContext#1: ghost got := callresult0
//@   ghost fetched int = 0
//@   ghost clock time.Time
//@   ghost clockAfterFetch bool = false
//@   at after call GetCertificateWithContext#*: ghost fetched := fetched + 1
//@   at after call Now#*: ghost clock := callresult
//@   at after call Now#*: ghost clockAfterFetch := fetched == 1
//@   at call computeKeylessTTL#1: assert the-ttl-is-measured-from-a-clock-read-after-the-provider-returned: clockAfterFetch && callarg1 == clock
//@   at call computeKeylessTTL#1: assert ttl-is-computed-for-the-returned-certificate: callarg0 == got && got != nil
//@   at after call computeKeylessTTL#1: ghost ttl0 := callresult
//@   at after call computeKeylessTTL#1: ghost computed := true
//@   ensures never-errors: loadErr == nil
//@   ensures ttl-always-positive: ret.TTL > 0
//@   ensures local-cached-certificate-lives-no-longer-than-computed: ret.Value.cert != nil ==> (computed && ret.Value.cert == got && ret.TTL == ttl0 && ret.Value.err == nil)
//@   ensures failures-are-cached-briefly: ret.Value.cert == nil ==> (ret.Value.err != nil && ret.TTL == keylessFailedTTL)
//@   ensures ttl-order: keylessFailedTTL < keylessPositiveTTL

//@ func (s *Server) getCertificate(ctx context.Context, proof *protocol.ProofOfWork, hostname string) (cert *tls.Certificate, err error)
//@   safety off
//@   opt frame=off
//@   requires s.Chord != nil
//@   ghost aerr error = nil
//@   ghost nerr error = nil
//@   ghost cerr error = nil
//@   ghost bound bool = false
//@   ghost served bool = false
//@   at after call extractAuthenticated#1: ghost aerr := callresult2
//@   at after call Normalize#1: ghost nerr := callresult1
//@   at call checkAcme#1: assert binding-checked-for-the-normalized-name-and-the-callers-identity: aerr == nil && nerr == nil && callarg2 == normalized && callarg3 == proof && callarg4 == token && callarg5 == client
//@   at after call checkAcme#1: ghost cerr := callresult1
//@   at after call checkAcme#1: ghost bound := callresult0
//@   at call Get#1: assert certificate-only-for-the-bound-client-with-valid-proof: aerr == nil && nerr == nil && cerr == nil && bound && callarg2 == normalized
//@   at call Get#1: ghost served := true
//@   ensures local-success-only-through-the-binding-check: err == nil ==> served
//@   ensures local-unbound-or-foreign-hostname-is-refused: (aerr == nil && nerr == nil && cerr == nil && !bound) ==> (err != nil && cert == nil && !served)

//@ func (s *Server) Sign(ctx context.Context, req *protocol.KeylessSignRequest) (resp *protocol.KeylessSignResponse, err error)
//@   safety off
//@   opt frame=off
//@   requires req != nil && s.Chord != nil
//@   ghost gerr error = nil
//@   ghost signed bool = false
//@   at after call getCertificate#1: ghost gerr := callresult1
//@   at call getCertificate#1: assert certificate-is-requested-with-the-callers-proof-and-hostname: callarg2 == req.Proof && callarg3 == req.Hostname
//@   at call Sign#1: assert signs-only-with-a-certificate-a-supported-hash-and-an-exact-length-digest: gerr == nil && callarg1 == req.Digest && ((req.Algo == protocol.KeylessSignRequest_SHA256 && len(req.Digest) == 32) || (req.Algo == protocol.KeylessSignRequest_SHA384 && len(req.Digest) == 48) || (req.Algo == protocol.KeylessSignRequest_SHA512 && len(req.Digest) == 64))
//@   at call Sign#1: ghost signed := true
//@   ensures local-success-means-signed: err == nil ==> signed

// ---- C25: every tunnel / keyless RPC except Ping and RegisterIdentity needs a verified certificate whose
// token is registered; a refused call issues no mutating KV request.
//@ func extractAuthenticated(ctx context.Context) (tok *protocol.ClientToken, node *protocol.Node, err error)
//@   safety off
//@   opt frame=off
//@   ghost d *transport.StreamDelegate = nil
//@   ghost looked bool = false
//@   ghost ierr error = nil
//@   ghost id *pki.Identity = nil
//@   at after call GetDelegation#1: ghost d := callresult
//@   at call ExtractCertificateIdentity#1: assert identity-comes-from-the-verified-certificate: d != nil && d.Certificate != nil && callarg0 == d.Certificate
//@   at after call ExtractCertificateIdentity#1: ghost ierr := callresult1
//@   at after call ExtractCertificateIdentity#1: ghost id := callresult0
//@   at after call ExtractCertificateIdentity#1: ghost looked := true
//@   ensures local-no-certificate-no-identity: (d == nil || d.Certificate == nil || ierr != nil) ==> (err != nil && tok == nil && node == nil)
//@   ensures local-identity-is-the-certificates: err == nil ==> (looked && ierr == nil && tok != nil && fresh(tok) && tok.Token == id.Token)
//@   ensures refused-has-no-identity: err != nil ==> (tok == nil && node == nil)
//@   ensures success-has-a-token: err == nil ==> tok != nil

//@ func (s *Server) getClientByToken(ctx context.Context, token *protocol.ClientToken) (cli *protocol.Node, err error)
//@   safety off
//@   opt frame=off
//@   requires s.Chord != nil
//@   ghost gerr error = nil
//@   ghost n int = -1
//@   at after call Get#1: ghost gerr := callresult1
//@   at after call Get#1: ghost n := len(callresult0)
//@   ensures local-an-empty-or-unreadable-registration-is-no-registration: (gerr != nil || n == 0) ==> (err != nil && cli == nil)
//@   ensures read-only: s.Chord.kvWrites == old(s.Chord.kvWrites)
//@   ensures refused-has-no-client: err != nil ==> cli == nil

//@ func (s *Server) saveClientToken(ctx context.Context, token *protocol.ClientToken, client *protocol.Node) (err error)
//@   safety off
//@   opt frame=off
//@   requires s.Chord != nil
//@   ensures at-most-one-write: s.Chord.kvWrites == old(s.Chord.kvWrites) || s.Chord.kvWrites == old(s.Chord.kvWrites) + 1

// Both twirp services (tunnel control and keyless TLS) are built with exactly one option: server hooks whose
// RequestRouted hook is this server's verifyClientIdentity. twirp.WithServerHooks REPLACES the hooks of an earlier
// option, so a second hooks option would silently drop the verification.
//@ func (s *Server) attachRPC(ctx context.Context, router *transport.StreamRouter)
//@   safety off
//@   opt frame=off
//@   requires router != nil
//@   ghost lastOpt twirp.ServerOption
//@   ghost lastGuarded bool = false
//@   ghost built int = 0
//@   at call WithServerHooks#*: ghost lastGuarded := callarg0 != nil && isfunc(callarg0.RequestRouted, "verifyClientIdentity", s)
//@   at after call WithServerHooks#*: ghost lastOpt := callresult
//@   at call NewTunnelServiceServer#*: assert the-tunnel-service-runs-behind-the-identity-check-as-its-only-hooks: len(callarg1) == 1 && callarg1[0] == any(lastOpt) && lastGuarded
//@   at call NewTunnelServiceServer#*: ghost built := built + 1
//@   at call NewKeylessServiceServer#*: assert the-keyless-service-runs-behind-the-identity-check-as-its-only-hooks: len(callarg1) == 1 && callarg1[0] == any(lastOpt) && lastGuarded
//@   at call NewKeylessServiceServer#*: ghost built := built + 1
//@   ensures local-both-services-were-built: built == 2

//@ func (s *Server) verifyClientIdentity(ctx context.Context) (rctx context.Context, rerr error)
//@   safety off
//@   opt frame=off
//@   requires s.Chord != nil
//@   ghost method string = ""
//@   ghost d *transport.StreamDelegate = nil
//@   ghost aerr error = nil
//@   ghost gerr error = nil
//@   ghost authed bool = false
//@   ghost looked bool = false
//@   at after call MethodName#1: ghost method := callresult0
//@   at after call GetDelegation#1: ghost d := callresult
//@   at after call extractAuthenticated#1: ghost aerr := callresult2
//@   at after call extractAuthenticated#1: ghost authed := true
//@   at call getClientByToken#1: assert registration-is-looked-up-for-the-certificates-token: authed && aerr == nil && callarg2 == token
//@   at after call getClientByToken#1: ghost gerr := callresult1
//@   at after call getClientByToken#1: ghost looked := true
//@   at call saveClientToken#1: assert token-is-rewritten-only-for-a-registered-verified-client: looked && gerr == nil && aerr == nil && callarg2 == token && callarg3 == verifiedClient
//@   ensures local-no-delegation-is-refused: d == nil ==> rerr != nil
//@   ensures local-only-ping-and-registration-are-exempt: (rerr == nil && method != "Ping" && method != "RegisterIdentity") ==> (authed && aerr == nil && looked && gerr == nil)
//@   ensures local-unverified-or-unregistered-caller-is-refused: (d != nil && method != "Ping" && method != "RegisterIdentity" && (aerr != nil || gerr != nil)) ==> rerr != nil
//@   ensures a-refused-call-changes-nothing-in-the-dht: rerr != nil ==> s.Chord.kvWrites == old(s.Chord.kvWrites)
//@   ensures exempt-methods-change-nothing: (method == "Ping" || method == "RegisterIdentity") ==> s.Chord.kvWrites == old(s.Chord.kvWrites)

// ---- C51: gateway candidates
//@ pure (*go.miragespace.co/specter/spec/protocol.TunnelDestination).GetTunnel
//@ pure (*go.miragespace.co/specter/spec/protocol.TunnelDestination).GetChord
//@ func (s *Server) lookupDestination(ctx context.Context, key string) (dst *protocol.TunnelDestination, err error)
//@   safety off
//@   opt frame=off
//@   requires s.Chord != nil
//@   ghost gerr error = nil
//@   ghost n int = -1
//@   at call Get#1: assert reads-the-given-key: str(callarg1) == key
//@   at after call Get#1: ghost gerr := callresult1
//@   at after call Get#1: ghost n := len(callresult0)
//@   ensures local-a-missing-or-unreadable-record-is-an-error: (gerr != nil || n == 0) ==> (err != nil && dst == nil)
//@   ensures success-has-a-record: err == nil ==> dst != nil
//@   ensures refused-has-no-record: err != nil ==> dst == nil
//@   ensures read-only: s.Chord.kvWrites == old(s.Chord.kvWrites)

// one lookup job of GetNodes: the tunnel endpoint of the candidate's published destination record
//@ func (s *Server) GetNodes$1(fnCtx context.Context) (r *protocol.Node, err error)
//@   safety off
//@   opt frame=off
//@   requires s.Chord != nil
//@   ghost lerr error = nil
//@   ghost rec *protocol.TunnelDestination = nil
//@   at call lookupDestination#1: assert looks-up-the-candidates-own-record: callarg2 == tun.DestinationByChordKey(chord.Identity())
//@   at after call lookupDestination#1: ghost lerr := callresult1
//@   at after call lookupDestination#1: ghost rec := callresult0
//@   ensures local-missing-record-fails-the-job: lerr != nil ==> (err != nil && r == nil)
//@   ensures local-endpoint-comes-from-the-record: lerr == nil ==> (err == nil && r == rec.GetTunnel())

//@ func (s *Server) GetNodes(ctx context.Context, req *protocol.GetNodesRequest) (resp *protocol.GetNodesResponse, err error)
//@   safety off
//@   opt frame=off
//@   requires s.Chord != nil
//@   ghost aerr error = nil
//@   ghost e0 gmap[int]error
//@   ghost r0 []*protocol.Node
//@   ghost njobs int = -1
//@   at after call extractAuthenticated#1: ghost aerr := callresult2
//@   at call MakeSuccListByAddress#1: assert candidates-start-with-this-node-and-are-at-most-three-distinct-addresses: aerr == nil && callarg0 == s.Chord && callarg1 == successors && callarg2 == 3
//@   at call All#1: assert at-most-three-lookups: len(callarg1) <= 3 && len(callarg1) <= len(vnodes)
//@   at call All#1: ghost njobs := len(callarg1)
//@   at after call All#1: ghost e0 := snap(callresult1)
//@   at after call All#1: ghost r0 := callresult0
//@   ensures local-unverified-caller-is-refused: aerr != nil ==> (err != nil && resp == nil)
//@   ensures local-any-failed-lookup-fails-the-call: err == nil ==> (njobs >= 0 && (forall i int {e0[i]} :: (0 <= i && i < njobs) ==> e0[i] == nil))
//@   ensures local-endpoints-are-the-looked-up-ones-in-order: err == nil ==> (resp != nil && resp.Nodes == r0 && len(resp.Nodes) <= 3)
//@   ensures changes-nothing-in-the-dht: s.Chord.kvWrites == old(s.Chord.kvWrites)
//@   loop chord: invariant jobs: -1 <= rangeindex && rangeindex < len(vnodes) && len(vnodes) <= 3 && 0 <= len(lookupJobs) && len(lookupJobs) <= rangeindex + 1 && s.Chord.kvWrites == old(s.Chord.kvWrites)
//@   loop err: invariant checked: -1 <= rangeindex#2 && rangeindex#2 < len(errors) && len(errors) == njobs && (forall i int {e0[i]} :: (0 <= i && i <= rangeindex#2) ==> e0[i] == nil) && (forall i int {errors[i]} :: (0 <= i && i < len(errors)) ==> errors[i] == e0[i]) && servers == r0 && s.Chord.kvWrites == old(s.Chord.kvWrites)

// ---- C26: publishing / unpublishing / releasing hostnames
//@ spec nodeAddr(n *protocol.Node) string = n.GetAddress()

//@ func uniqueNodes(nodes []*protocol.Node) (r []*protocol.Node)
//@   ghost src gmap[int]int
//@   at call append#1: ghost src[len(list)] := rangeindex
//@   ensures nonnil: forall i int {r[i]} :: (0 <= i && i < len(r)) ==> r[i] != nil
//@   ensures distinct-addresses: forall i, j int {r[i], r[j]} :: (0 <= i && i < j && j < len(r)) ==> nodeAddr(r[i]) != nodeAddr(r[j])
//@   ensures no-longer-than-the-input: 0 <= len(r) && len(r) <= len(nodes) && fresh(r)
//@   ensures local-entries-come-from-the-request-in-order: (forall a int {src[a]} :: (0 <= a && a < len(r)) ==> (0 <= src[a] && src[a] < len(nodes) && r[a] == nodes[src[a]])) && (forall a, b int {src[a], src[b]} :: (0 <= a && a < b && b < len(r)) ==> src[a] < src[b])
//@   ensures input-unchanged: unchanged(nodes)
//@   loop node: invariant bounds: -1 <= rangeindex && rangeindex < len(nodes) && 0 <= len(list) && len(list) <= rangeindex + 1
//@   loop node: invariant own: fresh(list) && fresh(seen) && unchanged(nodes)
//@   loop node: invariant nonnil: forall i int {list[i]} :: (0 <= i && i < len(list)) ==> list[i] != nil
//@   loop node: invariant seen: forall i int {list[i]} :: (0 <= i && i < len(list)) ==> seen[nodeAddr(list[i])]
//@   loop node: invariant nodup: forall i, j int {list[i], list[j]} :: (0 <= i && i < j && j < len(list)) ==> nodeAddr(list[i]) != nodeAddr(list[j])
//@   loop node: invariant src: forall a int {src[a]} :: (0 <= a && a < len(list)) ==> (0 <= src[a] && src[a] <= rangeindex && list[a] == nodes[src[a]])
//@   loop node: invariant mono: forall a, b int {src[a], src[b]} :: (0 <= a && a < b && b < len(list)) ==> src[a] < src[b]

// lookup job k of PublishTunnel: the destination record published by the requested server
//@ func (s *Server) PublishTunnel$1(fnCtx context.Context) (r *protocol.TunnelDestination, err error)
//@   safety off
//@   opt frame=off
//@   requires s.Chord != nil
//@   ghost lerr error = nil
//@   ghost rec *protocol.TunnelDestination = nil
//@   at call lookupDestination#1: assert looks-up-the-requested-servers-record: callarg2 == key
//@   at after call lookupDestination#1: ghost lerr := callresult1
//@   at after call lookupDestination#1: ghost rec := callresult0
//@   ensures local-record-or-error: (lerr != nil ==> (err != nil && r == nil)) && (lerr == nil ==> (err == nil && r == rec))

// publish job i of PublishTunnel: route slot i+1 of the hostname names the verified client and server i
//@ func (s *Server) PublishTunnel$2(fnCtx context.Context) (r *protocol.Node, err error)
//@   safety off
//@   opt frame=off
//@   requires s.Chord != nil
//@   ghost wrote int = 0
//@   at call MarshalVT#1: assert route-names-the-verified-client-and-this-server: bundle.ClientDestination == verifiedClient && bundle.ChordDestination == dst.GetChord() && bundle.TunnelDestination == dst.GetTunnel() && bundle.Hostname == hostname
//@   at call Put#1: assert stored-under-the-hostnames-own-slot: str(callarg1) == tun.RoutingKey(hostname, i + 1) && callarg2 == val && wrote == 0
//@   at call Put#1: ghost wrote := wrote + 1
//@   ensures local-at-most-one-route-is-written: wrote <= 1
//@   ensures local-a-published-slot-reports-its-server: r != nil ==> (wrote == 1 && r == dst.GetTunnel())

//@ func (s *Server) PublishTunnel(ctx context.Context, req *protocol.PublishTunnelRequest) (resp *protocol.PublishTunnelResponse, err error)
//@   safety off
//@   opt frame=off
//@   ghost leaseTok uint64 = 0
//@   ghost leased bool = false
//@   ghost held bool = false
//@   at after call Acquire#1: ghost leaseTok := callresult0
//@   at after call Acquire#1: ghost leased := callresult1 == nil
//@   at defer Release#1: assert the-clients-lease-is-held-until-the-rpc-returns: leased && !held && callarg2 == leaseTok
//@   at defer Release#1: ghost held := true
//@   at call Release#?: assert the-lease-is-never-released-before-the-work-is-done: false
//@   requires s.Chord != nil && req != nil
//@   ghost aerr error = nil
//@   ghost certToken *protocol.ClientToken = nil
//@   ghost certClient *protocol.Node = nil
//@   ghost owned bool = false
//@   ghost checked bool = false
//@   ghost nlookup int = -1
//@   ghost npublish int = -1
//@   at after call extractAuthenticated#1: ghost aerr := callresult2
//@   at after call extractAuthenticated#1: ghost certToken := callresult0
//@   at after call extractAuthenticated#1: ghost certClient := callresult1
//@   at call Acquire#1: assert lease-is-the-callers: aerr == nil && str(callarg1) == tun.ClientLeaseKey(certToken)
//@   at call PrefixContains#1: assert ownership-is-checked-against-the-callers-registrations: aerr == nil && str(callarg1) == tun.ClientHostnamesPrefix(certToken) && str(callarg2) == req.Hostname && held
//@   at after call PrefixContains#1: ghost owned := callresult0 && callresult1 == nil
//@   at after call PrefixContains#1: ghost checked := true
//@   at call All#1: assert one-lookup-per-distinct-requested-server: checked && owned && len(callarg1) == len(requested) && 1 <= len(requested) && len(requested) <= 3
//@   at call All#1: ghost nlookup := len(callarg1)
//@   at call All#2: assert routes-are-written-only-for-an-owned-hostname-by-the-certificate-identity: checked && owned && verifiedClient == certClient && hostname == req.Hostname && len(callarg1) == nlookup
//@   at call All#2: ghost npublish := len(callarg1)
//@   ghost lerrs []error
//@   at after call All#1: ghost lerrs := callresult1
//@   at call All#2: assert routes-are-written-only-when-every-requested-server-was-resolved: forall i int {lerrs[i]} :: (0 <= i && i < len(lerrs)) ==> lerrs[i] == nil
//@   ensures local-unverified-caller-is-refused: aerr != nil ==> (err != nil && resp == nil && s.Chord.kvWrites == old(s.Chord.kvWrites))
//@   ensures local-success-only-for-an-owned-hostname: err == nil ==> (checked && owned && npublish >= 1 && npublish <= 3)
//@   ensures local-unowned-hostname-is-refused-before-any-route: (checked && !owned) ==> (err != nil && nlookup == -1 && npublish == -1)
//@   loop 1: invariant jobs: -1 <= rangeindex && rangeindex < len(requested) && len(lookupJobs) == len(requested) && unchanged(requested)
//@   loop 1: invariant kept: checked && owned && aerr == nil && verifiedClient == certClient && hostname == req.Hostname && nlookup == -1 && npublish == -1
//@   loop 2: invariant every-lookup-so-far-succeeded: -1 <= rangeindex#2 && rangeindex#2 < len(errors) && lerrs == errors && (forall i int {errors[i]} :: (0 <= i && i <= rangeindex#2) ==> errors[i] == nil)
//@   loop 3: invariant every-lookup-succeeded: lerrs == errors && (forall i int {errors[i]} :: (0 <= i && i < len(errors)) ==> errors[i] == nil)
//@   loop 2: invariant kept: checked && owned && aerr == nil && verifiedClient == certClient && hostname == req.Hostname && nlookup == len(requested) && npublish == -1 && len(destinations) == nlookup && 1 <= nlookup && nlookup <= 3
//@   loop 3: invariant jobs: -1 <= rangeindex#3 && rangeindex#3 < len(destinations) && len(publishJobs) == len(destinations)
//@   loop 3: invariant kept: checked && owned && aerr == nil && verifiedClient == certClient && hostname == req.Hostname && npublish == -1 && len(destinations) == nlookup && 1 <= nlookup && nlookup <= 3
//@   loop 4: invariant kept: checked && owned && aerr == nil && npublish == nlookup && 1 <= nlookup && nlookup <= 3
//@   loop 5: invariant kept: checked && owned && aerr == nil && npublish == nlookup && 1 <= nlookup && nlookup <= 3

// delete job i of unadvertiseTunnel: route slot i+1 of the hostname
//@ func (s *Server) unadvertiseTunnel$1(fnCtx context.Context) (r int, err error)
//@   safety off
//@   opt frame=off
//@   requires s.Chord != nil
//@   ghost derr error = nil
//@   at call Delete#1: assert deletes-the-hostnames-own-slot: str(callarg1) == tun.RoutingKey(hostname, i + 1)
//@   at after call Delete#1: ghost derr := callresult
//@   ensures local-reports-the-delete-outcome: err == derr

//@ func (s *Server) unadvertiseTunnel(ctx context.Context, token *protocol.ClientToken, hostname string) (err error)
//@   safety off
//@   opt frame=off
//@   requires s.Chord != nil
//@   ghost owned bool = false
//@   ghost checked bool = false
//@   ghost njobs int = -1
//@   ghost e0 gmap[int]error
//@   at call PrefixContains#1: assert ownership-is-checked-against-the-given-clients-registrations: str(callarg1) == tun.ClientHostnamesPrefix(token) && str(callarg2) == hostname
//@   at after call PrefixContains#1: ghost owned := callresult0 && callresult1 == nil
//@   at after call PrefixContains#1: ghost checked := true
//@   at call All#1: assert all-three-slots-are-deleted-only-for-an-owned-hostname: checked && owned && len(callarg1) == 3
//@   at call All#1: ghost njobs := len(callarg1)
//@   at after call All#1: ghost e0 := snap(callresult1)
//@   ensures local-unowned-hostname-is-refused-before-any-delete: !owned ==> (err != nil && njobs == -1 && s.Chord.kvWrites == old(s.Chord.kvWrites))
//@   ensures local-success-means-every-slot-delete-succeeded: err == nil ==> (owned && njobs == 3 && (forall i int {e0[i]} :: (0 <= i && i < 3) ==> e0[i] == nil))
//@   ensures success-only-for-an-owned-hostname: err == nil ==> owned
//@   loop 1: invariant jobs: 0 <= rangeint$iter && rangeint$iter < 3 && len(unpublishJobs) == 3 && checked && owned && njobs == -1
//@   loop 2: invariant checked-so-far: -1 <= rangeindex && rangeindex < len(errors) && len(errors) == 3 && njobs == 3 && checked && owned && (forall j int {e0[j]} :: (0 <= j && j <= rangeindex) ==> e0[j] == nil) && (forall j int {errors[j]} :: (0 <= j && j < 3) ==> errors[j] == e0[j])

//@ func (s *Server) UnpublishTunnel(ctx context.Context, req *protocol.UnpublishTunnelRequest) (resp *protocol.UnpublishTunnelResponse, err error)
//@   safety off
//@   opt frame=off
//@   ghost leaseTok uint64 = 0
//@   ghost leased bool = false
//@   ghost held bool = false
//@   at after call Acquire#1: ghost leaseTok := callresult0
//@   at after call Acquire#1: ghost leased := callresult1 == nil
//@   at defer Release#1: assert the-clients-lease-is-held-until-the-rpc-returns: leased && !held && callarg2 == leaseTok
//@   at defer Release#1: ghost held := true
//@   at call Release#?: assert the-lease-is-never-released-before-the-work-is-done: false
//@   requires s.Chord != nil && req != nil
//@   ghost aerr error = nil
//@   ghost certToken *protocol.ClientToken = nil
//@   ghost uerr error = nil
//@   ghost called bool = false
//@   at after call extractAuthenticated#1: ghost aerr := callresult2
//@   at after call extractAuthenticated#1: ghost certToken := callresult0
//@   at call unadvertiseTunnel#1: assert routes-are-removed-for-the-callers-token-and-the-requested-hostname: aerr == nil && callarg2 == certToken && callarg3 == req.Hostname
//@   at after call unadvertiseTunnel#1: ghost uerr := callresult
//@   at after call unadvertiseTunnel#1: ghost called := true
//@   ensures local-unverified-caller-is-refused: aerr != nil ==> (err != nil && !called && s.Chord.kvWrites == old(s.Chord.kvWrites))
//@   ensures local-success-only-if-the-routes-were-removed: err == nil ==> (called && uerr == nil)

//@ func (s *Server) ReleaseTunnel(ctx context.Context, req *protocol.ReleaseTunnelRequest) (resp *protocol.ReleaseTunnelResponse, err error)
//@   safety off
//@   opt frame=off
//@   ghost leaseTok uint64 = 0
//@   ghost leased bool = false
//@   ghost held bool = false
//@   at after call Acquire#1: ghost leaseTok := callresult0
//@   at after call Acquire#1: ghost leased := callresult1 == nil
//@   at defer Release#1: assert the-clients-lease-is-held-until-the-rpc-returns: leased && !held && callarg2 == leaseTok
//@   at defer Release#1: ghost held := true
//@   at call Release#?: assert the-lease-is-never-released-before-the-work-is-done: false
//@   requires s.Chord != nil && req != nil
//@   ghost aerr error = nil
//@   ghost certToken *protocol.ClientToken = nil
//@   ghost uerr error = nil
//@   ghost called bool = false
//@   ghost removed bool = false
//@   ghost unbound bool = false
//@   at after call extractAuthenticated#1: ghost aerr := callresult2
//@   at after call extractAuthenticated#1: ghost certToken := callresult0
//@   at call unadvertiseTunnel#1: assert routes-are-removed-for-the-callers-token-and-the-requested-hostname: aerr == nil && callarg2 == certToken && callarg3 == req.Hostname
//@   at after call unadvertiseTunnel#1: ghost uerr := callresult
//@   at after call unadvertiseTunnel#1: ghost called := true
//@   at call PrefixRemove#1: assert registration-is-removed-only-after-the-ownership-checked-route-removal: called && uerr == nil && str(callarg1) == tun.ClientHostnamesPrefix(certToken) && str(callarg2) == req.Hostname
//@   at call PrefixRemove#1: ghost removed := true
//@   at call RemoveCustomHostname#1: assert custom-binding-is-removed-for-the-released-hostname: removed && callarg1 == s.Chord && callarg2 == req.Hostname
//@   at call RemoveCustomHostname#1: ghost unbound := true
//@   ensures local-unverified-caller-is-refused: aerr != nil ==> (err != nil && !called && s.Chord.kvWrites == old(s.Chord.kvWrites))
//@   ensures local-a-release-removes-routes-registration-and-binding: err == nil ==> (called && uerr == nil && removed && unbound)
//@   ensures local-unowned-hostname-keeps-its-registration: (called && uerr != nil) ==> (err != nil && !removed && !unbound)

// ---- C29: binding a custom hostname
//@ func (s *Server) AcmeInstruction(ctx context.Context, req *protocol.InstructionRequest) (resp *protocol.InstructionResponse, err error)
//@   safety off
//@   opt frame=off
//@   requires s.Chord != nil && req != nil
//@   ghost aerr error = nil
//@   ghost nerr error = nil
//@   ghost cerr error = nil
//@   ghost checked bool = false
//@   at after call extractAuthenticated#1: ghost aerr := callresult2
//@   at after call Normalize#1: ghost nerr := callresult1
//@   at call checkAcme#1: assert admissibility-is-checked-for-the-normalized-name-and-the-callers-identity: aerr == nil && nerr == nil && callarg2 == hostname && callarg3 == req.Proof && callarg4 == token && callarg5 == client
//@   at after call checkAcme#1: ghost cerr := callresult1
//@   at after call checkAcme#1: ghost checked := true
//@   at call GenerateCustomRecord#1: assert instruction-is-for-this-hostname-and-the-callers-token: checked && cerr == nil && callarg0 == hostname && callarg1 == s.Acme && callarg2 == token.GetToken()
//@   ensures local-refusals: (aerr != nil || nerr != nil || (checked && cerr != nil)) ==> (err != nil && resp == nil)
//@   ensures instructions-never-write: s.Chord.kvWrites == old(s.Chord.kvWrites)

//@ func (s *Server) AcmeValidate(ctx context.Context, req *protocol.ValidateRequest) (resp *protocol.ValidateResponse, err error)
//@   safety off
//@   opt frame=off
//@   requires s.Chord != nil && req != nil
//@   ghost aerr error = nil
//@   ghost nerr error = nil
//@   ghost cerr error = nil
//@   ghost checked bool = false
//@   ghost bound bool = false
//@   ghost want string = ""
//@   ghost qname string = ""
//@   ghost lerr error = nil
//@   ghost got string = ""
//@   ghost resolved bool = false
//@   ghost saved bool = false
//@   at after call extractAuthenticated#1: ghost aerr := callresult2
//@   at after call Normalize#1: ghost nerr := callresult1
//@   at call checkAcme#1: assert admissibility-is-checked-for-the-normalized-name-and-the-callers-identity: aerr == nil && nerr == nil && callarg2 == hostname && callarg3 == req.Proof && callarg4 == token && callarg5 == client
//@   at after call checkAcme#1: ghost cerr := callresult1
//@   at after call checkAcme#1: ghost bound := callresult0
//@   at after call checkAcme#1: ghost checked := true
//@   at call GenerateCustomRecord#1: assert challenge-is-for-this-hostname-and-the-callers-token: checked && cerr == nil && callarg0 == hostname && callarg1 == s.Acme && callarg2 == token.GetToken()
//@   at after call GenerateCustomRecord#1: ghost qname := callresult0
//@   at after call GenerateCustomRecord#1: ghost want := callresult1
//@   at call LookupCNAME#1: assert the-challenge-name-is-resolved: callarg1 == qname
//@   at after call LookupCNAME#1: ghost lerr := callresult1
//@   at after call LookupCNAME#1: ghost got := callresult0
//@   at after call LookupCNAME#1: ghost resolved := true
//@   at call SaveCustomHostname#1: assert bound-only-after-dns-proof-or-if-already-bound-to-this-client: checked && cerr == nil && (bound || (resolved && lerr == nil && got == want)) && callarg1 == s.Chord && callarg2 == hostname && callarg3.ClientIdentity == client && callarg3.ClientToken == token
//@   at call SaveCustomHostname#1: ghost saved := true
//@   at call PrefixAppend#1: assert registered-only-after-the-binding-was-saved: saved && str(callarg1) == tun.ClientHostnamesPrefix(token) && str(callarg2) == hostname
//@   ensures local-refusals-write-nothing: (aerr != nil || nerr != nil || (checked && cerr != nil) || (checked && cerr == nil && !bound && resolved && (lerr != nil || got != want))) ==> (err != nil && !saved && s.Chord.kvWrites == old(s.Chord.kvWrites))
//@   ensures local-success-means-bound: err == nil ==> saved

// ---- C27: gateway connections reach only a client published for the hostname
//@ pure (*go.miragespace.co/specter/spec/protocol.Link).GetHostname
//@ pure (*go.miragespace.co/specter/spec/protocol.TunnelRoute).GetTunnelDestination
//@ pure (*go.miragespace.co/specter/spec/protocol.TunnelRoute).GetChordDestination
//@ pure (*go.miragespace.co/specter/spec/protocol.TunnelRoute).GetClientDestination

//@ func (s *Server) getConn(ctx context.Context, route *protocol.TunnelRoute) (conn net.Conn, err error)
//@   safety off
//@   opt frame=off
//@   requires route != nil && s.TunnelTransport != nil && s.ChordTransport != nil
//@   ghost viaLocal bool = false
//@   ghost viaRemote bool = false
//@   at call DialStream#1: assert a-local-client-is-dialed-directly: callarg1 == route.GetClientDestination() && callarg2 == protocol.Stream_DIRECT && route.GetTunnelDestination().GetAddress() == s.TunnelTransport.Identity().GetAddress()
//@   at call DialStream#1: ghost viaLocal := true
//@   at call DialStream#2: assert a-remote-client-is-reached-through-its-gateway: callarg1 == route.GetChordDestination() && callarg2 == protocol.Stream_PROXY && route.GetTunnelDestination().GetAddress() != s.TunnelTransport.Identity().GetAddress()
//@   at call DialStream#2: ghost viaRemote := true
//@   at call Send#1: assert the-remote-gateway-is-told-the-route: callarg1 == route
//@   ensures success-has-a-connection: err == nil ==> conn != nil
//@   ensures failure-has-none: err != nil ==> conn == nil
//@   ensures local-exactly-one-way: viaLocal != viaRemote
//@   ghost recvd int = 0
//@   ghost rerr error = nil
//@   ghost gst protocol.TunnelStatusCode = 0
//@   ghost asked int = 0
//@   at call GetStatus#1: assert the-status-read-is-the-received-one: callarg0 == status && recvd == 1 && rerr == nil
//@   at after call GetStatus#1: ghost gst := callresult
//@   at after call GetStatus#1: ghost asked := asked + 1
//@   at after call BoundedReceive#1: ghost rerr := callresult
//@   at after call BoundedReceive#1: ghost recvd := recvd + 1
//@   ensures local-a-proxied-stream-is-handed-out-only-after-the-remote-node-answered-ok: (viaRemote && err == nil) ==> (recvd == 1 && rerr == nil && asked == 1 && gst == protocol.TunnelStatusCode_STATUS_OK)
//@   ensures local-a-remote-no-direct-answer-means-not-connected: (viaRemote && asked == 1 && gst == protocol.TunnelStatusCode_NO_DIRECT) ==> err == tun.ErrTunnelClientNotConnected

//@ func (s *Server) DialClient(ctx context.Context, link *protocol.Link) (conn net.Conn, err error)
//@   safety off
//@   opt frame=off
//@   requires link != nil && s.TunnelTransport != nil && s.ChordTransport != nil
//@   at call getConn#1: assume cached-routes-are-non-nil: ret.routes[rangeindex] != nil
//@   ghost looked bool = false
//@   ghost lerr error = nil
//@   ghost cerr error = nil
//@   ghost nroutes int = -1
//@   ghost dialed net.Conn = nil
//@   ghost sent bool = false
//@   at call Get#1: assert routes-are-looked-up-for-the-links-hostname: callarg2 == link.GetHostname()
//@   at after call Get#1: ghost lerr := callresult0.err
//@   at after call Get#1: ghost cerr := callresult1
//@   at after call Get#1: ghost nroutes := len(callresult0.routes)
//@   at after call Get#1: ghost looked := true
//@   at call getConn#1: assert only-routes-of-this-hostname-are-dialed-in-list-order: callarg2 == ret.routes[rangeindex]
//@   at after call getConn#1: ghost dialed := callresult0
//@   at call getConn#1: ghost sent := false
//@   at call Send#1: assert the-link-with-the-hostname-goes-to-the-dialed-client: callarg0 == dialed && callarg1 == link
//@   at after call Send#1: ghost sent := callresult == nil
//@   ensures local-a-lookup-failure-is-returned-as-is: (looked && lerr != nil) ==> (conn == nil && err == lerr)
//@   ensures local-a-connection-comes-from-a-route-and-carries-the-link: conn != nil ==> (err == nil && looked && lerr == nil && cerr == nil && nroutes >= 1 && conn == dialed && sent)
//@   ensures local-routes-but-no-reachable-client-is-not-connected: (looked && lerr == nil && cerr == nil && nroutes >= 1 && conn == nil) ==> err == tun.ErrTunnelClientNotConnected
//@   loop route: invariant idx: -1 <= rangeindex && rangeindex < len(ret.routes) && nroutes == len(ret.routes) && looked && lerr == nil && cerr == nil

// ---- C27 (remote half): the node that receives a PROXY stream answers with the outcome of ITS attempt to reach the
// client, after that attempt: an error status and a closed stream when the route could not be read, names another
// server or the client could not be dialled; OK and a pipe to exactly the dialled client connection otherwise. The
// status is sent once, last, from the values the function ends with.
//@ func (s *Server) handleProxyConn(ctx context.Context, delegation *transport.StreamDelegate)
//@   safety off
//@   opt frame=off
//@   ghost rerr error = nil
//@   ghost received int = 0
//@   ghost dials int = 0
//@   ghost derr error = nil
//@   ghost dconn net.Conn = nil
//@   ghost sent int = 0
//@   ghost serr error = nil
//@   ghost closed int = 0
//@   ghost piped int = 0
//@   ghost wrong bool = false
//@   at after call BoundedReceive#1: ghost rerr := callresult
//@   at after call BoundedReceive#1: ghost received := received + 1
//@   at call DialStream#*: assert the-client-is-dialled-directly-only-for-a-route-that-names-this-server: received == 1 && rerr == nil && dials == 0 && route.GetTunnelDestination().GetAddress() == s.TunnelTransport.Identity().GetAddress() && callarg1 == route.GetClientDestination() && callarg2 == protocol.Stream_DIRECT
//@   at after call DialStream#*: ghost dconn := callresult0
//@   at after call DialStream#*: ghost derr := callresult1
//@   at after call DialStream#*: ghost dials := dials + 1
//@   at $1/call SendStatusProto#1: assert the-status-is-the-outcome-of-this-nodes-attempt-sent-after-it: sent == 0 && received == 1 && any(callarg0) == any(delegation) && callarg1 == err && ((rerr != nil) ==> callarg1 == rerr) && ((dials == 1) ==> callarg1 == derr) && ((rerr == nil && dials == 0) ==> callarg1 == tun.ErrDestinationNotFound)
//@   at $1/call SendStatusProto#1: ghost serr := callarg1
//@   at $1/call SendStatusProto#1: ghost sent := sent + 1
//@   at $1/call Close#1: assert a-failed-attempt-closes-the-stream-after-reporting: sent == 1 && serr != nil
//@   at $1/call Close#1: ghost closed := closed + 1
//@   at $1/call Pipe#1: assert only-a-reached-client-is-piped-to-the-stream: sent == 1 && serr == nil && dials == 1 && derr == nil && any(callarg0) == any(delegation) && any(callarg1) == any(dconn)
//@   at $1/call Pipe#1: ghost piped := piped + 1
//@   ensures local-one-status-then-close-or-pipe: sent == 1 && ((serr != nil) ==> (closed == 1 && piped == 0)) && ((serr == nil) ==> (piped == 1 && closed == 0))
