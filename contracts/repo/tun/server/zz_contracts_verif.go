//go:build verif

// Contracts for package server (tun/server), checked by /verif/bin/specv.
// This file contains no executable code; only the //@ lines are read.
package server

// ---- C28: route lookup classification and cache lifetimes

//@ spec allNotFound(e gmap[int]error) bool = forall i int :: 0 <= i && i < 3 ==> e[i] == fs.ErrNotExist
//@ spec allFailed(e gmap[int]error) bool = forall i int :: 0 <= i && i < 3 ==> (e[i] != nil && e[i] != fs.ErrNotExist)

//@ func (s *Server) routeCacheLoader(ctx context.Context, hostname string) (ret theine.Loaded[routesResult], loadErr error)
//@   safety off
//@   opt frame=off
//@   ghost r0 gmap[int]*protocol.TunnelRoute
//@   ghost e0 gmap[int]error
//@   at after call All#1: ghost r0 := snap(callresult0)
//@   at after call All#1: ghost e0 := snap(callresult1)
//@   ensures never-errors: loadErr == nil
//@   ensures not-found: allNotFound(e0) ==> (ret.Value.err == tun.ErrDestinationNotFound && ret.TTL == routeNegativeTTL && len(ret.Value.routes) == 0)
//@   ensures lookup-failed: allFailed(e0) ==> (ret.Value.err == tun.ErrLookupFailed && ret.TTL == routeFailedTTL && len(ret.Value.routes) == 0)
//@   ensures otherwise-positive: (!allNotFound(e0) && !allFailed(e0)) ==> (ret.Value.err == nil && ret.TTL == routePositiveTTL)
//@   ensures routes-non-nil: forall a int :: 0 <= a && a < len(ret.Value.routes) ==> ret.Value.routes[a] != nil
//@   ensures ttl-order: routeFailedTTL < routeNegativeTTL && routeNegativeTTL < routePositiveTTL
//@   loop err: invariant idx: -1 <= rangeindex#2 && rangeindex#2 < len(errors) && len(errors) == 3 && numLookup == 3
//@   loop err: invariant counts: 0 <= numNotFound && numNotFound <= rangeindex#2 + 1 && 0 <= numError && numError <= rangeindex#2 + 1
//@   loop err: invariant nf: (numNotFound == rangeindex#2 + 1) == (forall j int :: 0 <= j && j <= rangeindex#2 ==> errors[j] == fs.ErrNotExist)
//@   loop err: invariant fl: (numError == rangeindex#2 + 1) == (forall j int :: 0 <= j && j <= rangeindex#2 ==> (errors[j] != nil && errors[j] != fs.ErrNotExist))
//@   loop err: invariant same: forall j int :: 0 <= j && j < 3 ==> errors[j] == e0[j]
//@   loop route: invariant idx: -1 <= rangeindex#3 && rangeindex#3 < len(routes) && len(routes) == 3
//@   loop route: invariant alias: sameBacking(filtered, routes) && 0 <= len(filtered) && len(filtered) <= rangeindex#3 + 1 && cap(filtered) == cap(routes)
//@   loop route: invariant nonnil: forall a int :: 0 <= a && a < len(filtered) ==> filtered[a] != nil
//@   loop 4: invariant nonnil: forall a int :: 0 <= a && a < len(filtered) ==> filtered[a] != nil
//@   loop 4: invariant idx: len(filtered) <= i#2 && sameBacking(filtered, routes)

// one lookup job of routeCacheLoader (slot k): a route is returned exactly when no error is
//@ func (s *Server) routeCacheLoader$2(ctx context.Context) (r *protocol.TunnelRoute, err error)
//@   safety off
//@   opt frame=off
//@   ensures route-iff-no-error: (r != nil) == (err == nil)
//@   ensures fresh-route: r != nil ==> fresh(r)
