//go:build verif

// Contracts for package server (tun/server), checked by /verif/bin/specv.
// This file contains no executable code; only the //@ lines are read.
package server

// ---- C28: route lookup classification and cache lifetimes

//@ spec allNotFound(e gmap[int]error) bool = forall i int :: 0 <= i && i < 3 ==> e[i] == fs.ErrNotExist
//@ spec allFailed(e gmap[int]error) bool = forall i int :: 0 <= i && i < 3 ==> (e[i] != nil && e[i] != fs.ErrNotExist)

//@ func (s *Server) routeCacheLoader(ctx context.Context, hostname string) (ret theine.Loaded[routesResult], loadErr error)
//@   safety off
//@   opt frame=off
//@   ghost r0 gmap[int]*protocol.TunnelRoute
//@   ghost e0 gmap[int]error
//@   at after call All#1: ghost r0 := snap(callresult0)
//@   at after call All#1: ghost e0 := snap(callresult1)
//@   ensures never-errors: loadErr == nil
//@   ensures not-found: allNotFound(e0) ==> (ret.Value.err == tun.ErrDestinationNotFound && ret.TTL == routeNegativeTTL && len(ret.Value.routes) == 0)
//@   ensures lookup-failed: allFailed(e0) ==> (ret.Value.err == tun.ErrLookupFailed && ret.TTL == routeFailedTTL && len(ret.Value.routes) == 0)
//@   ensures otherwise-positive: (!allNotFound(e0) && !allFailed(e0)) ==> (ret.Value.err == nil && ret.TTL == routePositiveTTL)
//@   ensures routes-non-nil: forall a int :: 0 <= a && a < len(ret.Value.routes) ==> ret.Value.routes[a] != nil
//@   ensures ttl-order: routeFailedTTL < routeNegativeTTL && routeNegativeTTL < routePositiveTTL
//@   loop err: invariant idx: -1 <= rangeindex#2 && rangeindex#2 < len(errors) && len(errors) == 3 && numLookup == 3
//@   loop err: invariant counts: 0 <= numNotFound && numNotFound <= rangeindex#2 + 1 && 0 <= numError && numError <= rangeindex#2 + 1
//@   loop err: invariant nf: (numNotFound == rangeindex#2 + 1) == (forall j int :: 0 <= j && j <= rangeindex#2 ==> errors[j] == fs.ErrNotExist)
//@   loop err: invariant fl: (numError == rangeindex#2 + 1) == (forall j int :: 0 <= j && j <= rangeindex#2 ==> (errors[j] != nil && errors[j] != fs.ErrNotExist))
//@   loop err: invariant same: forall j int :: 0 <= j && j < 3 ==> errors[j] == e0[j]
//@   loop route: invariant idx: -1 <= rangeindex#3 && rangeindex#3 < len(routes) && len(routes) == 3
//@   loop route: invariant alias: sameBacking(filtered, routes) && 0 <= len(filtered) && len(filtered) <= rangeindex#3 + 1 && cap(filtered) == cap(routes)
//@   loop route: invariant nonnil: forall a int :: 0 <= a && a < len(filtered) ==> filtered[a] != nil
//@   loop 4: invariant nonnil: forall a int :: 0 <= a && a < len(filtered) ==> filtered[a] != nil
//@   loop 4: invariant idx: len(filtered) <= i#2 && sameBacking(filtered, routes)

// one lookup job of routeCacheLoader (slot k): a route is returned exactly when no error is
//@ func (s *Server) routeCacheLoader$2(ctx context.Context) (r *protocol.TunnelRoute, err error)
//@   safety off
//@   opt frame=off
//@   ensures route-iff-no-error: (r != nil) == (err == nil)
//@   ensures fresh-route: r != nil ==> fresh(r)

// ---- C29/C30: who may use a custom hostname
//@ pure (*go.miragespace.co/specter/spec/protocol.CustomHostname).GetClientToken
//@ pure (*go.miragespace.co/specter/spec/protocol.CustomHostname).GetClientIdentity
//@ pure (*go.miragespace.co/specter/spec/protocol.ClientToken).GetToken
//@ pure (*go.miragespace.co/specter/spec/protocol.Node).GetId
//@ pure (*go.miragespace.co/specter/spec/protocol.Node).GetAddress
//@ macro boundTo(b *protocol.CustomHostname, token *protocol.ClientToken, client *protocol.Node) bool = bytes.Equal(b.GetClientToken().GetToken(), token.GetToken()) && b.GetClientIdentity().GetId() == client.GetId() && b.GetClientIdentity().GetAddress() == client.GetAddress()

//@ func (s *Server) checkAcme(ctx context.Context, hostname string, proof *protocol.ProofOfWork, token *protocol.ClientToken, client *protocol.Node) (found bool, err error)
//@   safety off
//@   opt frame=off
//@   ghost perr error = nil
//@   ghost looked bool = false
//@   ghost ferr error = nil
//@   ghost b *protocol.CustomHostname = nil
//@   at call VerifySolution#1: assert proof-is-checked-for-this-hostname-with-the-acme-parameters: callarg0 == proof && callarg1.Difficulty == acme.HashcashDifficulty && callarg1.Expires == acme.HashcashExpires
//@   at after call VerifySolution#1: ghost perr := callresult1
//@   at call FindCustomHostname#1: assert binding-is-looked-up-only-for-an-admissible-hostname-with-valid-proof: perr == nil && !contains(hostname, s.Acme) && !contains(hostname, s.Apex) && strCount(hostname, ".") >= 2 && callarg1 == s.Chord && callarg2 == hostname
//@   at after call FindCustomHostname#1: ghost ferr := callresult1
//@   at after call FindCustomHostname#1: ghost b := callresult0
//@   at after call FindCustomHostname#1: ghost looked := true
//@   ensures local-invalid-proof-is-refused: perr != nil ==> (!found && err != nil)
//@   ensures reserved-zones-are-refused: (contains(hostname, s.Acme) || contains(hostname, s.Apex)) ==> (!found && err != nil)
//@   ensures bare-domains-are-refused: strCount(hostname, ".") < 2 ==> (!found && err != nil)
//@   ensures local-found-means-bound-to-this-client: found ==> (err == nil && looked && ferr == nil && boundTo(b, token, client))
//@   ensures local-bound-to-another-client-is-refused: (looked && ferr == nil && !boundTo(b, token, client)) ==> (!found && err != nil)
//@   ensures local-unbound-hostname-is-not-found: (looked && ferr == tun.ErrHostnameNotFound) ==> (!found && err == nil)
//@   ensures local-lookup-failure-is-an-error: (looked && ferr != nil && ferr != tun.ErrHostnameNotFound) ==> (!found && err != nil)
//@   ensures found-implies-no-error: found ==> err == nil

// ---- C30: keyless TLS
//@ macro remainingAfterSkew(leaf *x509.Certificate, now time.Time) int64 = leaf.NotAfter.UnixNano() - 60000000000 - now.UnixNano()

//@ func computeKeylessTTL(cert *tls.Certificate, now time.Time) (r time.Duration)
//@   safety off
//@   opt frame=off
//@   ghost used *x509.Certificate = nil
//@   at call Add#1: assert the-parsed-leaf-is-preferred: (cert.Leaf != nil ==> leaf == cert.Leaf) && callarg1 == -60000000000
//@   at call Add#1: ghost used := leaf
//@   ensures always-positive-and-capped: 0 < r && r <= keylessPositiveTTL
//@   ensures never-past-expiry-minus-skew: (cert != nil && cert.Leaf != nil && remainingAfterSkew(cert.Leaf, now) > 0) ==> r <= remainingAfterSkew(cert.Leaf, now)
//@   ensures expired-certificate-gets-the-minimum: (cert != nil && cert.Leaf != nil && remainingAfterSkew(cert.Leaf, now) <= 0) ==> r == 1000000000
//@   ensures local-same-for-a-leaf-parsed-on-the-fly: used != nil ==> ((remainingAfterSkew(used, now) > 0 ==> r <= remainingAfterSkew(used, now)) && (remainingAfterSkew(used, now) <= 0 ==> r == 1000000000))

//@ func (s *Server) keylessCertLoader(ctx context.Context, hostname string) (ret theine.Loaded[keylessCertResult], loadErr error)
//@   safety off
//@   opt frame=off
//@   ghost ttl0 time.Duration = 0
//@   ghost computed bool = false
//@   ghost got *tls.Certificate = nil
//@   at after call GetCertificateWithContext#1: ghost got := callresult0
//@   at call computeKeylessTTL#1: assert ttl-is-computed-for-the-returned-certificate: callarg0 == got && got != nil
//@   at after call computeKeylessTTL#1: ghost ttl0 := callresult
//@   at after call computeKeylessTTL#1: ghost computed := true
//@   ensures never-errors: loadErr == nil
//@   ensures ttl-always-positive: ret.TTL > 0
//@   ensures local-cached-certificate-lives-no-longer-than-computed: ret.Value.cert != nil ==> (computed && ret.Value.cert == got && ret.TTL == ttl0 && ret.Value.err == nil)
//@   ensures failures-are-cached-briefly: ret.Value.cert == nil ==> (ret.Value.err != nil && ret.TTL == keylessFailedTTL)
//@   ensures ttl-order: keylessFailedTTL < keylessPositiveTTL

//@ func (s *Server) getCertificate(ctx context.Context, proof *protocol.ProofOfWork, hostname string) (cert *tls.Certificate, err error)
//@   safety off
//@   opt frame=off
//@   ghost aerr error = nil
//@   ghost nerr error = nil
//@   ghost cerr error = nil
//@   ghost bound bool = false
//@   ghost served bool = false
//@   at after call extractAuthenticated#1: ghost aerr := callresult2
//@   at after call Normalize#1: ghost nerr := callresult1
//@   at call checkAcme#1: assert binding-checked-for-the-normalized-name-and-the-callers-identity: aerr == nil && nerr == nil && callarg2 == normalized && callarg3 == proof && callarg4 == token && callarg5 == client
//@   at after call checkAcme#1: ghost cerr := callresult1
//@   at after call checkAcme#1: ghost bound := callresult0
//@   at call Get#1: assert certificate-only-for-the-bound-client-with-valid-proof: aerr == nil && nerr == nil && cerr == nil && bound && callarg2 == normalized
//@   at call Get#1: ghost served := true
//@   ensures local-success-only-through-the-binding-check: err == nil ==> served
//@   ensures local-unbound-or-foreign-hostname-is-refused: (aerr == nil && nerr == nil && cerr == nil && !bound) ==> (err != nil && cert == nil && !served)

//@ func (s *Server) Sign(ctx context.Context, req *protocol.KeylessSignRequest) (resp *protocol.KeylessSignResponse, err error)
//@   safety off
//@   opt frame=off
//@   requires req != nil
//@   ghost gerr error = nil
//@   ghost signed bool = false
//@   at after call getCertificate#1: ghost gerr := callresult1
//@   at call getCertificate#1: assert certificate-is-requested-with-the-callers-proof-and-hostname: callarg2 == req.Proof && callarg3 == req.Hostname
//@   at call Sign#1: assert signs-only-with-a-certificate-a-supported-hash-and-an-exact-length-digest: gerr == nil && callarg1 == req.Digest && ((req.Algo == protocol.KeylessSignRequest_SHA256 && len(req.Digest) == 32) || (req.Algo == protocol.KeylessSignRequest_SHA384 && len(req.Digest) == 48) || (req.Algo == protocol.KeylessSignRequest_SHA512 && len(req.Digest) == 64))
//@   at call Sign#1: ghost signed := true
//@   ensures local-success-means-signed: err == nil ==> signed
