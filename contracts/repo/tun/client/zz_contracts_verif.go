//go:build verif

// Contracts for package client (tun/client), checked by /verif/bin/specv.
// This file contains no executable code; only the //@ lines are read.
package client

// ---- C50: at most three gateways, measured ones first, fastest first

//@ func (c *Client) getConnectedNodes() (nodes []*protocol.Node)
//@   opt frame=off
//@   safety off
//@   requires c.connections != nil
//@   ensures at-most-three: len(nodes) <= 3
//@   loop call Range#1: invariant at-most-three: 0 <= len(nodes) && len(nodes) <= 3

// the comparator handed to sort.SliceStable: measured before unmeasured, then ascending average.
// It is a strict weak order (irreflexive, asymmetric, transitive, transitive incomparability),
// so the documented contract of sort.SliceStable applies.
//@ func (c *Client) getConnectedNodes$2(i int, j int) (less bool)
//@   opt frame=off
//@   safety off
//@   ghost l int64 = 0
//@   ghost lOK bool = false
//@   ghost r int64 = 0
//@   ghost rOK bool = false
//@   at after lookup#1: ghost l := callresult0
//@   at after lookup#1: ghost lOK := callresult1
//@   at after lookup#2: ghost r := callresult0
//@   at after lookup#2: ghost rOK := callresult1
//@   ensures measured-before-unmeasured: (lOK && !rOK) ==> less
//@   ensures unmeasured-never-before-measured: (!lOK && rOK) ==> !less
//@   ensures both-measured-ascending-average: (lOK && rOK) ==> (less == (l < r))
//@   ensures both-unmeasured-keep-order: (!lOK && !rOK) ==> !less
//@   ensures is-the-rtt-order: less == rttLess(lOK, l, rOK, r)

//@ spec rttLess(aok bool, a int64, bok bool, b int64) bool = (aok && !bok) || (aok && bok && a < b)
//@ lemma rttLess_irreflexive: forall aok bool, a int64 :: !rttLess(aok, a, aok, a)
//@ lemma rttLess_transitive: forall aok, bok, cok bool, a, b, c int64 :: (rttLess(aok, a, bok, b) && rttLess(bok, b, cok, c)) ==> rttLess(aok, a, cok, c)
//@ lemma rttLess_incomparability_transitive: forall aok, bok, cok bool, a, b, c int64 :: (!rttLess(aok, a, bok, b) && !rttLess(bok, b, aok, a) && !rttLess(bok, b, cok, c) && !rttLess(cok, c, bok, b)) ==> (!rttLess(aok, a, cok, c) && !rttLess(cok, c, aok, a))
//@ lemma rttLess_measured_first: forall a, b int64 :: rttLess(true, a, false, b) && !rttLess(false, b, true, a)
