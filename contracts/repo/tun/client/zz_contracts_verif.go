//go:build verif

// Contracts for package client (tun/client), checked by /verif/bin/specv.
// This file contains no executable code; only the //@ lines are read.
package client

// ---- C50: at most three gateways, measured ones first, fastest first

//@ func (c *Client) getConnectedNodes() (nodes []*protocol.Node)
//@   opt frame=off
//@   safety off
//@   requires c.connections != nil
//@   ensures at-most-three: len(nodes) <= 3
//@   loop call Range#1: invariant at-most-three: 0 <= len(nodes) && len(nodes) <= 3

// the comparator handed to sort.SliceStable: measured before unmeasured, then ascending average.
// It is a strict weak order (irreflexive, asymmetric, transitive, transitive incomparability),
// so the documented contract of sort.SliceStable applies.
//@ func (c *Client) getConnectedNodes$2(i int, j int) (less bool)
//@   opt frame=off
//@   safety off
//@   ghost l int64 = 0
//@   ghost lOK bool = false
//@   ghost r int64 = 0
//@   ghost rOK bool = false
//@   at after lookup#1: ghost l := callresult0
//@   at after lookup#1: ghost lOK := callresult1
//@   at after lookup#2: ghost r := callresult0
//@   at after lookup#2: ghost rOK := callresult1
//@   ensures measured-before-unmeasured: (lOK && !rOK) ==> less
//@   ensures unmeasured-never-before-measured: (!lOK && rOK) ==> !less
//@   ensures both-measured-ascending-average: (lOK && rOK) ==> (less == (l < r))
//@   ensures both-unmeasured-keep-order: (!lOK && !rOK) ==> !less
//@   ensures is-the-rtt-order: less == rttLess(lOK, l, rOK, r)

//@ spec rttLess(aok bool, a int64, bok bool, b int64) bool = (aok && !bok) || (aok && bok && a < b)
//@ lemma rttLess_irreflexive: forall aok bool, a int64 :: !rttLess(aok, a, aok, a)
//@ lemma rttLess_transitive: forall aok, bok, cok bool, a, b, c int64 :: (rttLess(aok, a, bok, b) && rttLess(bok, b, cok, c)) ==> rttLess(aok, a, cok, c)
//@ lemma rttLess_incomparability_transitive: forall aok, bok, cok bool, a, b, c int64 :: (!rttLess(aok, a, bok, b) && !rttLess(bok, b, aok, a) && !rttLess(bok, b, cok, c) && !rttLess(cok, c, bok, b)) ==> (!rttLess(aok, a, cok, c) && !rttLess(cok, c, aok, a))
//@ lemma rttLess_measured_first: forall a, b int64 :: rttLess(true, a, false, b) && !rttLess(false, b, true, a)

// ---- C45: saving the configuration. Crash obligation at the first file-system step: the file that holds
// the previous configuration (certificate, private key, tunnels) must not be emptied before the new
// contents are safely on disk, i.e. it is never opened with O_TRUNC (0x200) in place.
//@ func (c *Config) writeFile() (err error)
//@   arith bv
//@   safety off
//@   opt frame=off
//@   requires c != nil
//@   ghost truncated bool = false
//@   at call OpenFile#*: ghost truncated := truncated || (callarg0 == c.path && (callarg1 & 512) != 0)
//@   ensures local-the-live-file-is-never-truncated-in-place: !truncated
//@   ghost opened bool = false
//@   ghost eerr error = nil
//@   ghost encoded bool = false
//@   at after call OpenFile#1: ghost opened := callresult1 == nil
//@   at call NewEncoder#1: assert the-configuration-is-encoded-into-the-opened-file: opened && callarg0 == f
//@   at call Encode#1: assert encodes-this-configuration: callarg1 == c
//@   at after call Encode#1: ghost eerr := callresult
//@   at after call Encode#1: ghost encoded := true
//@   ensures local-an-encoding-failure-is-reported: opened ==> (encoded && err == eerr)
//@   ensures local-an-open-failure-is-reported: !opened ==> err != nil
//@   ghost emptied bool = false
//@   at call OpenFile#1: ghost emptied := (callarg1 & 512) != 0
//@   ensures local-no-stale-bytes-survive-a-save: opened ==> emptied
