//go:build verif

// Contracts for package client (tun/client), checked by /verif/bin/specv.
// This file contains no executable code; only the //@ lines are read.
package client

// ---- C50: at most three gateways, measured ones first, fastest first

//@ func (c *Client) getConnectedNodes() (nodes []*protocol.Node)
//@   opt frame=off
//@   safety off
//@   requires c.connections != nil
//@   ensures at-most-three: len(nodes) <= 3
//@   loop call Range#1: invariant at-most-three: 0 <= len(nodes) && len(nodes) <= 3

// the comparator handed to sort.SliceStable: measured before unmeasured, then ascending average.
// It is a strict weak order (irreflexive, asymmetric, transitive, transitive incomparability),
// so the documented contract of sort.SliceStable applies.
//@ func (c *Client) getConnectedNodes$2(i int, j int) (less bool)
//@   opt frame=off
//@   safety off
//@   ghost l int64 = 0
//@   ghost lOK bool = false
//@   ghost r int64 = 0
//@   ghost rOK bool = false
//@   at after lookup#1: ghost l := callresult0
//@   at after lookup#1: ghost lOK := callresult1
//@   at after lookup#2: ghost r := callresult0
//@   at after lookup#2: ghost rOK := callresult1
//@   ensures measured-before-unmeasured: (lOK && !rOK) ==> less
//@   ensures unmeasured-never-before-measured: (!lOK && rOK) ==> !less
//@   ensures both-measured-ascending-average: (lOK && rOK) ==> (less == (l < r))
//@   ensures both-unmeasured-keep-order: (!lOK && !rOK) ==> !less
//@   ensures is-the-rtt-order: less == rttLess(lOK, l, rOK, r)

//@ spec rttLess(aok bool, a int64, bok bool, b int64) bool = (aok && !bok) || (aok && bok && a < b)
//@ lemma rttLess_irreflexive: forall aok bool, a int64 :: !rttLess(aok, a, aok, a)
//@ lemma rttLess_transitive: forall aok, bok, cok bool, a, b, c int64 :: (rttLess(aok, a, bok, b) && rttLess(bok, b, cok, c)) ==> rttLess(aok, a, cok, c)
//@ lemma rttLess_incomparability_transitive: forall aok, bok, cok bool, a, b, c int64 :: (!rttLess(aok, a, bok, b) && !rttLess(bok, b, aok, a) && !rttLess(bok, b, cok, c) && !rttLess(cok, c, bok, b)) ==> (!rttLess(aok, a, cok, c) && !rttLess(cok, c, aok, a))
//@ lemma rttLess_measured_first: forall a, b int64 :: rttLess(true, a, false, b) && !rttLess(false, b, true, a)

// ---- C45: saving the configuration. Crash obligation at the first file-system step: the file that holds
// the previous configuration (certificate, private key, tunnels) must not be emptied before the new
// contents are safely on disk, i.e. it is never opened with O_TRUNC (0x200) in place.
//@ func (c *Config) writeFile() (err error)
//@   arith bv
//@   safety off
//@   opt frame=off
//@   requires c != nil
//@   ghost truncated bool = false
//@   at call OpenFile#*: ghost truncated := truncated || (callarg0 == c.path && (callarg1 & 512) != 0)
//@   ensures local-the-live-file-is-never-truncated-in-place: !truncated
//@   ghost opened bool = false
//@   ghost eerr error = nil
//@   ghost encoded bool = false
//@   at after call OpenFile#1: ghost opened := callresult1 == nil
//@   at call NewEncoder#1: assert the-configuration-is-encoded-into-the-opened-file: opened && callarg0 == f
//@   at call Encode#1: assert encodes-this-configuration: callarg1 == c
//@   at after call Encode#1: ghost eerr := callresult
//@   at after call Encode#1: ghost encoded := true
//@   ensures local-an-encoding-failure-is-reported: opened ==> (encoded && err == eerr)
//@   ensures local-an-open-failure-is-reported: !opened ==> err != nil
//@   ghost emptied bool = false
//@   at call OpenFile#1: ghost emptied := (callarg1 & 512) != 0
//@   ensures local-no-stale-bytes-survive-a-save: opened ==> emptied

// ---- C44: which proxies must be torn down when the configuration changes
//@ macro differs(a Tunnel, b Tunnel) bool = a.Target != b.Target || a.Insecure != b.Insecure || a.ProxyHeaderTimeout != b.ProxyHeaderTimeout || a.ProxyHeaderHost != b.ProxyHeaderHost || a.ProxyHeaderMode != b.ProxyHeaderMode
//@ macro outdated(oldMap map[string]Tunnel, newMap map[string]Tunnel, h string) bool = has(oldMap, h) && (!has(newMap, h) || differs(oldMap[h], newMap[h]))

//@ func diffTunnels(old, new []Tunnel) (r []Tunnel)
//@   ghost pos gmap[string]int
//@   ghost oidx gmap[string]int
//@   ghost nidx gmap[string]int
//@   at mapupdate#1: ghost oidx[o.Hostname] := rangeindex
//@   at mapupdate#2: ghost nidx[n.Hostname] := rangeindex#2
//@   at call append#1: ghost pos[hostname] := len(diff)
//@   at call append#2: ghost pos[hostname#2] := len(diff)
//@   ensures local-old-tunnels-are-indexed-by-hostname: (forall i int {old[i]} :: (0 <= i && i < len(old) && old[i].Hostname != "") ==> has(oldMap, old[i].Hostname)) && (forall h string {oidx[h]} :: has(oldMap, h) ==> (h != "" && 0 <= oidx[h] && oidx[h] < len(old) && old[oidx[h]] == oldMap[h] && oldMap[h].Hostname == h))
//@   ensures local-new-tunnels-are-indexed-by-hostname: (forall i int {new[i]} :: (0 <= i && i < len(new) && new[i].Hostname != "") ==> has(newMap, new[i].Hostname)) && (forall h string {nidx[h]} :: has(newMap, h) ==> (h != "" && 0 <= nidx[h] && nidx[h] < len(new) && new[nidx[h]] == newMap[h] && newMap[h].Hostname == h))
//@   ensures local-only-removed-or-changed-tunnels-are-reported: forall a int {r[a]} :: (0 <= a && a < len(r)) ==> (outdated(oldMap, newMap, r[a].Hostname) && r[a] == oldMap[r[a].Hostname])
//@   ensures local-every-removed-or-changed-tunnel-is-reported: forall h string {pos[h]} :: outdated(oldMap, newMap, h) ==> (0 <= pos[h] && pos[h] < len(r) && r[pos[h]] == oldMap[h])
//@   loop o: invariant build-old: -1 <= rangeindex && rangeindex < len(old) && fresh(oldMap) && fresh(newMap) && oldMap != newMap && unchanged(old) && unchanged(new) && (forall h string :: !has(newMap, h)) && len(diff) == 0 && fresh(diff)
//@   loop o: invariant indexed: (forall i int {old[i]} :: (0 <= i && i <= rangeindex && old[i].Hostname != "") ==> has(oldMap, old[i].Hostname)) && (forall h string {oidx[h]} :: has(oldMap, h) ==> (h != "" && 0 <= oidx[h] && oidx[h] <= rangeindex && old[oidx[h]] == oldMap[h] && oldMap[h].Hostname == h))
//@   loop n: invariant build-new: -1 <= rangeindex#2 && rangeindex#2 < len(new) && fresh(oldMap) && fresh(newMap) && oldMap != newMap && unchanged(old) && unchanged(new) && len(diff) == 0 && fresh(diff)
//@   loop n: invariant old-kept: (forall i int {old[i]} :: (0 <= i && i < len(old) && old[i].Hostname != "") ==> has(oldMap, old[i].Hostname)) && (forall h string {oidx[h]} :: has(oldMap, h) ==> (h != "" && 0 <= oidx[h] && oidx[h] < len(old) && old[oidx[h]] == oldMap[h] && oldMap[h].Hostname == h))
//@   loop n: invariant indexed: (forall i int {new[i]} :: (0 <= i && i <= rangeindex#2 && new[i].Hostname != "") ==> has(newMap, new[i].Hostname)) && (forall h string {nidx[h]} :: has(newMap, h) ==> (h != "" && 0 <= nidx[h] && nidx[h] <= rangeindex#2 && new[nidx[h]] == newMap[h] && newMap[h].Hostname == h))
//@   loop oldTunnel: invariant maps-kept: fresh(oldMap) && fresh(newMap) && oldMap != newMap && unchanged(old) && unchanged(new) && fresh(diff) && 0 <= len(diff) && (forall h string :: visited[h] ==> has(newMap, h))
//@   loop oldTunnel: invariant indexes-kept: (forall i int {old[i]} :: (0 <= i && i < len(old) && old[i].Hostname != "") ==> has(oldMap, old[i].Hostname)) && (forall h string {oidx[h]} :: has(oldMap, h) ==> (h != "" && 0 <= oidx[h] && oidx[h] < len(old) && old[oidx[h]] == oldMap[h] && oldMap[h].Hostname == h)) && (forall i int {new[i]} :: (0 <= i && i < len(new) && new[i].Hostname != "") ==> has(newMap, new[i].Hostname)) && (forall h string {nidx[h]} :: has(newMap, h) ==> (h != "" && 0 <= nidx[h] && nidx[h] < len(new) && new[nidx[h]] == newMap[h] && newMap[h].Hostname == h))
//@   loop oldTunnel: invariant sound: forall a int {diff[a]} :: (0 <= a && a < len(diff)) ==> (outdated(oldMap, newMap, diff[a].Hostname) && diff[a] == oldMap[diff[a].Hostname])
//@   loop oldTunnel: invariant changed-so-far: forall h string {pos[h]} :: (visited[h] && has(oldMap, h) && has(newMap, h) && differs(oldMap[h], newMap[h])) ==> (0 <= pos[h] && pos[h] < len(diff) && diff[pos[h]] == oldMap[h])
//@   loop 4: invariant maps-kept: fresh(oldMap) && fresh(newMap) && oldMap != newMap && unchanged(old) && unchanged(new) && fresh(diff) && 0 <= len(diff) && (forall h string :: visited[h] ==> has(oldMap, h))
//@   loop 4: invariant indexes-kept: (forall i int {old[i]} :: (0 <= i && i < len(old) && old[i].Hostname != "") ==> has(oldMap, old[i].Hostname)) && (forall h string {oidx[h]} :: has(oldMap, h) ==> (h != "" && 0 <= oidx[h] && oidx[h] < len(old) && old[oidx[h]] == oldMap[h] && oldMap[h].Hostname == h)) && (forall i int {new[i]} :: (0 <= i && i < len(new) && new[i].Hostname != "") ==> has(newMap, new[i].Hostname)) && (forall h string {nidx[h]} :: has(newMap, h) ==> (h != "" && 0 <= nidx[h] && nidx[h] < len(new) && new[nidx[h]] == newMap[h] && newMap[h].Hostname == h))
//@   loop 4: invariant sound: forall a int {diff[a]} :: (0 <= a && a < len(diff)) ==> (outdated(oldMap, newMap, diff[a].Hostname) && diff[a] == oldMap[diff[a].Hostname])
//@   loop 4: invariant changed-all: forall h string {pos[h]} :: (has(oldMap, h) && has(newMap, h) && differs(oldMap[h], newMap[h])) ==> (0 <= pos[h] && pos[h] < len(diff) && diff[pos[h]] == oldMap[h])
//@   loop 4: invariant removed-so-far: forall h string {pos[h]} :: (visited[h] && has(oldMap, h) && !has(newMap, h)) ==> (0 <= pos[h] && pos[h] < len(diff) && diff[pos[h]] == oldMap[h])

//@ func (c *Client) closeOutdatedProxies(tunnels []Tunnel)
//@   safety off
//@   opt frame=off
//@   requires env-the-proxy-cache-exists: c.proxies != nil
//@   ensures proxies-of-the-listed-hostnames-are-gone: forall i int {tunnels[i]} :: (0 <= i && i < len(tunnels)) ==> !c.proxies.keys[tunnels[i].Hostname]
//@   ensures other-proxies-are-kept: forall h string {c.proxies.keys[h]} :: (forall i int {tunnels[i]} :: (0 <= i && i < len(tunnels)) ==> tunnels[i].Hostname != h) ==> (c.proxies.keys[h] == old(c.proxies.keys[h]))
//@   ensures no-proxy-appears: forall h string {c.proxies.keys[h]} :: c.proxies.keys[h] ==> old(c.proxies.keys[h])
//@   loop t: invariant gone-so-far: -1 <= rangeindex && rangeindex < len(tunnels) && unchanged(tunnels) && c.proxies == old(c.proxies) && (forall i int {tunnels[i]} :: (0 <= i && i <= rangeindex) ==> !c.proxies.keys[tunnels[i].Hostname])
//@   loop t: invariant others-kept: (forall h string {c.proxies.keys[h]} :: (forall i int {tunnels[i]} :: (0 <= i && i <= rangeindex) ==> tunnels[i].Hostname != h) ==> (c.proxies.keys[h] == old(c.proxies.keys[h]))) && (forall h string {c.proxies.keys[h]} :: c.proxies.keys[h] ==> old(c.proxies.keys[h]))

//@ macro routeOf(t Tunnel, r route) bool = r.parsed == t.parsed && r.insecure == t.Insecure && r.proxyHeaderReadTimeout == t.ProxyHeaderTimeout && r.proxyHeaderHost == t.ProxyHeaderHost && r.proxyHeaderMode == t.ProxyHeaderMode
//@ func (c *Config) buildRouter(drop []Tunnel)
//@   safety off
//@   opt frame=off
//@   requires env-the-router-exists: c.router != nil
//@   requires env-current-hostnames-are-distinct: forall i, j int {c.Tunnels[i], c.Tunnels[j]} :: (0 <= i && i < j && j < len(c.Tunnels) && c.Tunnels[i].Hostname != "" && c.Tunnels[j].Hostname != "") ==> c.Tunnels[i].Hostname != c.Tunnels[j].Hostname
//@   ensures every-current-tunnel-is-routed-with-its-current-settings: forall i int {c.Tunnels[i]} :: (0 <= i && i < len(c.Tunnels) && c.Tunnels[i].Hostname != "") ==> (c.router.keys[c.Tunnels[i].Hostname] && routeOf(c.Tunnels[i], c.router.m[c.Tunnels[i].Hostname]))
//@   ensures dropped-hostnames-not-in-the-current-list-are-unrouted: forall j int {drop[j]} :: (0 <= j && j < len(drop) && (forall i int {c.Tunnels[i]} :: (0 <= i && i < len(c.Tunnels)) ==> c.Tunnels[i].Hostname != drop[j].Hostname)) ==> !c.router.keys[drop[j].Hostname]
//@   loop 1: invariant dropped-so-far: -1 <= rangeindex && rangeindex < len(drop) && unchanged(drop) && unchanged(c.Tunnels) && c.router == old(c.router) && c.Tunnels == old(c.Tunnels) && (forall j int {drop[j]} :: (0 <= j && j <= rangeindex) ==> !c.router.keys[drop[j].Hostname])
//@   loop 2: invariant kept: -1 <= rangeindex#2 && rangeindex#2 < len(c.Tunnels) && unchanged(drop) && unchanged(c.Tunnels) && c.router == old(c.router) && c.Tunnels == old(c.Tunnels)
//@   loop 2: invariant routed-so-far: forall i int {c.Tunnels[i]} :: (0 <= i && i <= rangeindex#2 && c.Tunnels[i].Hostname != "") ==> (c.router.keys[c.Tunnels[i].Hostname] && routeOf(c.Tunnels[i], c.router.m[c.Tunnels[i].Hostname]))
//@   loop 2: invariant dropped-stay-out: forall j int {drop[j]} :: (0 <= j && j < len(drop) && (forall i int {c.Tunnels[i]} :: (0 <= i && i <= rangeindex#2) ==> c.Tunnels[i].Hostname != drop[j].Hostname)) ==> !c.router.keys[drop[j].Hostname]

// validate only fills in the parsed target of each tunnel
//@ func (c *Config) validate() (err error)
//@   safety off
//@   opt frame=off
//@   opt strings=abstract
//@   ensures same-tunnels-same-hostnames: c.Tunnels == old(c.Tunnels) && c.router == old(c.router) && (forall i int {c.Tunnels[i]} :: (0 <= i && i < len(c.Tunnels)) ==> (c.Tunnels[i].Hostname == old(c.Tunnels[i].Hostname) && c.Tunnels[i].Target == old(c.Tunnels[i].Target) && c.Tunnels[i].Insecure == old(c.Tunnels[i].Insecure) && c.Tunnels[i].ProxyHeaderTimeout == old(c.Tunnels[i].ProxyHeaderTimeout) && c.Tunnels[i].ProxyHeaderHost == old(c.Tunnels[i].ProxyHeaderHost) && c.Tunnels[i].ProxyHeaderMode == old(c.Tunnels[i].ProxyHeaderMode)))
//@   loop tunnel: invariant only-parsed-changes: -1 <= rangeindex && rangeindex < len(c.Tunnels) && c.Tunnels == old(c.Tunnels) && c.router == old(c.router) && (forall i int {c.Tunnels[i]} :: (0 <= i && i < len(c.Tunnels)) ==> (c.Tunnels[i].Hostname == old(c.Tunnels[i].Hostname) && c.Tunnels[i].Target == old(c.Tunnels[i].Target) && c.Tunnels[i].Insecure == old(c.Tunnels[i].Insecure) && c.Tunnels[i].ProxyHeaderTimeout == old(c.Tunnels[i].ProxyHeaderTimeout) && c.Tunnels[i].ProxyHeaderHost == old(c.Tunnels[i].ProxyHeaderHost) && c.Tunnels[i].ProxyHeaderMode == old(c.Tunnels[i].ProxyHeaderMode)))

//@ func (c *Client) RebuildTunnels(tunnels []Tunnel)
//@   safety off
//@   opt frame=off
//@   ghost cfgLocked bool = false
//@   at call Lock#*: ghost cfgLocked := true
//@   at call Unlock#?: ghost cfgLocked := false
//@   at call writeFile#*: assert the-live-configuration-is-saved-under-its-write-lock: cfgLocked && callarg0 == c.Configuration
//@   requires c.proxies != nil && c.Configuration != nil && c.Configuration.router != nil
//@   requires new-hostnames-are-distinct: forall i, j int {tunnels[i], tunnels[j]} :: (0 <= i && i < j && j < len(tunnels) && tunnels[i].Hostname != "" && tunnels[j].Hostname != "") ==> tunnels[i].Hostname != tunnels[j].Hostname
//@   ghost d []Tunnel
//@   ghost diffed bool = false
//@   ghost closed bool = false
//@   ghost installed bool = false
//@   at call diffTunnels#1: assert the-outdated-set-is-computed-from-the-previous-and-the-new-list: callarg0 == c.Configuration.Tunnels && callarg1 == tunnels && !installed
//@   at after call diffTunnels#1: ghost d := callresult
//@   at after call diffTunnels#1: ghost diffed := true
//@   at call closeOutdatedProxies#1: assert outdated-proxies-are-closed-before-the-new-list-is-installed: diffed && !installed && callarg1 == d
//@   at call closeOutdatedProxies#1: ghost closed := true
//@   at store Tunnels#1: assert new-list-is-installed-after-closing: closed
//@   at store Tunnels#1: ghost installed := true
//@   at call buildRouter#1: assert router-is-rebuilt-from-the-new-list-dropping-the-outdated-hostnames: installed && callarg0 == c.Configuration && callarg1 == d
//@   ensures local-all-steps-happen: diffed && closed && installed

//@ func (c *Client) doReload$1(prev []Tunnel, curr []Tunnel)
//@   safety off
//@   opt frame=off
//@   requires c.proxies != nil && c.Configuration != nil && c.Configuration.router != nil
//@   requires the-reloaded-list-is-installed-with-distinct-hostnames: forall i, j int {c.Configuration.Tunnels[i], c.Configuration.Tunnels[j]} :: (0 <= i && i < j && j < len(c.Configuration.Tunnels) && c.Configuration.Tunnels[i].Hostname != "" && c.Configuration.Tunnels[j].Hostname != "") ==> c.Configuration.Tunnels[i].Hostname != c.Configuration.Tunnels[j].Hostname
//@   ghost d []Tunnel
//@   ghost diffed bool = false
//@   ghost closed bool = false
//@   at call diffTunnels#1: assert outdated-means-in-the-previous-list-but-gone-or-changed-in-the-current-one: callarg0 == prev && callarg1 == curr
//@   at after call diffTunnels#1: ghost d := callresult
//@   at after call diffTunnels#1: ghost diffed := true
//@   at call closeOutdatedProxies#1: assert outdated-proxies-are-closed: diffed && callarg1 == d
//@   at call closeOutdatedProxies#1: ghost closed := true
//@   at call buildRouter#1: assert router-drops-the-outdated-hostnames: closed && callarg0 == c.Configuration && callarg1 == d

// ---- C43: hostname assignment during tunnel sync
//@ macro reusable(inused map[string]string, h string) bool = !contains(h, ".") && !has(inused, h)
//@ func (c *Client) SyncConfigTunnels(ctx context.Context)
//@   safety off
//@   opt frame=off
//@   requires env-the-client-is-initialised: c.Configuration != nil && c.proxies != nil && c.Configuration.router != nil && c.connections != nil
//@   requires env-configured-hostnames-are-distinct: forall i, j int {c.Configuration.Tunnels[i], c.Configuration.Tunnels[j]} :: (0 <= i && i < j && j < len(c.Configuration.Tunnels) && c.Configuration.Tunnels[i].Hostname != "" && c.Configuration.Tunnels[j].Hostname != "") ==> c.Configuration.Tunnels[i].Hostname != c.Configuration.Tunnels[j].Hostname
//@   ghost t0 gmap[int]Tunnel
//@   ghost n0 int = 0
//@   ghost av0 gmap[int]string
//@   ghost nav int = 0
//@   ghost asrc gmap[int]int
//@   ghost apos gmap[int]int
//@   ghost from gmap[int]int
//@   ghost fresh set[string] = emptyset(string)
//@   ghost requested bool = false
//@   ghost failed bool = false
//@   ghost reg0 gmap[int]string
//@   at after call GetRegisteredHostnames#1: ghost reg0 := snap(callresult0)
//@   at after call GetRegisteredHostnames#1: assume registered-hostnames-are-distinct-and-non-empty: forall i, j int {reg0[i], reg0[j]} :: (0 <= i && i < len(callresult0)) ==> (reg0[i] != "" && ((i < j && j < len(callresult0)) ==> reg0[i] != reg0[j]))
//@   at after call append#1: ghost t0 := snap(callresult)
//@   at after call append#1: ghost n0 := len(callresult)
//@   at after call append#1: assume the-copy-holds-the-configured-tunnels: len(callresult) == len(c.Configuration.Tunnels) && fresh(callresult) && (forall i int {callresult[i]} :: (0 <= i && i < len(callresult)) ==> callresult[i] == c.Configuration.Tunnels[i])
//@   at call append#2: ghost asrc[len(available)] := rangeindex#2
//@   at call append#2: ghost apos[rangeindex#2] := len(available)
//@   at call append#2: ghost av0[len(available)] := hostname
//@   at call append#2: ghost nav := len(available) + 1
//@   at call requestHostname#1: assert a-new-name-is-requested-only-when-no-reusable-name-is-left: len(available) == 0
//@   at after call requestHostname#1: assume a-generated-name-is-new: callresult1 == nil ==> (callresult0 != "" && !has(inused, callresult0) && !fresh[callresult0] && (forall a int {av0[a]} :: (0 <= a && a < nav) ==> av0[a] != callresult0))
//@   at after call requestHostname#1: ghost failed := failed || callresult1 != nil
//@   at after call requestHostname#1: ghost requested := callresult1 == nil
//@   at store Hostname#1: assert the-assigned-name-is-the-reused-or-the-generated-one: requested || (nav - len(available) >= 1 && name == av0[nav - len(available) - 1])
//@   at store Hostname#1: ghost from[i] := requested ? -1 : nav - len(available) - 1
//@   at store Hostname#1: ghost fresh := requested ? add(fresh, name) : fresh
//@   at store Hostname#1: ghost requested := false
//@   at call RebuildTunnels#1: assert configured-hostnames-and-targets-are-kept: len(callarg1) == n0 && (forall i int {callarg1[i]} :: (0 <= i && i < n0) ==> (callarg1[i].Target == t0[i].Target && (t0[i].Hostname != "" ==> callarg1[i].Hostname == t0[i].Hostname)))
//@   at call RebuildTunnels#1: assert no-two-tunnels-share-a-hostname: forall p, q int {callarg1[p], callarg1[q]} :: (0 <= p && p < q && q < n0 && callarg1[p].Hostname != "" && callarg1[q].Hostname != "") ==> callarg1[p].Hostname != callarg1[q].Hostname
//@   at call RebuildTunnels#1: assert every-tunnel-with-a-target-has-a-hostname-unless-a-request-failed: !failed ==> (forall i int {callarg1[i]} :: (0 <= i && i < n0 && callarg1[i].Target != "") ==> callarg1[i].Hostname != "")
//@   at call RebuildTunnels#1: assert assigned-names-are-generated-or-reusable-registered-ones: forall i int {callarg1[i]} :: (0 <= i && i < n0 && t0[i].Hostname == "" && callarg1[i].Hostname != "") ==> (fresh[callarg1[i].Hostname] || (0 <= from[i] && from[i] < nav && callarg1[i].Hostname == av0[from[i]] && reusable(inused, av0[from[i]])))
//@   loop t: invariant inuse-so-far: -1 <= rangeindex && rangeindex < len(tunnels) && len(tunnels) == n0 && fresh(tunnels) && fresh(inused) && len(available) == 0 && fresh(available) && nav == 0 && !requested && !failed && (forall j int {tunnels[j]} :: (0 <= j && j <= rangeindex) ==> has(inused, tunnels[j].Hostname)) && (forall h string :: has(inused, h) ==> (exists j int :: 0 <= j && j <= rangeindex && tunnels[j].Hostname == h)) && (forall h string :: !fresh[h])
//@   loop t: invariant copy-kept: forall i int {tunnels[i]} :: (0 <= i && i < n0) ==> tunnels[i] == t0[i]
//@   loop hostname: invariant idx: -1 <= rangeindex#2 && rangeindex#2 < len(registered) && len(tunnels) == n0 && fresh(tunnels) && fresh(available) && 0 <= len(available) && len(available) <= rangeindex#2 + 1 && nav == len(available) && !requested && !failed && (forall h string :: !fresh[h]) && available.ref != registered.ref && (forall j int {registered[j]} :: (0 <= j && j < len(registered)) ==> registered[j] == reg0[j])
//@   loop hostname: invariant copy-kept: forall i int {tunnels[i]} :: (0 <= i && i < n0) ==> tunnels[i] == t0[i]
//@   loop hostname: invariant reusable-names: forall a int {available[a]} {av0[a]} :: (0 <= a && a < len(available)) ==> (available[a] == av0[a] && 0 <= asrc[a] && asrc[a] <= rangeindex#2 && available[a] == registered[asrc[a]] && reusable(inused, available[a]))
//@   loop hostname: invariant in-registration-order: (forall a, b int {asrc[a], asrc[b]} :: (0 <= a && a < b && b < len(available)) ==> asrc[a] < asrc[b]) && (forall a int {asrc[a]} :: (0 <= a && a < len(available)) ==> (0 <= asrc[a] && asrc[a] <= rangeindex#2))
//@   loop hostname: invariant all-reusable-names-collected: forall j int {apos[j]} {reg0[j]} :: (0 <= j && j <= rangeindex#2 && reusable(inused, registered[j])) ==> (0 <= apos[j] && apos[j] < len(available) && available[apos[j]] == registered[j])
//@   loop i: invariant idx: -1 <= rangeindex#3 && rangeindex#3 < n0 && len(tunnels) == n0 && fresh(tunnels) && 0 <= len(available) && len(available) <= nav && !requested
//@   loop i: invariant every-reusable-registered-name-is-in-the-pool: forall j int {apos[j]} {reg0[j]} :: (0 <= j && j < len(registered) && reusable(inused, reg0[j])) ==> (0 <= apos[j] && apos[j] < nav && av0[apos[j]] == reg0[j])
//@   loop i: invariant remaining-names-are-a-suffix: forall a int {available[a]} :: (0 <= a && a < len(available)) ==> available[a] == av0[nav - len(available) + a]
//@   loop i: invariant reusable-pool: (forall a int {av0[a]} :: (0 <= a && a < nav) ==> (reusable(inused, av0[a]) && av0[a] != "" && !fresh[av0[a]])) && (forall a, b int {av0[a], av0[b]} :: (0 <= a && a < b && b < nav) ==> av0[a] != av0[b])
//@   loop i: invariant generated-names-are-new: forall h string {fresh[h]} :: fresh[h] ==> (h != "" && !has(inused, h))
//@   loop i: invariant kept: forall j int {tunnels[j]} :: (0 <= j && j < n0) ==> (tunnels[j].Target == t0[j].Target && (t0[j].Hostname != "" ==> tunnels[j].Hostname == t0[j].Hostname) && (j > rangeindex#3 ==> tunnels[j] == t0[j]) && (t0[j].Hostname != "" ==> has(inused, t0[j].Hostname)))
//@   loop i: invariant classified: forall j int {tunnels[j]} :: (0 <= j && j <= rangeindex#3 && t0[j].Hostname == "" && tunnels[j].Hostname != "") ==> (fresh[tunnels[j].Hostname] || (0 <= from[j] && from[j] < nav - len(available) && tunnels[j].Hostname == av0[from[j]]))
//@   loop i: invariant reused-indexes-are-distinct: forall p, q int {from[p], from[q]} :: (0 <= p && p < q && q <= rangeindex#3 && t0[p].Hostname == "" && tunnels[p].Hostname != "" && !fresh[tunnels[p].Hostname] && t0[q].Hostname == "" && tunnels[q].Hostname != "" && !fresh[tunnels[q].Hostname]) ==> from[p] != from[q]
//@   loop i: invariant distinct: forall p, q int {tunnels[p], tunnels[q]} :: (0 <= p && p < q && q < n0 && tunnels[p].Hostname != "" && tunnels[q].Hostname != "") ==> tunnels[p].Hostname != tunnels[q].Hostname
//@   loop i: invariant assigned-unless-failed: !failed ==> (forall j int {tunnels[j]} :: (0 <= j && j <= rangeindex#3 && tunnels[j].Target != "") ==> tunnels[j].Hostname != "")

// ---- C44: a configuration file that is refused (unreadable, undecodable or invalid) leaves the tunnel list exactly
// as it was, so that the next accepted file is diffed against what the router and proxy cache really hold; the
// reload callbacks run only for an accepted file, with the previous and the new list
//@ func (c *Config) reloadFile(callbacks []func(prev []Tunnel, curr []Tunnel)) (err error)
//@   safety off
//@   opt frame=off
//@   requires c != nil
//@   ghost validated int = 0
//@   ghost verr error = nil
//@   ghost cbs int = 0
//@   at call validate#*: assert the-new-file-is-validated-before-anything-is-adopted: c.Tunnels == old(c.Tunnels) && validated == 0 && callarg0 != c
//@   at after call validate#*: ghost verr := callresult
//@   at after call validate#*: ghost validated := validated + 1
//@   at call dyn#*: assert callbacks-run-only-for-an-accepted-file: validated == 1 && verr == nil
//@   at call dyn#*: ghost cbs := cbs + 1
//@   ensures a-refused-file-leaves-the-tunnel-list-untouched: err != nil ==> c.Tunnels == old(c.Tunnels)
//@   ensures local-an-invalid-file-is-refused: (validated == 1 && verr != nil) ==> (err != nil && cbs == 0)
//@   ensures local-success-means-validated: err == nil ==> (validated == 1 && verr == nil)

// ---- C45 (lock discipline around the configuration file): a reload reads and adopts the file only while holding
// the configuration write lock (the same lock every save holds), so that it can never parse a half-written save;
// the lock is released on both outcomes and before the (slow) tunnel synchronisation starts
//@ func (c *Client) doReload(ctx context.Context)
//@   safety off
//@   opt frame=off
//@   requires c != nil && c.Configuration != nil
//@   ghost held int = 0
//@   ghost reloads int = 0
//@   ghost rerr error = nil
//@   ghost synced int = 0
//@   at call Lock#*: ghost held := held + 1
//@   at call Unlock#*: assert only-a-held-lock-is-released: held == 1
//@   at call Unlock#*: ghost held := held - 1
//@   at call reloadFile#*: assert the-file-is-read-and-adopted-under-the-configuration-write-lock: held == 1 && reloads == 0 && callarg0 == c.Configuration
//@   at after call reloadFile#*: ghost rerr := callresult
//@   at after call reloadFile#*: ghost reloads := reloads + 1
//@   at call SyncConfigTunnels#?: assert tunnels-are-synchronised-only-after-an-accepted-reload-and-without-the-lock: reloads == 1 && rerr == nil && held == 0
//@   at call SyncConfigTunnels#?: ghost synced := synced + 1
//@   ensures local-the-lock-is-released-on-every-outcome: held == 0 && reloads == 1
//@   ensures local-a-refused-reload-synchronises-nothing: rerr != nil ==> synced == 0

// the background certificate maintenance runs inside the goroutine that Close waits for: a renewal (and the save it
// triggers) is never left running after Close returned
//@ func (c *Client) certificateMaintainer(ctx context.Context)
//@   safety off
//@   opt frame=off
//@   requires c != nil
//@   at go checkAndRenewCertificate#?: assert renewals-are-not-detached-from-the-goroutine-close-waits-for: false
//@   ghost lastCase int = -1
//@   at after select#*: ghost lastCase := callresult0
//@   ensures local-the-maintainer-stops-only-when-the-client-closes-or-its-context-ends: lastCase == 0 || lastCase == 1 || (lastCase == -1 && c.PKIClient == nil)

// ---- C44 (removal of a published tunnel): after the server acknowledged, the entry with the requested hostname is
// removed from the list, and both the proxy cache and the router are told about the REQUESTED hostname (by value, not
// through an alias of the slot that the in-place removal overwrites); a failed server call changes nothing
//@ func (c *Client) tunnelRemovalWrapper(tunnel Tunnel, fn func() error) (err error)
//@   safety off
//@   opt frame=off
//@   ghost cfgLocked bool = false
//@   at call Lock#*: ghost cfgLocked := true
//@   at call Unlock#?: ghost cfgLocked := false
//@   at call writeFile#*: assert the-live-configuration-is-saved-under-its-write-lock: cfgLocked && callarg0 == c.Configuration
//@   requires c != nil && c.Configuration != nil
//@   ghost acked int = 0
//@   ghost aerr error = nil
//@   ghost closed int = 0
//@   ghost rebuilt int = 0
//@   at after call dyn#1: ghost aerr := callresult
//@   at after call dyn#1: ghost acked := acked + 1
//@   at call closeOutdatedProxies#*: assert the-cached-proxy-of-the-requested-hostname-is-closed: acked == 1 && aerr == nil && len(callarg1) == 1 && callarg1[0].Hostname == tunnel.Hostname && closed == 0
//@   at call closeOutdatedProxies#*: ghost closed := closed + 1
//@   at call buildRouter#*: assert the-route-of-the-requested-hostname-is-dropped: closed == 1 && len(callarg1) == 1 && callarg1[0].Hostname == tunnel.Hostname && rebuilt == 0
//@   at call buildRouter#*: ghost rebuilt := rebuilt + 1
//@   ensures local-a-refused-removal-changes-nothing: (acked == 1 && aerr != nil) ==> (err == aerr && closed == 0 && rebuilt == 0)
//@   ensures local-cache-and-router-are-updated-together: closed == rebuilt

//@ func (c *Client) UpdateApex(apex string)
//@   safety off
//@   opt frame=off
//@   requires c != nil && c.Configuration != nil
//@   ghost cfgLocked bool = false
//@   at call Lock#*: ghost cfgLocked := true
//@   at call Unlock#*: ghost cfgLocked := false
//@   at call writeFile#*: assert the-live-configuration-is-saved-under-its-write-lock: cfgLocked && callarg0 == c.Configuration
//@   ensures local-the-lock-is-released: !cfgLocked

// Close returns only after every background goroutine it tracks has finished (so no configuration save is left
// running when the process exits): the wait is a direct, unbounded WaitGroup.Wait at the end of Close
//@ func (c *Client) Close()
//@   safety off
//@   opt frame=off
//@   requires c != nil && c.proxies != nil
//@   ghost waited int = 0
//@   ghost signalled int = 0
//@   at call close#*: ghost signalled := signalled + 1
//@   at call Wait#*: assert the-background-goroutines-are-told-to-stop-before-close-waits-for-them: signalled == 1 && waited == 0
//@   at after call Wait#*: ghost waited := waited + 1
//@   at go Close$2#?: assert the-wait-is-not-delegated-to-a-goroutine-that-close-may-abandon: false
//@   ensures local-close-returns-only-after-the-tracked-goroutines-finished-or-it-was-already-closed: waited == 1 || signalled == 0

// the background renewal adopts and saves the renewed certificate only while holding the configuration write lock
// (taken after the RPC, held until return), and only if the certificate is still the one the renewal started from
//@ func (c *Client) checkAndRenewCertificate(ctx context.Context)
//@   safety off
//@   opt frame=off
//@   requires c != nil
//@   requires env-a-client-is-always-built-around-a-configuration: c.Configuration != nil
//@   ghost wlocked bool = false
//@   ghost wheld bool = false
//@   ghost rpcs int = 0
//@   at after call performRenewalRPC#*: ghost rpcs := rpcs + 1
//@   at call Lock#*: assert the-write-lock-is-taken-after-the-slow-rpc: rpcs == 1
//@   at call Lock#*: ghost wlocked := true
//@   at defer Unlock#*: ghost wheld := true
//@   at call Unlock#?: assert the-write-lock-is-held-until-return: false
//@   at call updateConfigurationWithCert#*: assert the-renewed-certificate-is-adopted-and-saved-under-the-write-lock-for-an-unchanged-configuration: wlocked && wheld && c.Configuration.Certificate == certPEM
