//go:build verif

// Contracts for package overlay, checked by /verif/bin/specv.
// This file contains no executable code; only the //@ lines are read.
package overlay

// ---- C41: per-call clauses of the connection reuse negotiation (the convergence of two concurrent
// negotiations is a schedule property and is not decided here).
//@ func (t *QUIC) reuseConnection(ctx context.Context, q *quic.Conn, s *quic.Stream, dir direction) (conn *nodeConnection, reused bool, err error)
//@   safety off
//@   opt frame=off
//@   requires t != nil && t.cachedConnections != nil
//@   at call ExtractCertificateIdentity#1: assume crypto-tls-verified-chains-hold-parsed-certificates: callarg0 != nil
//@   requires cached-entries-are-existing-connections: forall k string {t.cachedConnections.m[k]} :: t.cachedConnections.keys[k] ==> (t.cachedConnections.m[k] != nil && allocated(t.cachedConnections.m[k]))
//@   ghost locked bool = false
//@   ghost rechecked bool = false
//@   ghost lastLoaded *nodeConnection = nil
//@   ghost lastOk bool = false
//@   ghost stored bool = false
//@   ghost closedFresh bool = false
//@   at call Lock#1: ghost locked := true
//@   at after call Lock#1: havoc t.cachedConnections.m, t.cachedConnections.keys
//@   at after call Lock#1: assume other-negotiations-may-have-cached-a-connection-meanwhile-entries-stay-existing-connections: forall k string {t.cachedConnections.m[k]} :: t.cachedConnections.keys[k] ==> (t.cachedConnections.m[k] != nil && allocated(t.cachedConnections.m[k]) && t.cachedConnections.m[k] != fresh)
//@   at call Load#*: assert cache-is-read-under-the-peers-key: callarg1 == qKey
//@   at after call Load#*: ghost lastLoaded := callresult0
//@   at after call Load#*: ghost lastOk := callresult1
//@   at after call Load#*: ghost rechecked := locked
//@   at call CloseWithError#*: assert only-the-new-connection-is-ever-closed-by-the-negotiation: callarg0 == q && callarg0 == fresh.quic && lastOk && locked
//@   at call CloseWithError#*: ghost closedFresh := true
//@   at call Store#*: assert a-new-connection-is-cached-only-if-the-peer-caches-the-same-one-and-none-is-cached: locked && rechecked && !lastOk && callarg1 == qKey && callarg2 == fresh && negotiation.CacheState == protocol.Connection_FRESH && ((negotiation.CacheDirection == protocol.Connection_INCOMING && dir != directionIncoming) || (negotiation.CacheDirection == protocol.Connection_OUTGOING && dir == directionIncoming))
//@   at call Store#*: ghost stored := true
//@   ensures local-a-reused-connection-is-the-cached-entry-and-stays-open: reused ==> (err == nil && conn == lastLoaded && lastOk && conn != fresh && !stored)
//@   ensures local-a-redundant-new-connection-is-closed-by-exactly-the-side-the-table-names: reused ==> (closedFresh == !(negotiation.CacheState == protocol.Connection_CACHED && negotiation.CacheDirection == protocol.Connection_OUTGOING))
//@   ensures local-a-new-connection-is-returned-only-after-it-was-cached: (!reused && conn != nil) ==> (err == nil && conn == fresh && stored && !closedFresh)
//@   ensures local-errors-return-nothing-and-cache-nothing: err != nil ==> (conn == nil && !reused && !stored)

//@ func (t *QUIC) reapPeer(q *quic.Conn, peer *protocol.Node)
//@   safety off
//@   opt frame=off
//@   requires t != nil && t.cachedConnections != nil
//@   ghost locked bool = false
//@   ghost key string = ""
//@   at after call makeCachedKey#1: ghost key := callresult
//@   at call Lock#1: assert the-peers-key-is-locked: callarg1 == key
//@   at call Lock#1: ghost locked := true
//@   at call LoadAndDelete#1: assert entry-is-removed-under-the-same-key-lock: locked && callarg1 == key
//@   ensures the-peer-has-no-cached-connection-afterwards: !t.cachedConnections.keys[key]
