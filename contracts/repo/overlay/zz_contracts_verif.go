//go:build verif

// Contracts for package overlay, checked by /verif/bin/specv.
// This file contains no executable code; only the //@ lines are read.
package overlay

//@ func wrapReuseError(msg string) (r error)
//@   ensures an-error-is-returned: r != nil

// ---- C41: per-call clauses of the connection reuse negotiation (the convergence of two concurrent
// negotiations is a schedule property and is not decided here).
//@ func (t *QUIC) reuseConnection(ctx context.Context, q *quic.Conn, s *quic.Stream, dir direction) (conn *nodeConnection, reused bool, err error)
//@   safety off
//@   opt frame=off
//@   requires t != nil && t.cachedConnections != nil
//@   at call ExtractCertificateIdentity#1: assume crypto-tls-verified-chains-hold-parsed-certificates: callarg0 != nil
//@   requires env-cached-entries-are-existing-connections: forall k string {t.cachedConnections.m[k]} :: t.cachedConnections.keys[k] ==> (t.cachedConnections.m[k] != nil && allocated(t.cachedConnections.m[k]))
//@   ghost locked bool = false
//@   ghost rechecked bool = false
//@   ghost lastLoaded *nodeConnection = nil
//@   ghost lastOk bool = false
//@   ghost stored bool = false
//@   ghost closedFresh bool = false
//@   ghost reported bool = false
//@   ghost reportedCached bool = false
//@   ghost sampled *nodeConnection = nil
//@   at call Send#2: assert the-cache-state-reported-to-the-peer-is-the-one-sampled-under-the-read-lock: !locked && callarg1 == negotiation && (lastOk ==> (negotiation.CacheState == protocol.Connection_CACHED && negotiation.CacheDirection == (lastLoaded.direction == directionIncoming ? protocol.Connection_INCOMING : protocol.Connection_OUTGOING))) && (!lastOk ==> (negotiation.CacheState == protocol.Connection_FRESH && negotiation.CacheDirection == (dir == directionIncoming ? protocol.Connection_INCOMING : protocol.Connection_OUTGOING)))
//@   at call Send#2: ghost reported := true
//@   at call Send#2: ghost reportedCached := lastOk
//@   at call Send#2: ghost sampled := lastLoaded
//@   at call Lock#1: ghost locked := true
//@   at after call Lock#1: havoc t.cachedConnections.m, t.cachedConnections.keys
//@   at after call Lock#1: assume other-negotiations-may-have-cached-a-connection-meanwhile-entries-stay-existing-connections: forall k string {t.cachedConnections.m[k]} :: t.cachedConnections.keys[k] ==> (t.cachedConnections.m[k] != nil && allocated(t.cachedConnections.m[k]) && t.cachedConnections.m[k] != fresh)
//@   at call Load#*: assert cache-is-read-under-the-peers-key: callarg1 == qKey
//@   at after call Load#*: ghost lastLoaded := callresult0
//@   at after call Load#*: ghost lastOk := callresult1
//@   at after call Load#*: ghost rechecked := locked
//@   at call CloseWithError#*: assert only-the-new-connection-is-ever-closed-by-the-negotiation: callarg0 == q && callarg0 == fresh.quic && lastOk && locked
//@   at call CloseWithError#*: ghost closedFresh := true
//@   at call Store#*: assert a-new-connection-is-cached-only-if-the-peer-caches-the-same-one-and-none-is-cached: locked && rechecked && !lastOk && callarg1 == qKey && callarg2 == fresh && negotiation.CacheState == protocol.Connection_FRESH && ((negotiation.CacheDirection == protocol.Connection_INCOMING && dir != directionIncoming) || (negotiation.CacheDirection == protocol.Connection_OUTGOING && dir == directionIncoming))
//@   at call Store#*: assert a-new-connection-is-cached-only-by-a-side-that-reported-fresh-so-the-peer-decided-on-the-same-report: reported && !reportedCached
//@   at call Store#*: ghost stored := true
//@   ensures local-a-reused-connection-is-the-cached-entry-and-stays-open: reused ==> (err == nil && conn == lastLoaded && lastOk && conn != fresh && !stored)
//@   ensures local-a-side-that-reported-a-cached-connection-decides-on-that-connection: (reused && reportedCached) ==> conn == sampled
//@   ensures local-a-side-that-reported-fresh-reuses-only-what-it-found-under-the-write-lock: (reused && !reportedCached) ==> rechecked
//@   ensures local-a-redundant-new-connection-is-closed-by-exactly-the-side-the-table-names: reused ==> (closedFresh == !(negotiation.CacheState == protocol.Connection_CACHED && negotiation.CacheDirection == protocol.Connection_OUTGOING))
//@   ensures local-a-new-connection-is-returned-only-after-it-was-cached: (!reused && conn != nil) ==> (err == nil && conn == fresh && stored && !closedFresh)
//@   ensures local-errors-return-nothing-and-cache-nothing: err != nil ==> (conn == nil && !reused && !stored)
//@   ensures success-returns-a-connection: err == nil ==> conn != nil
//@   ensures a-new-connection-wraps-the-negotiated-quic-connection: (err == nil && !reused) ==> conn.quic == q

// The two callers of the negotiation. reapPeer (started by handlePeer's goroutines when the connection they watch
// closes) removes and closes WHATEVER is cached under the peer's key, so the per-connection handlers may only be
// started for the connection that the negotiation just cached - never for a redundant new connection that the
// negotiation closes, whose reaping would close the reused cached connection.
//@ func (t *QUIC) handleOutgoing(ctx context.Context, q *quic.Conn) (rq *quic.Conn, err error)
//@   safety off
//@   opt frame=off
//@   requires t != nil && t.cachedConnections != nil
//@   ghost negotiated bool = false
//@   ghost c *nodeConnection = nil
//@   ghost cq *quic.Conn = nil
//@   ghost cpeer *protocol.Node = nil
//@   ghost wasReused bool = false
//@   ghost nerr error = nil
//@   ghost started int = 0
//@   at call reuseConnection#1: assert the-dialed-connection-is-negotiated-as-outgoing: callarg2 == q && callarg4 == directionOutgoing && !negotiated
//@   at after call reuseConnection#1: ghost c := callresult0
//@   at after call reuseConnection#1: ghost cq := (callresult0 == nil ? nil : callresult0.quic)
//@   at after call reuseConnection#1: ghost cpeer := (callresult0 == nil ? nil : callresult0.peer)
//@   at after call reuseConnection#1: ghost wasReused := callresult1
//@   at after call reuseConnection#1: ghost nerr := callresult2
//@   at after call reuseConnection#1: ghost negotiated := true
//@   at call reuseConnection#?: assert negotiated-once: !negotiated
//@   at call handlePeer#?: assert handlers-are-started-only-for-the-connection-the-negotiation-just-cached: negotiated && nerr == nil && !wasReused && started == 0 && callarg2 == cq && cq == q && callarg3 == cpeer && callarg4 == directionOutgoing
//@   at call handlePeer#?: ghost started := started + 1
//@   ensures local-a-newly-cached-connection-gets-its-handlers-exactly-once: (err == nil && !wasReused) ==> started == 1
//@   ensures local-a-reused-or-failed-negotiation-starts-no-handlers: (err != nil || wasReused) ==> started == 0
//@   ensures local-the-negotiated-connection-is-returned: err == nil ==> (negotiated && nerr == nil && rq == cq)
//@   ensures local-errors-return-no-connection: err != nil ==> rq == nil

//@ func (t *QUIC) handleIncoming(ctx context.Context, q *quic.Conn) (rq *quic.Conn, err error)
//@   safety off
//@   opt frame=off
//@   requires t != nil && t.cachedConnections != nil
//@   ghost negotiated bool = false
//@   ghost c *nodeConnection = nil
//@   ghost cq *quic.Conn = nil
//@   ghost cpeer *protocol.Node = nil
//@   ghost wasReused bool = false
//@   ghost nerr error = nil
//@   ghost started int = 0
//@   at call reuseConnection#1: assert the-accepted-connection-is-negotiated-as-incoming: callarg2 == q && callarg4 == directionIncoming && !negotiated
//@   at after call reuseConnection#1: ghost c := callresult0
//@   at after call reuseConnection#1: ghost cq := (callresult0 == nil ? nil : callresult0.quic)
//@   at after call reuseConnection#1: ghost cpeer := (callresult0 == nil ? nil : callresult0.peer)
//@   at after call reuseConnection#1: ghost wasReused := callresult1
//@   at after call reuseConnection#1: ghost nerr := callresult2
//@   at after call reuseConnection#1: ghost negotiated := true
//@   at call reuseConnection#?: assert negotiated-once: !negotiated
//@   at call handlePeer#?: assert handlers-are-started-only-for-the-connection-the-negotiation-just-cached: negotiated && nerr == nil && !wasReused && started == 0 && callarg2 == cq && cq == q && callarg3 == cpeer && callarg4 == directionIncoming
//@   at call handlePeer#?: ghost started := started + 1
//@   ensures local-a-newly-cached-connection-gets-its-handlers-exactly-once: (err == nil && !wasReused) ==> started == 1
//@   ensures local-a-reused-or-failed-negotiation-starts-no-handlers: (err != nil || wasReused) ==> started == 0
//@   ensures local-the-negotiated-connection-is-returned: err == nil ==> (negotiated && nerr == nil && rq == cq)
//@   ensures local-errors-return-no-connection: err != nil ==> rq == nil

//@ func (t *QUIC) reapPeer(q *quic.Conn, peer *protocol.Node)
//@   safety off
//@   opt frame=off
//@   requires t != nil && t.cachedConnections != nil
//@   ghost locked bool = false
//@   ghost key string = ""
//@   at after call makeCachedKey#1: ghost key := callresult
//@   at call Lock#1: assert the-peers-key-is-locked: callarg1 == key
//@   at call Lock#1: ghost locked := true
//@   at call LoadAndDelete#1: assert entry-is-removed-under-the-same-key-lock: locked && callarg1 == key
//@   ensures the-peer-has-no-cached-connection-afterwards: !t.cachedConnections.keys[key]
