#!/bin/sh
# mirrors the master contract files into /repo (comment-only, //go:build verif) and commits them there
set -e
cd /verif/contracts/repo
find . -name "zz_*_verif.go" | while read f; do
  mkdir -p "/repo/$(dirname "$f")"; cp "$f" "/repo/$f"; git -C /repo add "$f"
done
if ! git -C /repo diff --cached --quiet; then
  git -C /repo commit -q -m "verif: contract comments (build tag verif, comment-only, no executable code)"
  echo committed
else echo "no change"; fi
