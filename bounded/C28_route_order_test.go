package server

// BOUNDED stand-in for the ordering clause of C28 ("routes through the local node first").
// The order produced by sort.SliceStable with the repository's comparator is outside the
// verifier's reach (reflection-based swapper, comparator that is not a strict weak order),
// so the REAL routeCacheLoader is executed on all 4^3 per-slot outcome vectors
// (L = route via the local node, R = route via a remote node, E = empty slot, X = lookup error).
// The bound is exhaustive for this function because the number of slots is the constant 3.

import (
	"bytes"
	"context"
	"fmt"
	"testing"

	"go.miragespace.co/specter/spec/protocol"
	"go.miragespace.co/specter/spec/tun"

	"github.com/stretchr/testify/mock"
	"github.com/stretchr/testify/require"
)

func TestVerifBounded(t *testing.T) {
	outcomes := []byte("LREX")
	cases := 0
	for a := 0; a < 4; a++ {
		for b := 0; b < 4; b++ {
			for c := 0; c < 4; c++ {
				vec := []byte{outcomes[a], outcomes[b], outcomes[c]}
				cases++
				as := require.New(t)
				_, node, clientT, _, serv := getFixture(t, as)
				cli, cht, tn := getIdentities()
				hostname := "bounded.example.com"
				nLocal, nRemote := 0, 0
				for i, o := range vec {
					key := []byte(tun.RoutingKey(hostname, i+1))
					match := mock.MatchedBy(func(k []byte) bool { return bytes.Equal(k, key) })
					switch o {
					case 'L', 'R':
						dst := tn
						if o == 'R' {
							dst = &protocol.Node{Address: fmt.Sprintf("remote-%d:123", i)}
							nRemote++
						} else {
							nLocal++
						}
						r := &protocol.TunnelRoute{ClientDestination: cli, ChordDestination: cht, TunnelDestination: dst, Hostname: hostname}
						buf, err := r.MarshalVT()
						as.NoError(err)
						node.On("Get", mock.Anything, match).Return(buf, nil)
					case 'E':
						node.On("Get", mock.Anything, match).Return([]byte{}, nil)
					case 'X':
						node.On("Get", mock.Anything, match).Return(nil, fmt.Errorf("lookup failed"))
					}
				}
				clientT.On("Identity").Return(tn).Maybe()
				ret, err := serv.routeCacheLoader(context.Background(), hostname)
				as.NoError(err)
				if ret.Value.err != nil {
					continue
				}
				if len(ret.Value.routes) != nLocal+nRemote {
					t.Fatalf("SPEC-VIOLATED slots %s: %d routes returned, %d decoded", vec, len(ret.Value.routes), nLocal+nRemote)
				}
				seenRemote := false
				for _, r := range ret.Value.routes {
					local := r.GetTunnelDestination().GetAddress() == tn.GetAddress()
					if !local {
						seenRemote = true
					} else if seenRemote {
						t.Fatalf("SPEC-VIOLATED slots %s: a route through the local node comes after a remote one", vec)
					}
				}
			}
		}
	}
	t.Logf("BOUNDED-CASES %d", cases)
}
