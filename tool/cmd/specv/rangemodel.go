package main

// Engine model of callback iteration over library collections (skipmap.*Map.Range,
// skipset.*Set.Range): a loop over the abstract content (absfields `keys` and, for maps, `m`)
// whose body is the callback. It is cut exactly like a source loop:
//   entry:  assert the invariant; havoc what the callback may write; assume the invariant;
//   step:   pick an arbitrary key that is present and not yet visited, mark it visited, run the
//           callback inline; if it returns true assert the invariant (path ends), if it returns
//           false the iteration stops and execution continues after the call;
//   exit:   every present key has been visited.
// The invariant is given in the unit's contract as `loop call Range#k: invariant ...` (or
// `loop $c/call Range#k:` inside closure $c) and may mention the ghost set `visited` (for nested
// iterations `visited` is the innermost one and `visitedOuter` the enclosing one).
// Assumed: the library visits each present entry at most once and, unless stopped, all of them;
// the visiting order is not modelled.

import (
	"fmt"
	"go/types"
	"strings"

	"golang.org/x/tools/go/ssa"
)

func (e *Engine) rangeModel(st *State, fn *ssa.Function, args []Val, site ssa.Instruction, k Cont) bool {
	if fn.Name() != "Range" || len(args) != 2 {
		return false
	}
	recv := args[0]
	if recv.K != kTerm {
		return false
	}
	keysH, keysS, keysT, ok := e.absFieldOf(recv.Typ, "keys")
	if !ok {
		return false
	}
	cl := args[1]
	if cl.K == kTerm {
		if cv, ok := e.closureRev[cl.T]; ok {
			cl = cv
		}
	}
	if cl.K != kClosure && cl.K != kFunc {
		limitf("Range with a callback that is not a function literal")
	}
	e.noteAssumption("library Range(callback) visits each present entry at most once and, unless the callback stops it, every entry; order not modelled")
	fr := st.top()
	keyT := keysT.(*GhostT).Key
	valH, valS, valT, hasVal := e.absFieldOf(recv.Typ, "m")

	// anchor and spec
	anchor := e.instrLabel(fr, site)
	prefix := ""
	evalFr := fr
	c := fr.contract
	if c == nil && fr.fn.Parent() != nil && e.unit.Fn != nil && len(st.frames) > 1 {
		root := fr.fn
		for root.Parent() != nil {
			root = root.Parent()
		}
		if root == e.unit.Fn {
			c = e.unit.C
			evalFr = st.frames[0]
			prefix = strings.TrimPrefix(fr.fn.Name(), root.Name()) + "/"
		}
	}
	var spec *LoopSpec
	if c != nil {
		for _, ls := range c.Loops {
			if ls.Anchor == prefix+anchor || (strings.HasSuffix(anchor, "#1") && ls.Anchor == prefix+strings.TrimSuffix(anchor, "#1")) {
				spec = ls
				e.usedRangeSpecs[ls] = true
			}
		}
	}
	pre := fmt.Sprintf("%s.range.%s", e.oblPrefix(fr.fn), strings.ReplaceAll(strings.TrimPrefix(anchor, "call "), " ", "_"))
	mkEnv := func(s *State) *Env {
		env := e.envFor(s, evalFr, s.old)
		env.extraFr = s.top()
		return env
	}
	// ghost visited set (shadowing an enclosing iteration's)
	savedVisited, hadVisited := st.ghost["visited"]
	visT := &GhostT{Kind: "set", Key: keyT}
	st.ghost["visited"] = term(e.zero(visT), visT)
	if hadVisited {
		st.ghost["visitedOuter"] = savedVisited
	}
	restore := func(s *State) {
		if hadVisited {
			s.ghost["visited"] = savedVisited
			delete(s.ghost, "visitedOuter")
		} else {
			delete(s.ghost, "visited")
		}
	}
	// entry
	if spec != nil {
		env := mkEnv(st)
		for _, inv := range spec.Invs {
			e.addObl(st, pre+".entry."+inv.Label, "invariant", inv.Src, e.evalBool(st, env, inv.E))
		}
	}
	// havoc what the callback may write
	heaps := map[string]bool{}
	var cbFn *ssa.Function = cl.Fn
	for h := range e.P.modset(e, cbFn) {
		heaps[h] = true
	}
	for _, a := range cbFn.AnonFuncs {
		for h := range e.P.modset(e, a) {
			heaps[h] = true
		}
	}
	var hs []string
	for h := range heaps {
		hs = append(hs, h)
	}
	for _, h := range hs {
		if f := e.frameFormula(st, h); f != "" {
			e.addObl(st, pre+".entry.frame."+h, "frame", "frame condition holds before the iteration", f)
		}
	}
	for _, h := range hs {
		e.heapHavoc(st, h)
	}
	for _, h := range hs {
		if f := e.frameFormula(st, h); f != "" {
			st.assume(f)
		}
	}
	// captured local cells (if any are plain cells)
	for _, b := range cl.Binds {
		if b.K == kPtr && b.P.Kind == pCell {
			old := st.cells[b.P.Cell]
			if old.K == kTerm {
				st.cells[b.P.Cell] = e.freshOf(st, "rv", old.Typ)
			}
		}
	}
	e.bumpAlloc(st)
	st.ghost["visited"] = term(e.S.Fresh("visited", e.sortOf(visT)), visT)
	// ghosts updated by at-anchors inside the callback
	if e.unit.C != nil {
		for _, at := range e.unit.C.Ats {
			if at.Kind == "ghost" && strings.Contains(at.Anchor, "/") {
				name := at.Var
				if i := strings.Index(name, "["); i > 0 {
					name = name[:i]
				}
				if g, ok := st.ghost[name]; ok {
					st.ghost[name] = term(e.S.Fresh("ghost_"+name, e.sortOf(g.Typ)), g.Typ)
				}
			}
		}
	}
	keysNow := func(s *State) string {
		return fmt.Sprintf("(select %s %s)", e.heapGet(s, keysH, keysS), e.absRef(recv))
	}
	// visited is a subset of the present keys
	{
		kv := "k!v"
		st.assume(fmt.Sprintf("(forall ((%s %s)) (! (=> (select %s %s) (select %s %s)) :pattern ((select %s %s))))",
			kv, e.sortOf(keyT), st.ghost["visited"].T, kv, keysNow(st), kv, st.ghost["visited"].T, kv))
	}
	if spec != nil {
		env := mkEnv(st)
		for _, inv := range spec.Invs {
			st.assume(e.evalBool(st, env, inv.E))
		}
	}
	// step
	step := st.clone()
	{
		s := step
		key := e.freshOf(s, "range_key", keyT)
		s.assume(fmt.Sprintf("(and (select %s %s) (not (select %s %s)))", keysNow(s), key.T, s.ghost["visited"].T, key.T))
		s.ghost["visited"] = term(fmt.Sprintf("(store %s %s true)", s.ghost["visited"].T, key.T), visT)
		cbArgs := []Val{key}
		if hasVal {
			vm := fmt.Sprintf("(select (select %s %s) %s)", e.heapGet(s, valH, valS), e.absRef(recv), key.T)
			cbArgs = append(cbArgs, e.loaded(s, term(vm, valT.(*GhostT).Elem)))
		}
		s.trace = append(s.trace, "range-step:"+anchor)
		e.callFunc(s, cbFn, cl.Binds, cbArgs, site, func(s2 *State, rs []Val) {
			if s2.dead {
				return
			}
			cont := s2.clone()
			// callback returned true: the iteration goes on, the invariant must hold again
			s2.assume(rs[0].T)
			if !s2.dead {
				for _, h := range hs {
					if f := e.frameFormula(s2, h); f != "" {
						e.addObl(s2, pre+".preserve.frame."+h, "frame", "frame condition preserved by the callback", f)
					}
				}
				if spec != nil {
					env := mkEnv(s2)
					for _, inv := range spec.Invs {
						e.addObl(s2, pre+".preserve."+inv.Label, "invariant", inv.Src, e.evalBool(s2, env, inv.E))
					}
				}
				e.paths++
			}
			// callback returned false: the iteration stops here
			cont.assume(fmt.Sprintf("(not %s)", rs[0].T))
			if !cont.dead && rs[0].T != "true" {
				restore(cont)
				k(cont, nil)
			}
		})
	}
	// exit: everything present has been visited
	{
		kv := "k!x"
		st.assume(fmt.Sprintf("(forall ((%s %s)) (! (=> (select %s %s) (select %s %s)) :pattern ((select %s %s))))",
			kv, e.sortOf(keyT), keysNow(st), kv, st.ghost["visited"].T, kv, keysNow(st), kv))
		st.trace = append(st.trace, "range-exit:"+anchor)
		// the invariant facts stay available through the ghost set: keep a named copy for the code after the loop
		st.ghost["visitedAll_"+strings.ReplaceAll(strings.TrimPrefix(anchor, "call "), "#", "_")] = st.ghost["visited"]
		restore(st)
		k(st, nil)
	}
	return true
}

var _ = types.Typ
