package main

// Engine model of callback iteration over library collections (skipmap.*Map.Range,
// skipset.*Set.Range): a loop over the abstract content (absfields `keys` and, for maps, `m`)
// whose body is the callback. It is cut exactly like a source loop:
//   entry:  assert the invariant; havoc what the callback may write; assume the invariant;
//   step:   pick an arbitrary key that is present and not yet visited, mark it visited, run the
//           callback inline; if it returns true assert the invariant (path ends), if it returns
//           false the iteration stops and execution continues after the call;
//   exit:   every present key has been visited.
// The invariant is given in the unit's contract as `loop call Range#k: invariant ...` (or
// `loop $c/call Range#k:` inside closure $c) and may mention the ghost set `visited` (for nested
// iterations `visited` is the innermost one and `visitedOuter` the enclosing one).
// Assumed: the library visits each present entry at most once and, unless stopped, all of them;
// the visiting order is not modelled.

import (
	"fmt"
	"go/types"
	"strings"

	"golang.org/x/tools/go/ssa"
)

func (e *Engine) rangeModel(st *State, fn *ssa.Function, args []Val, site ssa.Instruction, k Cont) bool {
	if fn.Name() != "Range" || len(args) != 2 {
		return false
	}
	recv := args[0]
	if recv.K != kTerm {
		return false
	}
	keysH, keysS, keysT, ok := e.absFieldOf(recv.Typ, "keys")
	if !ok {
		return false
	}
	cl := args[1]
	if cl.K == kTerm {
		if cv, ok := e.closureRev[cl.T]; ok {
			cl = cv
		}
	}
	if cl.K != kClosure && cl.K != kFunc {
		limitf("Range with a callback that is not a function literal")
	}
	e.noteAssumption("library Range(callback) visits each present entry at most once and, unless the callback stops it, every entry; order not modelled")
	fr := st.top()
	keyT := keysT.(*GhostT).Key
	valH, valS, valT, hasVal := e.absFieldOf(recv.Typ, "m")

	// anchor and spec
	anchor := e.instrLabel(fr, site)
	prefix := ""
	evalFr := fr
	c := fr.contract
	if c == nil && fr.fn.Parent() != nil && e.unit.Fn != nil && len(st.frames) > 1 {
		root := fr.fn
		for root.Parent() != nil {
			root = root.Parent()
		}
		if root == e.unit.Fn {
			c = e.unit.C
			evalFr = st.frames[0]
			prefix = strings.TrimPrefix(fr.fn.Name(), root.Name()) + "/"
		}
	}
	var spec *LoopSpec
	if c != nil {
		for _, ls := range c.Loops {
			if ls.Anchor == prefix+anchor || (strings.HasSuffix(anchor, "#1") && ls.Anchor == prefix+strings.TrimSuffix(anchor, "#1")) {
				spec = ls
				e.usedRangeSpecs[ls] = true
			}
		}
	}
	pre := fmt.Sprintf("%s.range.%s", e.oblPrefix(fr.fn), strings.ReplaceAll(strings.TrimPrefix(anchor, "call "), " ", "_"))
	mkEnv := func(s *State) *Env {
		env := e.envFor(s, evalFr, s.old)
		env.extraFr = s.top()
		return env
	}
	// ghost visited set (shadowing an enclosing iteration's)
	savedVisited, hadVisited := st.ghost["visited"]
	visT := &GhostT{Kind: "set", Key: keyT}
	st.ghost["visited"] = term(e.zero(visT), visT)
	savedKey, hadKey := st.ghost["rangeKey"]
	savedVal, hadVal := st.ghost["rangeVal"]
	if hadVisited {
		st.ghost["visitedOuter"] = savedVisited
	}
	if hadKey {
		// the entry of the enclosing iteration whose callback we are in
		st.ghost["rangeKeyOuter"] = savedKey
	}
	restore := func(s *State) {
		if hadVisited {
			s.ghost["visited"] = savedVisited
			delete(s.ghost, "visitedOuter")
		} else {
			delete(s.ghost, "visited")
		}
		if hadKey {
			s.ghost["rangeKey"] = savedKey
			delete(s.ghost, "rangeKeyOuter")
		} else {
			delete(s.ghost, "rangeKey")
		}
		if hadVal {
			s.ghost["rangeVal"] = savedVal
		} else {
			delete(s.ghost, "rangeVal")
		}
	}
	// entry
	if spec != nil {
		env := mkEnv(st)
		for _, inv := range spec.Invs {
			e.addObl(st, pre+".entry."+inv.Label, "invariant", inv.Src, e.evalBool(st, env, inv.E))
		}
	}
	// havoc what the callback may write
	heaps := map[string]bool{}
	var cbFn *ssa.Function = cl.Fn
	for h := range e.P.modset(e, cbFn) {
		heaps[h] = true
	}
	for _, a := range cbFn.AnonFuncs {
		for h := range e.P.modset(e, a) {
			heaps[h] = true
		}
	}
	var hs []string
	for h := range heaps {
		hs = append(hs, h)
	}
	for _, h := range hs {
		if f := e.frameFormula(st, h); f != "" {
			e.addObl(st, pre+".entry.frame."+h, "frame", "frame condition holds before the iteration", f)
		}
	}
	// captured variables the callback never assigns keep their value (the havoc below is per heap map)
	type kept struct {
		p   Val
		old Val
	}
	var keeps []kept
	for i, b := range cl.Binds {
		if b.K == kTerm && i < len(cbFn.FreeVars) && !storesFreeVar(cbFn, i, 0) {
			if pt, ok := b.Typ.Underlying().(*types.Pointer); ok {
				if _, isStruct := pt.Elem().Underlying().(*types.Struct); !isStruct {
					keeps = append(keeps, kept{b, e.loadThrough(st, b)})
				}
			}
		}
	}
	for _, h := range hs {
		e.heapHavoc(st, h)
	}
	for _, h := range hs {
		if f := e.frameFormula(st, h); f != "" {
			st.assume(f)
		}
	}
	for _, kp := range keeps {
		if kp.old.K == kTerm {
			nv := e.loadThrough(st, kp.p)
			st.assume(fmt.Sprintf("(= %s %s)", nv.T, kp.old.T))
		}
	}
	// captured local cells (if any are plain cells)
	for _, b := range cl.Binds {
		if b.K == kPtr && b.P.Kind == pCell {
			old := st.cells[b.P.Cell]
			if old.K == kTerm {
				st.cells[b.P.Cell] = e.freshOf(st, "rv", old.Typ)
			}
		}
	}
	e.bumpAlloc(st)
	st.ghost["visited"] = term(e.S.Fresh("visited", e.sortOf(visT)), visT)
	// ghosts updated by at-anchors inside the callback
	if e.unit.C != nil {
		for _, at := range e.unit.C.Ats {
			if at.Kind == "ghost" && strings.Contains(at.Anchor, "/") {
				name := at.Var
				if i := strings.Index(name, "["); i > 0 {
					name = name[:i]
				}
				if g, ok := st.ghost[name]; ok {
					st.ghost[name] = term(e.S.Fresh("ghost_"+name, e.sortOf(g.Typ)), g.Typ)
				}
			}
		}
	}
	keysNow := func(s *State) string {
		return fmt.Sprintf("(select %s %s)", e.heapGet(s, keysH, keysS), e.absRef(recv))
	}
	// visited is a subset of the present keys
	{
		kv := "k!v"
		st.assume(fmt.Sprintf("(forall ((%s %s)) (! (=> (select %s %s) (select %s %s)) :pattern ((select %s %s))))",
			kv, e.sortOf(keyT), st.ghost["visited"].T, kv, keysNow(st), kv, st.ghost["visited"].T, kv))
	}
	if spec != nil {
		env := mkEnv(st)
		for _, inv := range spec.Invs {
			st.assume(e.evalBool(st, env, inv.E))
		}
	}
	// step
	step := st.clone()
	{
		s := step
		key := e.freshOf(s, "range_key", keyT)
		s.assume(fmt.Sprintf("(and (select %s %s) (not (select %s %s)))", keysNow(s), key.T, s.ghost["visited"].T, key.T))
		s.ghost["visited"] = term(fmt.Sprintf("(store %s %s true)", s.ghost["visited"].T, key.T), visT)
		s.ghost["rangeKey"] = key // the entry being visited (callbacks may ignore their key parameter)
		cbArgs := []Val{key}
		if hasVal {
			vm := fmt.Sprintf("(select (select %s %s) %s)", e.heapGet(s, valH, valS), e.absRef(recv), key.T)
			cbArgs = append(cbArgs, e.loaded(s, term(vm, valT.(*GhostT).Elem)))
		}
		s.trace = append(s.trace, "range-step:"+anchor)
		if hasVal {
			s.ghost["rangeVal"] = cbArgs[1]
		}
		// hints about the entry being visited: `at step <anchor>: assert|assume label: e` (proved, then known)
		if c != nil {
			for _, at := range c.Ats {
				if (at.Kind == "assert" || at.Kind == "assume") && at.Anchor == "step "+prefix+anchor {
					e.usedAts[at] = true
					g := e.evalBool(s, mkEnv(s), at.C.E)
					if at.Kind == "assert" {
						e.addObl(s, pre+".step."+at.C.Label, "assert", at.C.Src, g)
					} else {
						e.noteAssumption("assumed at " + at.Anchor + ": " + at.C.Src)
					}
					s.assume(g)
				}
			}
		}
		preStep := s.snapshot()
		e.callFunc(s, cbFn, cl.Binds, cbArgs, site, func(s2 *State, rs []Val) {
			if s2.dead {
				return
			}
			// ghost bookkeeping per visited entry: `at step <anchor>: ghost x := e` (old() = state before the callback)
			if c != nil {
				for _, at := range c.Ats {
					if at.Kind == "ghost" && at.Anchor == "step "+prefix+anchor {
						env := e.envFor(s2, evalFr, preStep)
						env.extraFr = s2.top()
						e.usedAts[at] = true
						e.ghostAssign(s2, env, at.Var, at.C.E)
					}
				}
			}
			cont := s2.clone()
			// callback returned true: the iteration goes on, the invariant must hold again
			s2.assume(rs[0].T)
			if !s2.dead {
				for _, h := range hs {
					if f := e.frameFormula(s2, h); f != "" {
						e.addObl(s2, pre+".preserve.frame."+h, "frame", "frame condition preserved by the callback", f)
					}
				}
				if spec != nil {
					env := mkEnv(s2)
					for _, inv := range spec.Invs {
						e.addObl(s2, pre+".preserve."+inv.Label, "invariant", inv.Src, e.evalBool(s2, env, inv.E))
					}
				}
				e.paths++
			}
			// callback returned false: the iteration stops here
			cont.assume(fmt.Sprintf("(not %s)", rs[0].T))
			if !cont.dead && rs[0].T != "true" {
				restore(cont)
				k(cont, nil)
			}
		})
	}
	// exit: everything present has been visited
	{
		kv := "k!x"
		st.assume(fmt.Sprintf("(forall ((%s %s)) (! (=> (select %s %s) (select %s %s)) :pattern ((select %s %s))))",
			kv, e.sortOf(keyT), keysNow(st), kv, st.ghost["visited"].T, kv, keysNow(st), kv))
		st.trace = append(st.trace, "range-exit:"+anchor)
		// the invariant facts stay available through the ghost set: keep a named copy for the code after the loop
		st.ghost["visitedAll_"+strings.ReplaceAll(strings.TrimPrefix(anchor, "call "), "#", "_")] = st.ghost["visited"]
		restore(st)
		k(st, nil)
	}
	return true
}

var _ = types.Typ

// collectionModel: exact engine models of the point operations of library collections that have
// abstract fields `keys` (and `m` for maps): Load, Store, Delete/Remove, Add, Contains, Len,
// LoadOrStoreLazy. The library is assumed to implement a map / set (its concurrency is not modelled).
func (e *Engine) collectionModel(st *State, fn *ssa.Function, args []Val, site ssa.Instruction, k Cont) bool {
	if len(args) == 0 || (args[0].K != kTerm && args[0].K != kPtr) {
		return false
	}
	recv := args[0]
	if recv.K == kPtr {
		// a collection embedded by value in a struct (&s.handlers): identified by the field's address
		recv = term(e.asTerm(st, recv), recv.Typ)
	}
	keysH, keysS, keysT, ok := e.absFieldOf(recv.Typ, "keys")
	if !ok {
		return false
	}
	keyT := keysT.(*GhostT).Key
	valH, valS, valT, hasVal := e.absFieldOf(recv.Typ, "m")
	ref := e.absRef(recv)
	keys := func() string { return fmt.Sprintf("(select %s %s)", e.heapGet(st, keysH, keysS), ref) }
	vals := func() string { return fmt.Sprintf("(select %s %s)", e.heapGet(st, valH, valS), ref) }
	setKeys := func(t string) {
		e.heapSet(st, keysH, keysS, fmt.Sprintf("(store %s %s %s)", e.heapGet(st, keysH, keysS), ref, t))
	}
	setVals := func(t string) {
		e.heapSet(st, valH, valS, fmt.Sprintf("(store %s %s %s)", e.heapGet(st, valH, valS), ref, t))
	}
	var elemT types.Type
	if hasVal {
		elemT = valT.(*GhostT).Elem
	}
	key := func(i int) string { return e.asTerm(st, e.coerce(args[i], keyT)) }
	e.noteAssumption("skipmap/skipset point operations behave as a map/set (library assumed; concurrency not modelled)")
	switch fn.Name() {
	case "Load":
		if !hasVal || len(args) != 2 {
			return false
		}
		has := fmt.Sprintf("(select %s %s)", keys(), key(1))
		v := fmt.Sprintf("(ite %s (select %s %s) %s)", has, vals(), key(1), e.zero(elemT))
		k(st, []Val{e.loaded(st, term(v, elemT)), term(has, tBool)})
	case "Store":
		if !hasVal || len(args) != 3 {
			return false
		}
		kk := key(1)
		setVals(fmt.Sprintf("(store %s %s %s)", vals(), kk, e.asTerm(st, e.coerce(args[2], elemT))))
		setKeys(fmt.Sprintf("(store %s %s true)", keys(), kk))
		k(st, nil)
	case "Delete", "Remove":
		if len(args) != 2 {
			return false
		}
		kk := key(1)
		was := e.S.Fresh("was_present", "Bool")
		st.assume(fmt.Sprintf("(= %s (select %s %s))", was, keys(), kk))
		setKeys(fmt.Sprintf("(store %s %s false)", keys(), kk))
		k(st, []Val{term(was, tBool)})
	case "Add":
		if hasVal || len(args) != 2 {
			return false
		}
		kk := key(1)
		was := e.S.Fresh("was_present", "Bool")
		st.assume(fmt.Sprintf("(= %s (select %s %s))", was, keys(), kk))
		setKeys(fmt.Sprintf("(store %s %s true)", keys(), kk))
		k(st, []Val{term(fmt.Sprintf("(not %s)", was), tBool)})
	case "LoadAndDelete":
		if !hasVal || len(args) != 2 {
			return false
		}
		kk := key(1)
		was := e.S.Fresh("was_present", "Bool")
		st.assume(fmt.Sprintf("(= %s (select %s %s))", was, keys(), kk))
		v := fmt.Sprintf("(ite %s (select %s %s) %s)", was, vals(), kk, e.zero(elemT))
		lv := e.loaded(st, term(v, elemT))
		setKeys(fmt.Sprintf("(store %s %s false)", keys(), kk))
		k(st, []Val{lv, term(was, tBool)})
	case "Contains":
		if len(args) != 2 {
			return false
		}
		k(st, []Val{term(fmt.Sprintf("(select %s %s)", keys(), key(1)), tBool)})
	case "Len":
		if len(args) != 1 {
			return false
		}
		card := e.declCard(e.sortOf(keyT))
		k(st, []Val{term(fmt.Sprintf("(%s %s)", card, keys()), tInt)})
	case "LoadOrStoreLazy":
		if !hasVal || len(args) != 3 {
			return false
		}
		kk := key(1)
		fv := args[2]
		if fv.K == kTerm {
			if cv, ok := e.closureRev[fv.T]; ok {
				fv = cv
			}
		}
		if fv.K != kFunc && fv.K != kClosure {
			limitf("LoadOrStoreLazy with an unknown constructor function")
		}
		// present
		p := st.clone()
		p.assume(fmt.Sprintf("(select (select %s %s) %s)", e.heapGet(p, keysH, keysS), ref, kk))
		if !p.dead {
			v := fmt.Sprintf("(select (select %s %s) %s)", e.heapGet(p, valH, valS), ref, kk)
			p.trace = append(p.trace, "lazy:present")
			k(p, []Val{e.loaded(p, term(v, elemT)), term("true", tBool)})
		}
		// absent: run the constructor, store its result
		st.assume(fmt.Sprintf("(not (select %s %s))", keys(), kk))
		st.trace = append(st.trace, "lazy:absent")
		e.callFunc(st, fv.Fn, fv.Binds, nil, site, func(s2 *State, rs []Val) {
			if s2.dead {
				return
			}
			nv := e.asTerm(s2, rs[0])
			kh := e.heapGet(s2, keysH, keysS)
			vh := e.heapGet(s2, valH, valS)
			e.heapSet(s2, valH, valS, fmt.Sprintf("(store %s %s (store (select %s %s) %s %s))", vh, ref, vh, ref, kk, nv))
			e.heapSet(s2, keysH, keysS, fmt.Sprintf("(store %s %s (store (select %s %s) %s true))", kh, ref, kh, ref, kk))
			k(s2, []Val{rs[0], term("false", tBool)})
		})
	default:
		return false
	}
	return true
}

// declCard declares the cardinality function of sets over a key sort with the three facts the
// proofs need: non-negative; an element implies positive; zero implies empty.
func (e *Engine) declCard(ks string) string {
	card := "set_card_" + mangle(ks)
	if !e.S.has(card) {
		e.S.DeclareFun(card, []string{fmt.Sprintf("(Array %s Bool)", ks)}, e.S.IntSort())
		zero := e.intLit(0, tInt)
		e.S.AddAxiom([]string{card}, fmt.Sprintf("(forall ((s!c (Array %s Bool))) (! %s :pattern ((%s s!c))))", ks, e.compare(">=", "("+card+" s!c)", zero, tInt), card))
		e.S.AddAxiom([]string{card}, fmt.Sprintf("(forall ((s!c (Array %s Bool)) (x!c %s)) (! (=> (select s!c x!c) %s) :pattern ((%s s!c) (select s!c x!c))))", ks, ks, e.compare(">", "("+card+" s!c)", zero, tInt), card))
		e.S.AddAxiom([]string{card}, fmt.Sprintf("(forall ((s!c (Array %s Bool))) (! (=> (= (%s s!c) %s) (= s!c ((as const (Array %s Bool)) false))) :pattern ((%s s!c))))", ks, card, zero, ks, card))
	}
	return card
}

// storesFreeVar: may the closure (or a closure it creates) assign free variable i?
func storesFreeVar(fn *ssa.Function, i int, depth int) bool {
	if depth > 6 || i >= len(fn.FreeVars) {
		return true
	}
	fv := fn.FreeVars[i]
	for _, b := range fn.Blocks {
		for _, in := range b.Instrs {
			switch x := in.(type) {
			case *ssa.Store:
				if x.Addr == fv {
					return true
				}
			case *ssa.MakeClosure:
				for j, bnd := range x.Bindings {
					if bnd == fv {
						if storesFreeVar(x.Fn.(*ssa.Function), j, depth+1) {
							return true
						}
					}
				}
			case ssa.CallInstruction:
				// the address escapes into a call: assume it may be written
				for _, a := range x.Common().Args {
					if a == fv {
						return true
					}
				}
			}
		}
	}
	return false
}
