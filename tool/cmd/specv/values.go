package main

import (
	"fmt"
	"go/constant"
	"go/token"
	"go/types"
	"math/big"
	"strings"

	"golang.org/x/tools/go/ssa"
)

const (
	kTerm = iota
	kPtr
	kClosure
	kTuple
	kConst // untyped integer constant (spec expressions)
	kFunc
)

type Val struct {
	K     int
	T     string
	Typ   types.Type
	P     *Ptr
	Fn    *ssa.Function
	Binds []Val
	Tup   []Val
	Const *big.Int
}

const (
	pCell   = iota // local cell (+ field path)
	pField         // heap object field: Ref term, Root struct type, Path
	pElem          // array/slice element: Ref (array ref), Idx term, Root elem type, Path
	pGlobal        // package-level variable (+ path)
	pBox           // heap cell of non-struct type: Ref, Root type
	pFieldElem     // element of an array-typed field of a heap struct: Ref, Root struct, Path[0]=field, Idx, Path[1:] inside the element
)

type Ptr struct {
	Kind int
	Cell int
	Ref  string
	Idx  string
	Root types.Type // type of the object at the root (cell type, struct type, element type, global type)
	Path []int      // field path inside the root
	Glob *ssa.Global
}

func (p *Ptr) withField(i int) *Ptr {
	q := *p
	q.Path = append(append([]int{}, p.Path...), i)
	return &q
}

// GhostT is a spec-only type (set[T], gmap[K]V).
type GhostT struct {
	Kind string
	Key  types.Type
	Elem types.Type
}

func (g *GhostT) Underlying() types.Type { return g }
func (g *GhostT) String() string {
	if g.Kind == "set" {
		return "set[" + g.Key.String() + "]"
	}
	return "gmap[" + g.Key.String() + "]" + g.Elem.String()
}

func term(t string, typ types.Type) Val { return Val{K: kTerm, T: t, Typ: typ} }

var (
	tInt    = types.Typ[types.Int]
	tBool   = types.Typ[types.Bool]
	tString = types.Typ[types.String]
	tUint64 = types.Typ[types.Uint64]
)

func (e *Engine) sortOf(t types.Type) string {
	if g, ok := t.(*GhostT); ok {
		if g.Kind == "set" {
			return fmt.Sprintf("(Array %s Bool)", e.sortOf(g.Key))
		}
		return fmt.Sprintf("(Array %s %s)", e.sortOf(g.Key), e.sortOf(g.Elem))
	}
	return e.S.SortOf(t)
}

// zero value term of a Go type
func (e *Engine) zero(t types.Type) string {
	t = types.Unalias(t)
	if g, ok := t.(*GhostT); ok {
		if g.Kind == "set" {
			return fmt.Sprintf("((as const %s) false)", e.sortOf(t))
		}
		return fmt.Sprintf("((as const %s) %s)", e.sortOf(t), e.zero(g.Elem))
	}
	if _, ok := t.(*types.TypeParam); ok {
		n := "zero_" + e.sortOf(t)
		e.S.DeclareConst(n, e.sortOf(t))
		return n
	}
	switch u := t.Underlying().(type) {
	case *types.Basic:
		switch {
		case u.Info()&types.IsBoolean != 0:
			return "false"
		case u.Info()&types.IsInteger != 0:
			return e.S.IntLit(big.NewInt(0), t)
		case u.Info()&types.IsString != 0:
			return `""`
		case u.Info()&types.IsFloat != 0:
			return "0.0"
		}
		return "0"
	case *types.Interface:
		return "(mk_iface 0 0)"
	case *types.Slice:
		z := e.S.IntLit(big.NewInt(0), tInt)
		return fmt.Sprintf("(mk_slice 0 %s %s %s)", z, z, z)
	case *types.Array:
		return fmt.Sprintf("((as const %s) %s)", e.sortOf(t), e.zero(u.Elem()))
	case *types.Struct:
		name := e.S.structSort(t, u)
		if u.NumFields() == 0 {
			return "mk_" + name
		}
		var parts []string
		for i := 0; i < u.NumFields(); i++ {
			parts = append(parts, e.zero(u.Field(i).Type()))
		}
		return fmt.Sprintf("(mk_%s %s)", name, strings.Join(parts, " "))
	}
	return "0"
}

func (e *Engine) intLit(n int64, t types.Type) string { return e.S.IntLit(big.NewInt(n), t) }

// constant of SSA
func (e *Engine) constVal(c *ssa.Const) Val {
	t := c.Type()
	if c.Value == nil {
		return term(e.zero(t), t)
	}
	switch c.Value.Kind() {
	case constant.Bool:
		if constant.BoolVal(c.Value) {
			return term("true", t)
		}
		return term("false", t)
	case constant.String:
		return term(smtString(constant.StringVal(c.Value)), t)
	case constant.Int:
		bi, _ := new(big.Int).SetString(c.Value.ExactString(), 10)
		if b, ok := t.Underlying().(*types.Basic); ok && b.Info()&types.IsFloat != 0 {
			return term(bi.String()+".0", t)
		}
		return term(e.S.IntLit(bi, t), t)
	case constant.Float:
		f, _ := constant.Float64Val(c.Value)
		if b, ok := t.Underlying().(*types.Basic); ok && b.Info()&types.IsInteger != 0 {
			return term(e.S.IntLit(big.NewInt(int64(f)), t), t)
		}
		r := new(big.Rat)
		r.SetFloat64(f)
		return term(fmt.Sprintf("(/ %s.0 %s.0)", r.Num().String(), r.Denom().String()), t)
	}
	return term(e.S.Fresh("const", e.sortOf(t)), t)
}

// ---- arithmetic

func (e *Engine) width(t types.Type) int {
	if b, ok := t.Underlying().(*types.Basic); ok {
		return bvWidth(b)
	}
	return 64
}

func pow2(n int) *big.Int { return new(big.Int).Lsh(big.NewInt(1), uint(n)) }

func (e *Engine) wrapUnsigned(t string, typ types.Type) string {
	if e.S.BV || !isUnsigned(typ) {
		return t
	}
	return fmt.Sprintf("(mod %s %s)", t, pow2(e.width(typ)).String())
}

// coerce converts an untyped constant to a term of typ
func (e *Engine) coerce(v Val, typ types.Type) Val {
	if v.K == kConst {
		if typ == nil {
			typ = tInt
		}
		if isInteger(typ) {
			return term(e.S.IntLit(v.Const, typ), typ)
		}
		if _, ok := typ.Underlying().(*types.Interface); ok && v.Const.Sign() == 0 {
			return term("(mk_iface 0 0)", typ)
		}
		return term(e.S.IntLit(v.Const, tInt), typ)
	}
	return v
}

func constFold(op string, a, b *big.Int) (*big.Int, bool) {
	r := new(big.Int)
	switch op {
	case "+":
		return r.Add(a, b), true
	case "-":
		return r.Sub(a, b), true
	case "*":
		return r.Mul(a, b), true
	case "/":
		if b.Sign() == 0 {
			return nil, false
		}
		return r.Quo(a, b), true
	case "%":
		if b.Sign() == 0 {
			return nil, false
		}
		return r.Rem(a, b), true
	case "<<":
		return r.Lsh(a, uint(b.Int64())), true
	case ">>":
		return r.Rsh(a, uint(b.Int64())), true
	case "&":
		return r.And(a, b), true
	case "|":
		return r.Or(a, b), true
	case "^":
		return r.Xor(a, b), true
	case "&^":
		return r.AndNot(a, b), true
	}
	return nil, false
}

// parse a literal produced by IntLit back into a big.Int if it is one.
func litValue(t string) (*big.Int, bool) {
	if strings.HasPrefix(t, "(_ bv") {
		var s string
		var w int
		if _, err := fmt.Sscanf(t, "(_ bv%s %d)", &s, &w); err == nil {
			if v, ok := new(big.Int).SetString(s, 10); ok {
				return v, true
			}
		}
		return nil, false
	}
	if strings.HasPrefix(t, "(- ") && strings.HasSuffix(t, ")") {
		if v, ok := new(big.Int).SetString(strings.TrimSuffix(strings.TrimPrefix(t, "(- "), ")"), 10); ok {
			return v.Neg(v), true
		}
		return nil, false
	}
	if v, ok := new(big.Int).SetString(t, 10); ok {
		return v, true
	}
	return nil, false
}

// slIdx is the position of element i of slice s in its backing array. In int mode it is an
// uninterpreted function with the defining axiom sidx(s,i) = off(s)+i instead of the sum itself, so
// that quantifier patterns over slice elements contain no arithmetic: E-matching does not match
// `(+ off a)` patterns reliably (argument order of + differs between patterns and ground terms),
// which left preservation goals of list invariants undecided by all three solvers.
func (e *Engine) slIdx(s, i string) string {
	if e.S.BV {
		return e.arith("+", fmt.Sprintf("(sl_off %s)", s), i, tInt)
	}
	is := e.S.IntSort()
	e.S.DeclareFun("sidx", []string{"Slice", is}, is)
	if !e.S.has("ax_sidx") {
		e.S.decls["ax_sidx"] = &Decl{}
		e.S.AddAxiom([]string{"sidx"}, fmt.Sprintf("(forall ((s!i Slice) (i!i %s)) (! (= (sidx s!i i!i) (+ (sl_off s!i) i!i)) :pattern ((sidx s!i i!i))))", is))
	}
	return fmt.Sprintf("(sidx %s %s)", s, i)
}

// arith performs a Go binary operation on two terms of the same integer type.
func (e *Engine) arith(op string, a, b string, typ types.Type) string {
	uns := isUnsigned(typ)
	if e.S.BV {
		switch op {
		case "+":
			return fmt.Sprintf("(bvadd %s %s)", a, b)
		case "-":
			return fmt.Sprintf("(bvsub %s %s)", a, b)
		case "*":
			return fmt.Sprintf("(bvmul %s %s)", a, b)
		case "/":
			if uns {
				return fmt.Sprintf("(bvudiv %s %s)", a, b)
			}
			return fmt.Sprintf("(bvsdiv %s %s)", a, b)
		case "%":
			if uns {
				return fmt.Sprintf("(bvurem %s %s)", a, b)
			}
			return fmt.Sprintf("(bvsrem %s %s)", a, b)
		case "&":
			return fmt.Sprintf("(bvand %s %s)", a, b)
		case "|":
			return fmt.Sprintf("(bvor %s %s)", a, b)
		case "^":
			return fmt.Sprintf("(bvxor %s %s)", a, b)
		case "&^":
			return fmt.Sprintf("(bvand %s (bvnot %s))", a, b)
		case "<<":
			return fmt.Sprintf("(bvshl %s %s)", a, b)
		case ">>":
			if uns {
				return fmt.Sprintf("(bvlshr %s %s)", a, b)
			}
			return fmt.Sprintf("(bvashr %s %s)", a, b)
		}
		panic("bv arith op " + op)
	}
	w := e.width(typ)
	switch op {
	case "+", "-", "*":
		return e.wrapUnsigned(fmt.Sprintf("(%s %s %s)", op, a, b), typ)
	case "/":
		if uns {
			return fmt.Sprintf("(div %s %s)", a, b)
		}
		// Go truncates toward zero
		return fmt.Sprintf("(ite (>= %s 0) (div %s %s) (- (div (- %s) %s)))", a, a, b, a, b)
	case "%":
		if uns {
			return fmt.Sprintf("(mod %s %s)", a, b)
		}
		return fmt.Sprintf("(ite (>= %s 0) (mod %s %s) (- (mod (- %s) %s)))", a, a, b, a, b)
	case "<<":
		if bv, ok := litValue(b); ok {
			return e.wrapUnsigned(fmt.Sprintf("(* %s %s)", a, pow2(int(bv.Int64())).String()), typ)
		}
		e.S.DefineFun("pow2i", pow2iDef())
		return e.wrapUnsigned(fmt.Sprintf("(* %s (pow2i %s))", a, b), typ)
	case ">>":
		if bv, ok := litValue(b); ok {
			return fmt.Sprintf("(div %s %s)", a, pow2(int(bv.Int64())).String())
		}
		e.S.DefineFun("pow2i", pow2iDef())
		return fmt.Sprintf("(div %s (pow2i %s))", a, b)
	case "&":
		// x & (2^k-1) == x mod 2^k
		if bv, ok := litValue(b); ok {
			p := new(big.Int).Add(bv, big.NewInt(1))
			if p.BitLen() > 0 && new(big.Int).And(p, bv).Sign() == 0 {
				return fmt.Sprintf("(mod %s %s)", a, p.String())
			}
		}
		if av, ok := litValue(a); ok {
			p := new(big.Int).Add(av, big.NewInt(1))
			if new(big.Int).And(p, av).Sign() == 0 {
				return fmt.Sprintf("(mod %s %s)", b, p.String())
			}
		}
		fallthrough
	case "|", "^", "&^":
		fn := map[string]string{"&": "bitand", "|": "bitor", "^": "bitxor", "&^": "bitandnot"}[op]
		e.S.DefineFun(fn, fmt.Sprintf("(declare-fun %s (Int Int) Int)", fn))
		_ = w
		return fmt.Sprintf("(%s %s %s)", fn, a, b)
	}
	panic("int arith op " + op)
}

func (e *Engine) compare(op string, a, b string, typ types.Type) string {
	switch op {
	case "==":
		return fmt.Sprintf("(= %s %s)", a, b)
	case "!=":
		return fmt.Sprintf("(not (= %s %s))", a, b)
	}
	if b0, ok := typ.Underlying().(*types.Basic); ok && b0.Info()&types.IsString != 0 {
		switch op {
		case "<":
			return fmt.Sprintf("(str.< %s %s)", a, b)
		case "<=":
			return fmt.Sprintf("(str.<= %s %s)", a, b)
		case ">":
			return fmt.Sprintf("(str.< %s %s)", b, a)
		case ">=":
			return fmt.Sprintf("(str.<= %s %s)", b, a)
		}
	}
	if e.S.BV && isInteger(typ) {
		pre := "bvs"
		if isUnsigned(typ) {
			pre = "bvu"
		}
		m := map[string]string{"<": "lt", "<=": "le", ">": "gt", ">=": "ge"}[op]
		return fmt.Sprintf("(%s%s %s %s)", pre, m, a, b)
	}
	return fmt.Sprintf("(%s %s %s)", op, a, b)
}

// convert integer term from type `from` to type `to`
func (e *Engine) convertInt(t string, from, to types.Type) string {
	if !isInteger(from) || !isInteger(to) {
		return t
	}
	wf, wt := e.width(from), e.width(to)
	if e.S.BV {
		switch {
		case wf == wt:
			return t
		case wf > wt:
			return fmt.Sprintf("((_ extract %d 0) %s)", wt-1, t)
		default:
			if isUnsigned(from) {
				return fmt.Sprintf("((_ zero_extend %d) %s)", wt-wf, t)
			}
			return fmt.Sprintf("((_ sign_extend %d) %s)", wt-wf, t)
		}
	}
	// Int mode
	if v, ok := litValue(t); ok {
		if isUnsigned(to) {
			return new(big.Int).Mod(v, pow2(wt)).String()
		}
		return t
	}
	if isUnsigned(to) {
		if isUnsigned(from) && wf <= wt {
			return t
		}
		return fmt.Sprintf("(mod %s %s)", t, pow2(wt).String())
	}
	// to signed
	if isUnsigned(from) && wf < wt {
		return t
	}
	if !isUnsigned(from) && wf <= wt {
		return t
	}
	// narrowing to signed: treat mathematically (assumption: value fits)
	e.noteAssumption("integer conversion to a narrower or same-width signed type treated as value-preserving (Int mode)")
	return t
}

// range constraint for integer-typed fresh values in Int mode
func (e *Engine) rangeConstraint(t string, typ types.Type) string {
	typ = types.Unalias(typ)
	if e.S.BV {
		return ""
	}
	switch u := typ.Underlying().(type) {
	case *types.Basic:
		if u.Info()&types.IsInteger != 0 {
			w := e.width(typ)
			if isUnsigned(typ) {
				return fmt.Sprintf("(and (<= 0 %s) (< %s %s))", t, t, pow2(w).String())
			}
			return fmt.Sprintf("(and (<= (- %s) %s) (< %s %s))", pow2(w-1).String(), t, t, pow2(w-1).String())
		}
	case *types.Slice:
		return fmt.Sprintf("(and (<= 0 (sl_len %s)) (<= (sl_len %s) (sl_cap %s)) (<= 0 (sl_off %s)) (<= 0 (sl_ref %s)) (=> (= (sl_ref %s) 0) (= (sl_cap %s) 0)))", t, t, t, t, t, t, t)
	case *types.Pointer, *types.Map, *types.Chan:
		return fmt.Sprintf("(<= 0 %s)", t)
	case *types.Struct:
		// a struct value is well-formed field by field (slice headers, integer ranges)
		var cs []string
		for i := 0; i < u.NumFields() && i < 32; i++ {
			if c := e.rangeConstraint(fmt.Sprintf("(%s %s)", e.S.structAcc(typ, i), t), u.Field(i).Type()); c != "" {
				cs = append(cs, c)
			}
		}
		if len(cs) == 1 {
			return cs[0]
		}
		if len(cs) > 1 {
			return "(and " + strings.Join(cs, " ") + ")"
		}
	}
	return ""
}

func (e *Engine) rangeConstraintBV(t string, typ types.Type) string {
	if !e.S.BV {
		return e.rangeConstraint(t, typ)
	}
	switch typ.Underlying().(type) {
	case *types.Slice:
		return fmt.Sprintf("(and (bvsle (_ bv0 64) (sl_len %s)) (bvsle (sl_len %s) (sl_cap %s)) (bvsle (_ bv0 64) (sl_off %s)) (bvslt (sl_cap %s) (_ bv4611686018427387904 64)) (bvslt (sl_off %s) (_ bv4611686018427387904 64)) (<= 0 (sl_ref %s)))", t, t, t, t, t, t, t)
	case *types.Pointer, *types.Map, *types.Chan:
		return fmt.Sprintf("(<= 0 %s)", t)
	}
	return ""
}

var _ = token.ADD
