package main

import (
	"strings"
	"sync/atomic"
)

// Goal splitting: a goal that is a conjunction (possibly under universal quantifiers and
// implications) is equivalent to the conjunction of its parts, each under the same binders and
// guards. When the solvers cannot decide the whole goal, the parts are tried one by one: the
// obligation is discharged iff every part is `unsat`; a `sat` part is a counterexample of the whole.

// sexprItems returns the top-level items of the parenthesized list s = "(a b (c d) ...)".
func sexprItems(s string) []string {
	s = strings.TrimSpace(s)
	if len(s) < 2 || s[0] != '(' || s[len(s)-1] != ')' {
		return nil
	}
	s = s[1 : len(s)-1]
	var out []string
	i := 0
	for i < len(s) {
		switch {
		case s[i] == ' ' || s[i] == '\n' || s[i] == '\t':
			i++
		case s[i] == '(':
			d := 0
			j := i
			for ; j < len(s); j++ {
				if s[j] == '"' {
					j++
					for j < len(s) && s[j] != '"' {
						j++
					}
					continue
				}
				if s[j] == '(' {
					d++
				} else if s[j] == ')' {
					d--
					if d == 0 {
						break
					}
				}
			}
			if j >= len(s) {
				return nil
			}
			out = append(out, s[i:j+1])
			i = j + 1
		case s[i] == '"':
			j := i + 1
			for j < len(s) && s[j] != '"' {
				j++
			}
			out = append(out, s[i:min(j+1, len(s))])
			i = j + 1
		default:
			j := i
			for j < len(s) && s[j] != ' ' && s[j] != '\n' && s[j] != '\t' && s[j] != '(' && s[j] != ')' {
				j++
			}
			out = append(out, s[i:j])
			i = j
		}
	}
	return out
}

// splitGoal returns the conjuncts of a goal (at most maxParts; the goal itself if it is not a conjunction).
func splitGoal(g string) []string {
	parts := splitGoalRec(strings.TrimSpace(g), 0)
	if len(parts) > 24 {
		return []string{g}
	}
	return parts
}

func splitGoalRec(g string, depth int) []string {
	if depth > 6 || len(g) == 0 || g[0] != '(' {
		return []string{g}
	}
	it := sexprItems(g)
	if len(it) == 0 {
		return []string{g}
	}
	switch it[0] {
	case "and":
		var out []string
		for _, c := range it[1:] {
			out = append(out, splitGoalRec(c, depth+1)...)
		}
		return out
	case "=>":
		if len(it) != 3 {
			return []string{g}
		}
		sub := splitGoalRec(it[2], depth+1)
		if len(sub) <= 1 {
			return []string{g}
		}
		var out []string
		for _, c := range sub {
			out = append(out, "(=> "+it[1]+" "+c+")")
		}
		return out
	case "forall":
		if len(it) != 3 {
			return []string{g}
		}
		body := it[2]
		bi := sexprItems(body)
		if len(bi) >= 2 && bi[0] == "!" {
			// (! body :pattern (...) ...)
			attrs := strings.Join(bi[2:], " ")
			sub := splitGoalRec(bi[1], depth+1)
			if len(sub) <= 1 {
				return []string{g}
			}
			var out []string
			for _, c := range sub {
				out = append(out, "(forall "+it[1]+" (! "+c+" "+attrs+"))")
			}
			return out
		}
		sub := splitGoalRec(body, depth+1)
		if len(sub) <= 1 {
			return []string{g}
		}
		var out []string
		for _, c := range sub {
			out = append(out, "(forall "+it[1]+" "+c+")")
		}
		return out
	}
	return []string{g}
}

// solveByParts is the fallback for a path query the solvers could not decide as a whole.
//  1. the goal is split into its conjuncts (equivalent);
//  2. a conjunct that is still undecided is retried with one quantified hypothesis left out at a
//     time (sound: fewer hypotheses; helps when an unrelated quantified invariant sends the
//     instantiation engine astray).
// The path is discharged iff every conjunct is; a `sat` answer for a conjunct of the full
// context is a counterexample of the whole.
func (e *Engine) solveByParts(j *pathJob, uses []string) {
	p := j.obl.Paths[j.idx]
	parts := splitGoal(p.Goal)
	t := j.res.Time
	for _, g := range parts {
		pp := &OblPath{PC: p.PC, Goal: g, Trace: p.Trace}
		var r SolveResult
		if len(parts) > 1 {
			buildMu.Lock()
			q := e.buildQuery(pp, true, uses)
			buildMu.Unlock()
			r = solveQuery(q, quickTimeout)
			t += r.Time
			if r.Status == "sat" {
				j.res = r
				j.query = q
				return
			}
		}
		if r.Status == "unsat" {
			continue
		}
		if !e.solvePruned(pp, uses, &t) {
			return
		}
	}
	j.res = SolveResult{Status: "unsat", Solver: "split", Time: t}
}

// solvePruned tries the query with each quantified hypothesis removed in turn (in parallel).
func (e *Engine) solvePruned(p *OblPath, uses []string, t *float64) bool {
	var cand []int
	for i, c := range p.PC {
		if strings.Contains(c, "(forall ") {
			cand = append(cand, i)
		}
	}
	if len(cand) == 0 || len(cand) > 40 {
		return false
	}
	var qs []string
	buildMu.Lock()
	for _, i := range cand {
		pc := make([]string, 0, len(p.PC)-1)
		pc = append(pc, p.PC[:i]...)
		pc = append(pc, p.PC[i+1:]...)
		qs = append(qs, e.buildQuery(&OblPath{PC: pc, Goal: p.Goal, Trace: p.Trace}, false, uses))
	}
	buildMu.Unlock()
	type res struct {
		ok bool
		tm float64
	}
	out := make(chan res, len(qs))
	sem := make(chan struct{}, 8)
	var found int32
	for _, q := range qs {
		go func(q string) {
			sem <- struct{}{}
			defer func() { <-sem }()
			if atomic.LoadInt32(&found) != 0 {
				out <- res{}
				return
			}
			r := runSolverSimple(0, q, fastTimeout)
			if r.Status == "unsat" {
				atomic.StoreInt32(&found, 1)
			}
			out <- res{r.Status == "unsat", r.Time}
		}(q)
	}
	ok := false
	for range qs {
		r := <-out
		*t += r.tm
		ok = ok || r.ok
	}
	return ok
}
