package main

// String abstraction (opt strings=abstract): for units whose proof needs only equality of
// strings, the final SMT text is rewritten so that String becomes an uninterpreted sort,
// literals become pairwise distinct constants and the string operations uninterpreted
// functions. This only removes facts, so every proof found is still a proof; it keeps the
// solvers' string theories out of goals dominated by quantified invariants.

import (
	"fmt"
	"regexp"
	"sort"
	"strings"
)

var strOps = []struct{ from, to, sig string }{
	{"str.len", "str_len", "(declare-fun str_len (Str) Int)"},
	{"str.++", "str_cat", "(declare-fun str_cat (Str Str) Str)"},
	{"str.substr", "str_substr", "(declare-fun str_substr (Str Int Int) Str)"},
	{"str.indexof", "str_indexof", "(declare-fun str_indexof (Str Str Int) Int)"},
	{"str.contains", "str_contains", "(declare-fun str_contains (Str Str) Bool)"},
	{"str.prefixof", "str_prefixof", "(declare-fun str_prefixof (Str Str) Bool)"},
	{"str.suffixof", "str_suffixof", "(declare-fun str_suffixof (Str Str) Bool)"},
	{"str.replace_all", "str_replace_all", "(declare-fun str_replace_all (Str Str Str) Str)"},
	{"str.to_lower", "str_to_lower", "(declare-fun str_to_lower (Str) Str)"},
	{"str.to_upper", "str_to_upper", "(declare-fun str_to_upper (Str) Str)"},
	{"str.<=", "str_le", "(declare-fun str_le (Str Str) Bool)"},
	{"str.<", "str_lt", "(declare-fun str_lt (Str Str) Bool)"},
}

var stringSortRe = regexp.MustCompile(`\bString\b`)

func abstractStrings(q string) string {
	// 1. literals
	lits := map[string]string{}
	var b strings.Builder
	for i := 0; i < len(q); {
		if q[i] != '"' {
			b.WriteByte(q[i])
			i++
			continue
		}
		j := i + 1
		for j < len(q) {
			if q[j] == '"' {
				if j+1 < len(q) && q[j+1] == '"' {
					j += 2
					continue
				}
				break
			}
			j++
		}
		lit := q[i : j+1]
		name, ok := lits[lit]
		if !ok {
			name = fmt.Sprintf("strlit!%d", len(lits))
			lits[lit] = name
		}
		b.WriteString(name)
		i = j + 1
	}
	out := b.String()
	// 2. sort and operations
	out = stringSortRe.ReplaceAllString(out, "Str")
	var decls []string
	decls = append(decls, "(declare-sort Str 0)")
	for _, op := range strOps {
		if strings.Contains(out, "("+op.from+" ") {
			out = strings.ReplaceAll(out, "("+op.from+" ", "("+op.to+" ")
			decls = append(decls, op.sig)
		}
	}
	var names []string
	for _, n := range lits {
		names = append(names, n)
	}
	sort.Strings(names)
	for _, n := range names {
		decls = append(decls, fmt.Sprintf("(declare-fun %s () Str)", n))
	}
	if len(names) > 1 {
		decls = append(decls, "(assert (distinct "+strings.Join(names, " ")+"))")
	}
	if strings.Contains(out, "(str_len ") {
		decls = append(decls, "(assert (forall ((s!l Str)) (! (>= (str_len s!l) 0) :pattern ((str_len s!l)))))")
		if e, ok := lits[`""`]; ok {
			decls = append(decls, fmt.Sprintf("(assert (= (str_len %s) 0))", e))
		}
	}
	var late []string
	// 3. constant arrays over non-values (cvc5 requires a value): name them and axiomatize
	for n := 0; ; n++ {
		i := strings.Index(out, "((as const ")
		found := -1
		for i >= 0 {
			j := matchParen(out, i)
			if j > 0 && strings.Contains(out[i:j+1], "strlit!") {
				found = i
				break
			}
			k := strings.Index(out[i+1:], "((as const ")
			if k < 0 {
				break
			}
			i = i + 1 + k
		}
		if found < 0 || n > 200 {
			break
		}
		j := matchParen(out, found)
		whole := out[found : j+1]
		// whole = ((as const SORT) VALUE)
		inner := matchParen(whole, 1) // end of (as const SORT)
		srt := strings.TrimSpace(whole[len("((as const ") : inner])
		val := strings.TrimSpace(whole[inner+1 : len(whole)-1])
		name := fmt.Sprintf("zarr!%d", n)
		idx := "Int"
		if strings.HasPrefix(srt, "(Array (_ BitVec 64)") {
			idx = "(_ BitVec 64)"
		}
		late = append(late, fmt.Sprintf("(declare-fun %s () %s)", name, srt))
		late = append(late, fmt.Sprintf("(assert (forall ((i!z %s)) (! (= (select %s i!z) %s) :pattern ((select %s i!z)))))", idx, name, val, name))
		out = strings.ReplaceAll(out, whole, name)
	}
	if len(late) > 0 {
		// after every sort/function declaration, i.e. before the first assertion or check
		k := strings.Index(out, "(assert ")
		if c := strings.Index(out, "(check-sat)"); k < 0 || (c >= 0 && c < k) {
			k = c
		}
		if k >= 0 {
			out = out[:k] + strings.Join(late, "\n") + "\n" + out[k:]
		}
	}
	// insert after the set-logic line
	k := strings.Index(out, "(set-logic ")
	if k < 0 {
		return strings.Join(decls, "\n") + "\n" + out
	}
	k2 := k + strings.Index(out[k:], "\n") + 1
	return out[:k2] + strings.Join(decls, "\n") + "\n" + out[k2:]
}
