package main

// Must-fail selftest: every patch under /verif/selftest/mutants and /verif/seeded
// is applied to a scratch copy of /repo; the named property check must then report
// a VIOLATION (and, when given, the expected obligation).

import (
	"encoding/json"
	"fmt"
	"os"
	"os/exec"
	"path/filepath"
	"sort"
	"strings"
)

type mutantMeta struct {
	Property string `json:"property"`
	Expect   string `json:"expect_obligation,omitempty"`
	Summary  string `json:"summary,omitempty"`
	Detected *bool  `json:"detected_by_check,omitempty"`
}

func runSelftest(args []string) int {
	want := map[string]bool{}
	for _, a := range args {
		want[a] = true
	}
	type mut struct {
		name, patch string
		meta        mutantMeta
	}
	var muts []mut
	for _, pat := range []string{"selftest/mutants/*/patch.diff", "seeded/*/patch.diff"} {
		ms, _ := filepath.Glob(filepath.Join(verifDir, pat))
		for _, m := range ms {
			var meta mutantMeta
			b, err := os.ReadFile(filepath.Join(filepath.Dir(m), "meta.json"))
			if err != nil {
				continue
			}
			json.Unmarshal(b, &meta)
			if len(want) > 0 && !want[meta.Property] && !want[filepath.Base(filepath.Dir(m))] {
				continue
			}
			muts = append(muts, mut{filepath.Base(filepath.Dir(m)), m, meta})
		}
	}
	sort.Slice(muts, func(i, j int) bool { return muts[i].name < muts[j].name })
	self, _ := os.Executable()
	bad := 0
	for _, m := range muts {
		tmp, err := os.MkdirTemp("", "specv-selftest-")
		if err != nil {
			fmt.Println("ERROR", err)
			return 2
		}
		scratch := filepath.Join(tmp, "repo")
		cp := exec.Command("rsync", "-a", "--exclude", ".git", repoDir+"/", scratch+"/")
		if out, err := cp.CombinedOutput(); err != nil {
			fmt.Printf("ERROR copying repo: %v %s\n", err, out)
			os.RemoveAll(tmp)
			return 2
		}
		ap := exec.Command("patch", "-p1", "-s", "-i", m.patch)
		ap.Dir = scratch
		if out, err := ap.CombinedOutput(); err != nil {
			fmt.Printf("SKIP %s: patch does not apply: %s\n", m.name, strings.TrimSpace(string(out)))
			os.RemoveAll(tmp)
			continue
		}
		cmd := exec.Command(self, "check", m.meta.Property, "--tier", "quick")
		cmd.Dir = verifDir
		cmd.Env = append(os.Environ(), "SPECV_REPO="+scratch, "SPECV_OUT="+filepath.Join(tmp, "out"))
		out, _ := cmd.CombinedOutput()
		os.RemoveAll(tmp)
		s := string(out)
		detected := strings.Contains(s, "VIOLATION property="+m.meta.Property)
		okExp := m.meta.Expect == "" || strings.Contains(s, m.meta.Expect)
		expectDetected := m.meta.Detected == nil || *m.meta.Detected
		status := "ok"
		if detected != expectDetected || (detected && !okExp) {
			status = "MISMATCH"
			bad++
		}
		confirmed := strings.Contains(s, "VIOLATION") && !strings.Contains(s, "no-failing-input-found")
		fmt.Printf("%-8s %-28s property=%s detected=%v confirmed-replay=%v expect=%q\n", status, m.name, m.meta.Property, detected, confirmed, m.meta.Expect)
		// catch matrix: which obligations reported the change (kept under /verif/seeded for DESIGN.md section 10.4)
		var obls []string
		for _, ln := range strings.Split(s, "\n") {
			if i := strings.Index(ln, "replay="); strings.HasPrefix(ln, "VIOLATION") && i > 0 {
				f := strings.Fields(ln[i+len("replay="):])
				if len(f) > 0 {
					obls = append(obls, strings.TrimSuffix(filepath.Base(f[0]), ".json"))
				}
			}
		}
		recordCatch(filepath.Join(verifDir, "seeded", "catch_matrix.json"), m.name, m.meta.Property, detected, confirmed, obls)
		if status != "ok" {
			fmt.Println(indent(truncate(s, 1500)))
		}
	}
	fmt.Printf("selftest: %d mutants, %d mismatches\n", len(muts), bad)
	if bad > 0 {
		return 1
	}
	return 0
}

func indent(s string) string {
	return "    " + strings.ReplaceAll(strings.TrimSpace(s), "\n", "\n    ")
}

// runScript dispatches auxiliary deductive checks that are not function-body VCs
// (registry symbolic execution, SQL condition extraction, ...).
func runScript(p *Prog, name, tier string) *UnitResult {
	if f, ok := scripts[name]; ok {
		return f(p, tier)
	}
	return &UnitResult{Unit: "script:" + name, Err: "unknown script " + name}
}

var scripts = map[string]func(p *Prog, tier string) *UnitResult{}

// recordCatch merges one selftest outcome into the catch matrix file (a development record, not read by any check).
func recordCatch(path, name, prop string, detected, confirmed bool, obls []string) {
	m := map[string]any{}
	if b, err := os.ReadFile(path); err == nil {
		json.Unmarshal(b, &m)
	}
	if len(obls) > 6 {
		obls = append(obls[:6], fmt.Sprintf("... %d more", len(obls)-6))
	}
	m[name] = map[string]any{"property": prop, "detected": detected, "confirmed_replay": confirmed, "obligations": obls}
	if b, err := json.MarshalIndent(m, "", " "); err == nil {
		os.WriteFile(path, b, 0o644)
	}
}
