package main

import (
	"strings"
	"sync"

	"golang.org/x/tools/go/ssa"
)

// `modifies object(x)` in an assumed interface contract says that the method writes into the object behind the
// interface value x (UnmarshalVT decodes into its receiver). The concrete type is not known inside the callee, so the
// effect is applied where it is known: at the call site that boxed a pointer into the interface value. objectParams
// tells, for a repository function, through which of its parameters such a method is reached (directly or by passing
// the parameter on to another repository function).

var (
	objParamMu    sync.Mutex
	objParamCache = map[*ssa.Function]map[int]bool{}
)

func isObjectEntry(m string) (string, bool) {
	m = strings.TrimSpace(m)
	if strings.HasPrefix(m, "object(") && strings.HasSuffix(m, ")") {
		return strings.TrimSpace(m[len("object(") : len(m)-1]), true
	}
	return "", false
}

func (p *Prog) hasObjectEffect(c *Contract) bool {
	if c == nil {
		return false
	}
	for _, m := range c.Modifies {
		if _, ok := isObjectEntry(m); ok {
			return true
		}
	}
	return false
}

func (p *Prog) objectParams(fn *ssa.Function) map[int]bool {
	objParamMu.Lock()
	defer objParamMu.Unlock()
	return p.objectParamsLocked(fn, map[*ssa.Function]bool{})
}

func (p *Prog) objectParamsLocked(fn *ssa.Function, busy map[*ssa.Function]bool) map[int]bool {
	if m, ok := objParamCache[fn]; ok {
		return m
	}
	m := map[int]bool{}
	if fn == nil || fn.Blocks == nil || busy[fn] {
		return m
	}
	busy[fn] = true
	idx := map[ssa.Value]int{}
	for i, prm := range fn.Params {
		idx[prm] = i
	}
	// NaiveForm keeps parameters in stack slots: a load from the slot a parameter was stored to is the parameter
	slot := map[ssa.Value]int{}
	for _, b := range fn.Blocks {
		for _, in := range b.Instrs {
			if s, ok := in.(*ssa.Store); ok {
				if i, ok := idx[s.Val]; ok {
					slot[s.Addr] = i
				}
			}
		}
	}
	paramOf := func(v ssa.Value) (int, bool) {
		for k := 0; k < 4; k++ {
			if i, ok := idx[v]; ok {
				return i, true
			}
			switch x := v.(type) {
			case *ssa.UnOp:
				if i, ok := slot[x.X]; ok {
					return i, true
				}
				return 0, false
			case *ssa.ChangeInterface:
				v = x.X
			case *ssa.ChangeType:
				v = x.X
			default:
				return 0, false
			}
		}
		return 0, false
	}
	var visit func(f *ssa.Function)
	visit = func(f *ssa.Function) {
		for _, b := range f.Blocks {
			for _, in := range b.Instrs {
				ci, ok := in.(ssa.CallInstruction)
				if !ok {
					continue
				}
				cc := ci.Common()
				if cc.IsInvoke() {
					if p.hasObjectEffect(p.ifaceContracts[p.ifaceKey(cc.Value.Type(), cc.Method.Name())]) {
						if i, ok := paramOf(cc.Value); ok {
							m[i] = true
						}
					}
					continue
				}
				if g := cc.StaticCallee(); g != nil && p.inRepo(g) && g != fn {
					gm := p.objectParamsLocked(g, busy)
					for j := range gm {
						if j < len(cc.Args) {
							if i, ok := paramOf(cc.Args[j]); ok {
								m[i] = true
							}
						}
					}
				}
			}
		}
	}
	visit(fn)
	delete(busy, fn)
	objParamCache[fn] = m
	return m
}
