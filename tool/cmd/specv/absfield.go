package main

import (
	"fmt"
	"go/types"
	"golang.org/x/tools/go/ssa"
	"sort"
	"strings"
)

// qualifiedTypeName returns "pkgpath.Name" for a named type (generic origin name for instances).
func qualifiedTypeName(t types.Type) string {
	t = types.Unalias(t)
	n, ok := t.(*types.Named)
	if !ok {
		return ""
	}
	if n.Obj().Pkg() == nil {
		return n.Obj().Name()
	}
	return n.Obj().Pkg().Path() + "." + n.Obj().Name()
}

func (p *Prog) registerAbsFields(cf *ContractFile) {
	for _, a := range cf.AbsFields {
		tn := a.Type
		if tn != "interface" && !strings.Contains(tn, ".") && cf.Pkg != "" {
			tn = cf.Pkg + "." + tn
		}
		if p.absFields[tn] == nil {
			p.absFields[tn] = map[string]AbsField{}
		}
		af := a
		af.Type = tn
		p.absFields[tn][a.Name] = af
	}
}

// absFieldOf resolves an abstract field of the object a pointer (or interface-free named value) refers to.
// Returns heap map name, its sort and the field's type.
func (e *Engine) absFieldOf(baseT types.Type, name string) (string, string, types.Type, bool) {
	t := types.Unalias(baseT)
	if pt, ok := t.Underlying().(*types.Pointer); ok {
		t = types.Unalias(pt.Elem())
	}
	if baseT != nil {
		if _, isIface := baseT.Underlying().(*types.Interface); isIface {
			// abstract fields of the dynamic value behind any interface view (keyed by its identity)
			if af, ok := e.P.absFields["interface"][name]; ok {
				ft := e.P.resolveType(af.FType, "", nil)
				return e.noteSort("Abs_iface_"+mangle(name), fmt.Sprintf("(Array Int %s)", e.sortOf(ft))), fmt.Sprintf("(Array Int %s)", e.sortOf(ft)), ft, true
			}
		}
	}
	qn := qualifiedTypeName(t)
	if qn == "" {
		return "", "", nil, false
	}
	fs := e.P.absFields[qn]
	if fs == nil {
		return "", "", nil, false
	}
	af, ok := fs[name]
	if !ok {
		return "", "", nil, false
	}
	// bind type parameters of generic instances
	bind := map[string]types.Type{}
	if n, ok := t.(*types.Named); ok && n.TypeArgs() != nil {
		tps := n.Origin().TypeParams()
		for i := 0; i < n.TypeArgs().Len() && i < tps.Len(); i++ {
			bind[tps.At(i).Obj().Name()] = n.TypeArgs().At(i)
		}
	}
	pkg := ""
	if n, ok := t.(*types.Named); ok && n.Obj().Pkg() != nil {
		pkg = n.Obj().Pkg().Path()
	}
	ft := e.P.resolveTypeBound(af.FType, pkg, bind)
	heap := fmt.Sprintf("Abs_%s_%s", shortTypeName(t), mangle(name))
	return e.noteSort(heap, fmt.Sprintf("(Array Int %s)", e.sortOf(ft))), fmt.Sprintf("(Array Int %s)", e.sortOf(ft)), ft, true
}

// noteSort remembers the sort of a heap map by name, so that a map which has not been read yet
// can still be havoc'd (a later first read must not see the entry version).
func (e *Engine) noteSort(name, sort string) string {
	if e.allSorts == nil {
		e.allSorts = map[string]string{}
	}
	e.allSorts[name] = sort
	return name
}

func (p *Prog) resolveTypeBound(s, pkg string, bind map[string]types.Type) types.Type {
	s = strings.TrimSpace(s)
	if t, ok := bind[s]; ok {
		return t
	}
	for _, pre := range []string{"set[", "gmap[", "map["} {
		if strings.HasPrefix(s, pre) {
			j := matchBracket(s, len(pre)-1)
			k := p.resolveTypeBound(s[len(pre):j], pkg, bind)
			if pre == "set[" {
				return &GhostT{Kind: "set", Key: k}
			}
			v := p.resolveTypeBound(s[j+1:], pkg, bind)
			if pre == "gmap[" {
				return &GhostT{Kind: "gmap", Key: k, Elem: v}
			}
			return types.NewMap(k, v)
		}
	}
	if strings.HasPrefix(s, "[]") {
		return types.NewSlice(p.resolveTypeBound(s[2:], pkg, bind))
	}
	if strings.HasPrefix(s, "*") {
		return types.NewPointer(p.resolveTypeBound(s[1:], pkg, bind))
	}
	return p.resolveType(s, pkg, nil)
}

// staticModHeaps resolves one modifies entry of a contract to heap map names using
// only static types (used for loop havoc sets and unmodelled-call frames).
func (e *Engine) staticModHeaps(c *Contract, fn interface {
	String() string
}, entry string) []string {
	entry = strings.TrimSpace(entry)
	if strings.HasPrefix(entry, "ghost ") {
		return nil
	}
	if _, ok := isObjectEntry(entry); ok {
		return nil // applied at the call site that knows the object (objparams.go)
	}
	f := e.P.FindFunc(c.Pkg, c.Key)
	typeOfIdent := func(name string) types.Type {
		if f != nil {
			for _, p := range f.Params {
				if p.Name() == name {
					return p.Type()
				}
			}
		}
		if obj := e.P.lookupObj(name, c.Pkg); obj != nil {
			if v, ok := obj.(*types.Var); ok {
				return v.Type()
			}
		}
		return nil
	}
	var typeOf func(x Expr) types.Type
	typeOf = func(x Expr) types.Type {
		switch n := x.(type) {
		case EIdent:
			return typeOfIdent(n.Name)
		case ESel:
			bt := typeOf(n.X)
			if bt == nil {
				return nil
			}
			if _, _, ft, ok := e.absFieldOf(bt, n.Name); ok {
				return ft
			}
			t := bt
			if pt, ok := t.Underlying().(*types.Pointer); ok {
				t = pt.Elem()
			}
			if st, ok := t.Underlying().(*types.Struct); ok {
				if _, path, ok := findField(st, n.Name); ok {
					return fieldTypeAt(t, path)
				}
			}
		case EIndex:
			bt := typeOf(n.X)
			if bt == nil {
				return nil
			}
			switch u := bt.Underlying().(type) {
			case *types.Slice:
				return u.Elem()
			case *types.Map:
				return u.Elem()
			case *GhostT:
				if u.Kind == "gmap" {
					return u.Elem
				}
			}
		}
		return nil
	}
	if strings.HasPrefix(entry, "elems(") && strings.HasSuffix(entry, ")") {
		ex, err := ParseExpr(entry[6 : len(entry)-1])
		if err != nil {
			return nil
		}
		if t := typeOf(ex); t != nil {
			if sl, ok := t.Underlying().(*types.Slice); ok {
				n, _ := e.arrMapName(sl.Elem())
				return []string{n}
			}
		}
		return nil
	}
	ex, err := ParseExpr(entry)
	if err != nil {
		return nil
	}
	sel, ok := ex.(ESel)
	if !ok {
		return nil
	}
	// T.f
	if id, ok := sel.X.(EIdent); ok && typeOfIdent(id.Name) == nil {
		if t := e.P.lookupType(id.Name, c.Pkg); t != nil {
			if st, ok := t.Underlying().(*types.Struct); ok {
				for i := 0; i < st.NumFields(); i++ {
					if st.Field(i).Name() == sel.Name {
						n, _ := e.fieldMapName(t, i)
						return []string{n}
					}
				}
			}
		}
		return nil
	}
	bt := typeOf(sel.X)
	if bt == nil {
		// never drop a modifies entry silently: callers would keep facts about state the callee changes
		limitf("contract %s: modifies entry %q cannot be resolved to a heap map", c.Key, entry)
		return nil
	}
	if h, _, _, ok := e.absFieldOf(bt, sel.Name); ok {
		return []string{h}
	}
	t := bt
	if pt, ok := t.Underlying().(*types.Pointer); ok {
		t = pt.Elem()
	}
	if st, ok := t.Underlying().(*types.Struct); ok {
		for i := 0; i < st.NumFields(); i++ {
			if st.Field(i).Name() == sel.Name {
				n, _ := e.fieldMapName(t, i)
				return []string{n}
			}
		}
	}
	return nil
}

// pow2iDef: exact 2^k for 0 <= k < 64 and 2^64 above (shifts of <=64-bit values by >= 64 give 0).
func pow2iDef() string {
	var b strings.Builder
	b.WriteString("(define-fun pow2i ((k Int)) Int ")
	for i := 0; i < 64; i++ {
		fmt.Fprintf(&b, "(ite (= k %d) %s ", i, pow2(i).String())
	}
	b.WriteString(pow2(64).String())
	b.WriteString(strings.Repeat(")", 64))
	b.WriteString(")")
	return b.String()
}

// absRef: the key under which abstract fields of a value are stored.
func (e *Engine) absRef(base Val) string {
	if _, ok := base.Typ.Underlying().(*types.Interface); ok {
		return fmt.Sprintf("(ival %s)", base.T)
	}
	return base.T
}

// havocArgs: an unmodelled callee outside the repository may write through the pointers,
// slices and maps it is handed; those locations get arbitrary new contents.
func (e *Engine) havocArgs(st *State, args []Val) {
	for _, a := range args {
		// a closure handed to code outside the repository may be run there any number of times: the captured
		// variables it writes and the heap locations it stores to get arbitrary contents (retry.Do(func() { x, err = ... }))
		cl := a
		if a.K == kTerm {
			if cv, ok := e.closureRev[a.T]; ok {
				cl = cv
			}
		}
		if cl.K == kClosure && cl.Fn != nil {
			w := closureWrites(cl.Fn, map[*ssa.Function]bool{})
			for j, b := range cl.Binds {
				if w[j] {
					e.havocArgs(st, []Val{b})
				}
			}
			for h := range e.P.modset(e, cl.Fn) {
				e.heapHavoc(st, h)
			}
			continue
		}
		switch a.K {
		case kPtr:
			p := a.P
			old := e.loadPtr(st, p)
			if old.K == kTerm {
				e.storePtr(st, p, e.freshOf(st, "hv", old.Typ))
			}
		case kTerm:
			if a.Typ == nil {
				continue
			}
			switch u := a.Typ.Underlying().(type) {
			case *types.Interface:
				// a pointer boxed in an interface value built in this function
				var id int
				var rest string
				if n, _ := fmt.Sscanf(a.T, "(mk_iface %d ", &id); n == 1 {
					rest = strings.TrimSuffix(a.T[strings.Index(a.T[10:], " ")+11:], ")")
					if dt, ok := e.S.typeOfID[id]; ok {
						if _, isPtr := dt.Underlying().(*types.Pointer); isPtr {
							e.havocArgs(st, []Val{term(rest, dt)})
						}
					}
				}
			case *types.Pointer:
				if _, ok := e.interiorPtrRev[a.T]; ok {
					p := e.interiorPtrRev[a.T]
					old := e.loadPtr(st, p)
					if old.K == kTerm {
						e.storePtr(st, p, e.freshOf(st, "hv", old.Typ))
					}
					continue
				}
				el := u.Elem()
				switch eu := el.Underlying().(type) {
				case *types.Struct:
					for i := 0; i < eu.NumFields(); i++ {
						name, sort := e.fieldMapName(el, i)
						h := e.heapGet(st, name, sort)
						nv := e.S.Fresh("hv_"+eu.Field(i).Name(), e.sortOf(eu.Field(i).Type()))
						e.heapSet(st, name, sort, fmt.Sprintf("(store %s %s %s)", h, a.T, nv))
					}
				case *types.Array:
					name, sort := e.arrMapName(eu.Elem())
					h := e.heapGet(st, name, sort)
					e.heapSet(st, name, sort, fmt.Sprintf("(store %s %s %s)", h, a.T, e.S.Fresh("hv_arr", e.sortOf(el))))
				default:
					name, sort := e.boxMapName(el)
					h := e.heapGet(st, name, sort)
					e.heapSet(st, name, sort, fmt.Sprintf("(store %s %s %s)", h, a.T, e.S.Fresh("hv_box", e.sortOf(el))))
				}
			case *types.Slice:
				// a slice over an array this function filled itself (variadic arguments): the callee also
				// reaches whatever the stored elements point to
				if strings.HasPrefix(a.T, "(mk_slice ref_") {
					ref := a.T[len("(mk_slice "):]
					if i := strings.IndexByte(ref, ' '); i > 0 {
						ref = ref[:i]
						if elems, ok := e.smallArr[ref]; ok {
							e.havocArgs(st, elems)
						}
					}
				}
				name, sort := e.arrMapName(u.Elem())
				h := e.heapGet(st, name, sort)
				na := e.S.Fresh("hv_arr", fmt.Sprintf("(Array %s %s)", e.S.IntSort(), e.sortOf(u.Elem())))
				if it := sexprItems(a.T); len(it) == 5 && it[0] == "mk_slice" && strings.HasPrefix(it[1], "ref_") && it[2] == "0" && it[3] == it[4] {
					// the slice spans a whole array this function allocated (a variadic argument list):
					// the array simply gets arbitrary contents, no quantified frame fact is needed
					e.heapSet(st, name, sort, fmt.Sprintf("(store %s %s %s)", h, it[1], na))
					continue
				}
				// only the elements inside the slice's window may change
				lo := fmt.Sprintf("(sl_off %s)", a.T)
				hi := e.arith("+", lo, fmt.Sprintf("(sl_len %s)", a.T), tInt)
				st.assume(fmt.Sprintf("(forall ((i!h %s)) (! (=> (not (and %s %s)) (= (select %s i!h) (select (select %s (sl_ref %s)) i!h))) :pattern ((select %s i!h))))",
					e.S.IntSort(), e.compare("<=", lo, "i!h", tInt), e.compare("<", "i!h", hi, tInt), na, h, a.T, na))
				e.heapSet(st, name, sort, fmt.Sprintf("(store %s (sl_ref %s) %s)", h, a.T, na))
			case *types.Map:
				hn, hs, vn, vs := e.mapHeapNames(u)
				h := e.heapGet(st, hn, hs)
				e.heapSet(st, hn, hs, fmt.Sprintf("(store %s %s %s)", h, a.T, e.S.Fresh("hv_has", fmt.Sprintf("(Array %s Bool)", e.sortOf(u.Key())))))
				v := e.heapGet(st, vn, vs)
				e.heapSet(st, vn, vs, fmt.Sprintf("(store %s %s %s)", v, a.T, e.S.Fresh("hv_val", fmt.Sprintf("(Array %s %s)", e.sortOf(u.Key()), e.sortOf(u.Elem())))))
			}
		}
	}
}

// isOpaque: the unit hides the definition of this spec function (opt opaque=a,b).
func (e *Engine) isOpaque(name string) bool {
	if e.unit == nil || e.unit.C == nil {
		return false
	}
	for _, n := range strings.Split(e.unit.C.Opts["opaque"], ",") {
		if strings.TrimSpace(n) == name {
			return true
		}
	}
	return false
}

// hasNonConstFun: does the SMT text declare an uninterpreted function with arguments?
func hasNonConstFun(s string) bool {
	for _, l := range strings.Split(s, "\n") {
		if strings.HasPrefix(l, "(declare-fun ") && !strings.Contains(l, " () ") {
			return true
		}
	}
	return false
}

func hasTypeParam(t types.Type) bool {
	switch u := types.Unalias(t).(type) {
	case *types.TypeParam:
		return true
	case *types.Slice:
		return hasTypeParam(u.Elem())
	case *types.Pointer:
		return hasTypeParam(u.Elem())
	case *types.Map:
		return hasTypeParam(u.Key()) || hasTypeParam(u.Elem())
	}
	return false
}

// typeArgText: a type written as an argument of a spec builtin, either bare (pkg.T) or as a string literal ("*T").
func typeArgText(x Expr) string {
	if s, ok := x.(EStr); ok {
		return s.Val
	}
	return x.String()
}

// dispatchAxioms: for an interface type I and a concrete pointer type T, every pure method M
// declared pure on both sides satisfies I.M(box_T(p)) == T.M(p) (dynamic dispatch).
func (e *Engine) dispatchAxioms(it types.Type, ct types.Type) {
	iface, ok := it.Underlying().(*types.Interface)
	if !ok {
		return
	}
	if _, isPtr := ct.Underlying().(*types.Pointer); !isPtr {
		return
	}
	ms := types.NewMethodSet(ct)
	id := e.S.TypeID(ct)
	st := &State{heap: map[string]string{}, cells: map[int]Val{}, ghost: map[string]Val{}, alloc: "alloc!0"}
	for i := 0; i < iface.NumMethods(); i++ {
		m := iface.Method(i)
		sig := m.Type().(*types.Signature)
		if sig.Params().Len() != 0 || sig.Results().Len() != 1 || !e.P.pures[e.P.ifaceKey(it, m.Name())] {
			continue
		}
		sel := ms.Lookup(m.Pkg(), m.Name())
		if sel == nil {
			continue
		}
		fn := e.P.prog.MethodValue(sel)
		if fn == nil {
			continue
		}
		key := e.P.funcKey(fn)
		c := e.P.contracts[key]
		if !(e.P.pures[fn.String()] || e.P.pures[key] || (c != nil && c.Pure)) {
			continue
		}
		ax := fmt.Sprintf("ax_dispatch_%s_%d_%s", shortTypeName(it), id, m.Name())
		if e.S.has(ax) {
			continue
		}
		e.S.decls[ax] = &Decl{}
		a := e.pureMethodApp(st, it, m.Name(), term(fmt.Sprintf("(mk_iface %d p!d)", id), it), nil, sig)
		b := e.pureApp(st, fn, []Val{term("p!d", ct)})
		fname := a.T[1:strings.Index(a.T, " ")]
		e.S.AddAxiom([]string{fname}, fmt.Sprintf("(forall ((p!d Int)) (! (= %s %s) :pattern (%s)))", a.T, b.T, a.T))
		// the concrete method's own contract (pure functions with ensures) as an axiom
		if c != nil && c.Pure {
			for _, en := range c.Ensures {
				env := &Env{e: e, st: st, params: map[string]Val{}, bound: map[string]Val{}, pkg: c.Pkg, contract: c, callee: true, old: st}
				rn := c.RecvName
				if rn == "" && len(fn.Params) > 0 {
					rn = fn.Params[0].Name()
				}
				env.params[rn] = term("p!d", ct)
				env.results = []Val{b}
				env.inEnsures = true
				e.specEval++
				body := env.eval(en.E)
				e.specEval--
				e.S.AddAxiom([]string{fname}, fmt.Sprintf("(forall ((p!d Int)) (! %s :pattern (%s)))", body.T, b.T))
			}
		}
	}
}

// pureContractAxioms: a pure function with a contract is, in specifications, an uninterpreted
// function constrained by its (exported) postconditions for all arguments. The heap the
// postconditions read is the entry heap of the unit (sound while that part of the heap is not
// modified by the unit, which its frame condition checks).
func (e *Engine) pureContractAxioms(fn interface{ String() string }, c *Contract, name string, sorts []string, ptypes []types.Type, pnames []string, rt types.Type) {
	key := "ax_purecontract_" + name
	if e.S.has(key) || c == nil || !c.Pure || len(c.Ensures) == 0 {
		return
	}
	e.S.decls[key] = &Decl{}
	st := &State{heap: map[string]string{}, cells: map[int]Val{}, ghost: map[string]Val{}, alloc: "alloc!0"}
	env := &Env{e: e, st: st, params: map[string]Val{}, bound: map[string]Val{}, pkg: c.Pkg, contract: c, callee: true, old: st}
	var vars, args []string
	for i, s := range sorts {
		v := fmt.Sprintf("x!p%d", i)
		vars = append(vars, fmt.Sprintf("(%s %s)", v, s))
		args = append(args, v)
		if i < len(pnames) {
			env.params[pnames[i]] = term(v, ptypes[i])
		}
	}
	app := name
	if len(args) > 0 {
		app = fmt.Sprintf("(%s %s)", name, strings.Join(args, " "))
	}
	env.results = []Val{term(app, rt)}
	env.inEnsures = true
	var pre []string
	func() {
		defer func() { recover() }()
		e.specEval++
		defer func() { e.specEval-- }()
		for _, r := range c.Requires {
			pre = append(pre, env.eval(r.E).T)
		}
		for _, en := range c.Ensures {
			if strings.HasPrefix(en.Label, "local-") {
				continue
			}
			body := env.eval(en.E).T
			if len(pre) > 0 {
				body = fmt.Sprintf("(=> (and %s) %s)", strings.Join(pre, " "), body)
			}
			if len(args) == 0 {
				e.S.AddAxiom([]string{name}, body)
			} else {
				e.S.AddAxiom([]string{name}, fmt.Sprintf("(forall (%s) (! %s :pattern (%s)))", strings.Join(vars, " "), body, app))
			}
		}
	}()
}

// globalAddr: package-level variables are heap objects at fixed, pairwise distinct addresses that
// existed before the function under contract was entered. Err* variables of interface type hold
// distinct non-nil sentinel values in the entry heap (assumption recorded).
func (e *Engine) globalAddr(g *ssa.Global) Val {
	name := "gaddr_" + mangle(g.Pkg.Pkg.Path()+"_"+g.Name())
	if len(name) > 80 {
		name = "gaddr_" + mangle(g.Pkg.Pkg.Name()+"_"+g.Name())
	}
	if !e.S.has(name) {
		e.S.DeclareConst(name, "Int")
		e.S.DeclareConst("alloc!0", "Int")
		e.S.AddAxiom([]string{name}, fmt.Sprintf("(and (> %s 0) (<= %s alloc!0))", name, name))
		for _, o := range e.globalAddrs {
			e.S.AddAxiom([]string{name, o}, fmt.Sprintf("(not (= %s %s))", name, o))
		}
		e.globalAddrs = append(e.globalAddrs, name)
		el := g.Type().(*types.Pointer).Elem()
		if _, isIface := el.Underlying().(*types.Interface); isIface && isErrName(g.Name()) {
			e.noteAssumption("package-level Err* variables hold distinct non-nil error values on entry")
			bn, bs := e.boxMapName(el)
			init := bn + "!0"
			e.S.DeclareConst(init, bs)
			e.heapSorts[bn] = bs
			v := fmt.Sprintf("(select %s %s)", init, name)
			e.S.AddAxiom([]string{name, init}, fmt.Sprintf("(not (= %s (mk_iface 0 0)))", v))
			for _, o := range e.errGlobals {
				// o is "<address> <entry box map>": sentinels of different interface types live in different box maps
				of := strings.Fields(o)
				e.S.AddAxiom([]string{name, of[0], init, of[1]}, fmt.Sprintf("(not (= %s (select %s %s)))", v, of[1], of[0]))
			}
			e.errGlobals = append(e.errGlobals, name+" "+init)
		}
	}
	return term(name, g.Type())
}

// forgetSet: `opt forget=label,...` of the unit under verification. Assumptions carrying one of these
// labels (own requires, ensures of callees) are left out of the path condition. Dropping assumptions
// is always sound; it keeps quantified facts that a proof does not need away from the solver.
func (e *Engine) forgetSet() map[string]bool {
	m := map[string]bool{}
	if e.unit == nil || e.unit.C == nil {
		return m
	}
	for _, l := range strings.Split(e.unit.C.Opts["forget"], ",") {
		if l = strings.TrimSpace(l); l != "" {
			m[l] = true
		}
	}
	return m
}

// variantsOf: the additional contracts "Key@name" of the function whose main contract is c.
func (p *Prog) variantsOf(c *Contract) []*Contract {
	if c == nil || c.Kind != "func" || strings.Contains(c.Key, "@") {
		return nil
	}
	var vs []*Contract
	pre := c.Pkg + "::" + c.Key + "@"
	for k, v := range p.contracts {
		if strings.HasPrefix(k, pre) {
			vs = append(vs, v)
		}
	}
	sort.Slice(vs, func(i, j int) bool { return vs[i].Key < vs[j].Key })
	return vs
}

// staticModHeapsLib resolves a modifies entry (`x.f`, `elems(x)`) of an assumed contract (library function or
// interface method) to heap map names, using the parameter and receiver types written in the contract header.
func (e *Engine) staticModHeapsLib(c *Contract, entry string) []string {
	return e.staticModHeapsLibAt(c, entry, nil)
}

// staticModHeapsLibAt: recvT, when known, is the static type of the receiver AT THE CALL (an instance of a generic
// library type such as *skipmap.StringMap[*nodeConnection], whose abstract fields mention its type parameters; the
// type written in the contract header is the uninstantiated one).
func (e *Engine) staticModHeapsLibAt(c *Contract, entry string, recvT types.Type) []string {
	entry = strings.TrimSpace(entry)
	if _, ok := isObjectEntry(entry); ok {
		return nil // applied at the call site that knows the object (objparams.go)
	}
	typeOf := func(name string) types.Type {
		for _, p := range c.Params {
			if p.Name == name {
				return e.P.tryResolveType(p.Type, c.Pkg, nil)
			}
		}
		if name == c.RecvName && recvT != nil {
			return recvT
		}
		if name == c.RecvName && strings.HasPrefix(c.Key, "(") {
			if i := strings.Index(c.Key, ")."); i > 0 {
				return e.P.tryResolveType(c.Key[1:i], c.Pkg, nil)
			}
		}
		return nil
	}
	if strings.HasPrefix(entry, "elems(") && strings.HasSuffix(entry, ")") {
		if t := typeOf(strings.TrimSpace(entry[6 : len(entry)-1])); t != nil {
			if sl, ok := t.Underlying().(*types.Slice); ok {
				n, _ := e.arrMapName(sl.Elem())
				return []string{n}
			}
		}
		return nil
	}
	i := strings.Index(entry, ".")
	if i <= 0 || strings.Contains(entry[i+1:], ".") {
		return nil
	}
	bt := typeOf(entry[:i])
	if bt == nil {
		return nil
	}
	if h, _, _, ok := e.absFieldOf(bt, entry[i+1:]); ok {
		return []string{h}
	}
	t := bt
	if pt, ok := t.Underlying().(*types.Pointer); ok {
		t = pt.Elem()
	}
	if st, ok := t.Underlying().(*types.Struct); ok {
		for k := 0; k < st.NumFields(); k++ {
			if st.Field(k).Name() == entry[i+1:] {
				n, _ := e.fieldMapName(t, k)
				return []string{n}
			}
		}
	}
	return nil
}
