package main

// Replay of solver counterexamples on the real code. Each unit may have a Go test
// template under /verif/replay_templates/<mangled unit>.go.tmpl. The template is an
// in-package test (injected with go test -overlay, nothing is written to /repo) that
// builds the inputs from the solver model, calls the REAL function and evaluates the
// violated clause with an independent Go oracle; it must print "SPEC-VIOLATED" and
// fail when the real code breaks the clause, and pass otherwise.

import (
	"fmt"
	"math/big"
	"os"
	"path/filepath"
	"regexp"
	"sort"
	"strings"
)

// goLiteral converts an SMT value to a Go literal.
func goLiteral(v string) string {
	v = strings.TrimSpace(v)
	switch {
	case strings.HasPrefix(v, "#x"):
		return "0x" + v[2:]
	case strings.HasPrefix(v, "#b"):
		return "0b" + v[2:]
	case v == "true" || v == "false":
		return v
	case strings.HasPrefix(v, "(- ") && strings.HasSuffix(v, ")"):
		return "-" + strings.TrimSpace(v[3:len(v)-1])
	case strings.HasPrefix(v, "\""):
		return smtStringToGo(v)
	case strings.HasPrefix(v, "(_ bv"):
		var s string
		var w int
		fmt.Sscanf(v, "(_ bv%s %d)", &s, &w)
		return s
	}
	if _, ok := new(big.Int).SetString(v, 10); ok {
		return v
	}
	return v
}

var uniEsc = regexp.MustCompile(`\\u\{([0-9a-fA-F]+)\}`)

func smtStringToGo(v string) string {
	s := v[1 : len(v)-1]
	s = strings.ReplaceAll(s, `""`, `"`)
	var b strings.Builder
	b.WriteByte('"')
	rest := s
	for len(rest) > 0 {
		if m := uniEsc.FindStringSubmatchIndex(rest); m != nil && m[0] == 0 {
			var cp int
			fmt.Sscanf(rest[m[2]:m[3]], "%x", &cp)
			if cp < 256 {
				fmt.Fprintf(&b, `\x%02x`, cp)
			} else {
				fmt.Fprintf(&b, `\u%04x`, cp)
			}
			rest = rest[m[1]:]
			continue
		}
		c := rest[0]
		switch {
		case c == '"':
			b.WriteString(`\"`)
		case c == '\\':
			b.WriteString(`\\`)
		case c < 32 || c > 126:
			fmt.Fprintf(&b, `\x%02x`, c)
		default:
			b.WriteByte(c)
		}
		rest = rest[1:]
	}
	b.WriteByte('"')
	return b.String()
}

var tmplVar = regexp.MustCompile(`\{\{([^}]+)\}\}`)

// fillTemplate substitutes {{key}} and {{key|default}} by model values (as Go literals).
// Keys are matched against the pretty model keys; {{raw:key}} inserts the SMT text.
func fillTemplate(tmpl string, model map[string]string) (string, []string) {
	var missing []string
	out := tmplVar.ReplaceAllStringFunc(tmpl, func(m string) string {
		key := strings.TrimSpace(m[2 : len(m)-2])
		def := ""
		hasDef := false
		if i := strings.Index(key, "|"); i >= 0 {
			def = strings.TrimSpace(key[i+1:])
			key = strings.TrimSpace(key[:i])
			hasDef = true
		}
		raw := false
		if strings.HasPrefix(key, "raw:") {
			raw = true
			key = key[4:]
		}
		if v, ok := model[key]; ok {
			if raw {
				return v
			}
			return goLiteral(v)
		}
		if strings.HasPrefix(key, "re:") {
			// first model key (in sorted order) matching the regular expression
			if re, err := regexp.Compile(key[3:]); err == nil {
				var ks []string
				for k := range model {
					ks = append(ks, k)
				}
				sort.Strings(ks)
				for _, k := range ks {
					if re.MatchString(k) {
						if raw {
							return model[k]
						}
						return goLiteral(model[k])
					}
				}
			}
		}
		if hasDef {
			return def
		}
		missing = append(missing, key)
		return "0"
	})
	return out, missing
}

func templateFor(unit string) (string, string) {
	p := filepath.Join(verifDir, "replay_templates", mangle(unit)+".go.tmpl")
	b, err := os.ReadFile(p)
	if err != nil {
		return "", p
	}
	return string(b), p
}

func hasTemplate(unit string) bool {
	t, _ := templateFor(unit)
	return t != ""
}

// replayOnRealCode returns (confirmed, output, test source).
func replayOnRealCode(p *Prog, id string, o *OblResult) (bool, string, string) {
	tmpl, path := templateFor(o.Unit)
	if tmpl == "" {
		return false, "no replay template for " + o.Unit + " (" + path + ")", ""
	}
	model := map[string]string{}
	for k, v := range o.Model {
		model[k] = v
	}
	model["obligation"] = o.Name
	// clause label: last component of the obligation name
	if i := strings.LastIndex(o.Name, "."); i >= 0 {
		model["clause"] = `"` + o.Name[i+1:] + `"`
	}
	src, missing := fillTemplate(tmpl, model)
	rel, _ := splitUnit(o.Unit)
	out, ok := runOverlayTest(rel, src, "TestVerifReplay")
	if len(missing) > 0 {
		out = fmt.Sprintf("(model had no value for %v; zero used)\n%s", missing, out)
	}
	confirmed := !ok && strings.Contains(out, "SPEC-VIOLATED")
	return confirmed, out, src
}
