package main

import (
	"go/types"

	"golang.org/x/tools/go/ssa"
)

// libCallEffects: what a call in a loop body to something OUTSIDE the repository may write, for the loop-head havoc.
//   - a library function or interface method with an assumed contract: the heaps of its `modifies` clause;
//   - a library function without contract (unless documented read-only): everything reachable in one step from its
//     arguments, exactly like havocArgs does at the call itself: local variables whose address is passed (also when
//     boxed in an interface or stored into a variadic argument array, `row.Scan(&a, &b)`), the fields of structs
//     pointed to, boxed values, slice elements and maps.
//
// Without this a variable declared outside a loop and written only by a library call inside it kept its pre-loop
// value at the loop head (found by seeded change C19_m4: scan destinations hoisted out of the key loop).
func (e *Engine) libCallEffects(in ssa.CallInstruction, cell func(*ssa.Alloc), heaps map[string]bool) {
	cc := in.Common()
	if _, ok := cc.Value.(*ssa.Builtin); ok {
		return
	}
	p := e.P
	var lc *Contract
	name := ""
	if cc.IsInvoke() {
		lc = p.ifaceContracts[p.ifaceKey(cc.Value.Type(), cc.Method.Name())]
		name = cc.Method.Name()
	} else if g := cc.StaticCallee(); g != nil {
		if p.inRepo(g) {
			return // covered by the callee's mod set
		}
		name = g.Name()
		lc = p.libContracts[stripTypeArgs(g.String())]
		if lc == nil && g.Origin() != nil {
			lc = p.libContracts[stripTypeArgs(g.Origin().String())]
		}
	} else {
		return // dynamic call of a function value: recorded as an assumption by the caller
	}
	if lc != nil {
		for _, mm := range lc.Modifies {
			for _, h := range e.staticModHeapsLib(lc, mm) {
				heaps[h] = true
			}
		}
		return
	}
	if cc.IsInvoke() || readOnlyCallee(name) {
		return
	}
	seen := map[ssa.Value]bool{}
	var visit func(v ssa.Value, depth int)
	byType := func(t types.Type) {
		switch u := t.Underlying().(type) {
		case *types.Pointer:
			el := u.Elem()
			switch eu := el.Underlying().(type) {
			case *types.Struct:
				for i := 0; i < eu.NumFields(); i++ {
					n, _ := e.fieldMapName(el, i)
					heaps[n] = true
				}
			case *types.Array:
				n, _ := e.arrMapName(eu.Elem())
				heaps[n] = true
			default:
				n, _ := e.boxMapName(el)
				heaps[n] = true
			}
		case *types.Slice:
			n, _ := e.arrMapName(u.Elem())
			heaps[n] = true
		case *types.Map:
			h, _, v, _ := e.mapHeapNames(u)
			heaps[h] = true
			heaps[v] = true
		}
	}
	visit = func(v ssa.Value, depth int) {
		if v == nil || seen[v] || depth > 6 {
			return
		}
		seen[v] = true
		if a := rootAlloc(v); a != nil {
			cell(a)
		}
		switch x := v.(type) {
		case *ssa.MakeInterface:
			visit(x.X, depth+1)
			byType(x.X.Type())
			return
		case *ssa.ChangeInterface:
			visit(x.X, depth+1)
			return
		case *ssa.Slice:
			// a variadic argument array filled by this function: the callee reaches what was stored into it
			if a, ok := x.X.(*ssa.Alloc); ok && a.Referrers() != nil {
				for _, r := range *a.Referrers() {
					ia, ok := r.(*ssa.IndexAddr)
					if !ok || ia.Referrers() == nil {
						continue
					}
					for _, rr := range *ia.Referrers() {
						if s, ok := rr.(*ssa.Store); ok && s.Addr == ia {
							visit(s.Val, depth+1)
						}
					}
				}
			}
		case *ssa.FieldAddr:
			e.addrHeaps(x, heaps)
		case *ssa.IndexAddr:
			e.addrHeaps(x, heaps)
		}
		byType(v.Type())
	}
	for _, a := range cc.Args {
		visit(a, 0)
	}
}
