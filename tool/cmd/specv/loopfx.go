package main

import (
	"go/types"
	"os"

	"golang.org/x/tools/go/ssa"
)

// libCallEffects: what a call in a loop body to something OUTSIDE the repository may write, for the loop-head havoc.
//   - a library function or interface method with an assumed contract: the heaps of its `modifies` clause;
//   - a library function without contract (unless documented read-only): everything reachable in one step from its
//     arguments, exactly like havocArgs does at the call itself: local variables whose address is passed (also when
//     boxed in an interface or stored into a variadic argument array, `row.Scan(&a, &b)`), the fields of structs
//     pointed to, boxed values, slice elements and maps.
//
// Without this a variable declared outside a loop and written only by a library call inside it kept its pre-loop
// value at the loop head (found by seeded change C19_m4: scan destinations hoisted out of the key loop).
func (e *Engine) libCallEffects(in ssa.CallInstruction, cell func(*ssa.Alloc), heaps map[string]bool) {
	cc := in.Common()
	if _, ok := cc.Value.(*ssa.Builtin); ok {
		return
	}
	p := e.P
	var lc *Contract
	name := ""
	if cc.IsInvoke() {
		lc = p.ifaceContracts[p.ifaceKey(cc.Value.Type(), cc.Method.Name())]
		name = cc.Method.Name()
	} else if g := cc.StaticCallee(); g != nil {
		if p.inRepo(g) {
			return // covered by the callee's mod set
		}
		name = g.Name()
		lc = p.libContracts[stripTypeArgs(g.String())]
		if lc == nil && g.Origin() != nil {
			lc = p.libContracts[stripTypeArgs(g.Origin().String())]
		}
	} else {
		return // dynamic call of a function value: recorded as an assumption by the caller
	}
	if lc != nil {
		for _, mm := range lc.Modifies {
			for _, h := range e.staticModHeapsLibAt(lc, mm, callRecvType(cc)) {
				heaps[h] = true
			}
		}
		return
	}
	if cc.IsInvoke() || readOnlyCallee(name) {
		return
	}
	seen := map[ssa.Value]bool{}
	var visit func(v ssa.Value, depth int)
	byType := func(t types.Type) {
		switch u := t.Underlying().(type) {
		case *types.Pointer:
			el := u.Elem()
			switch eu := el.Underlying().(type) {
			case *types.Struct:
				for i := 0; i < eu.NumFields(); i++ {
					n, _ := e.fieldMapName(el, i)
					heaps[n] = true
				}
			case *types.Array:
				n, _ := e.arrMapName(eu.Elem())
				heaps[n] = true
			default:
				n, _ := e.boxMapName(el)
				heaps[n] = true
			}
		case *types.Slice:
			n, _ := e.arrMapName(u.Elem())
			heaps[n] = true
		case *types.Map:
			h, _, v, _ := e.mapHeapNames(u)
			heaps[h] = true
			heaps[v] = true
		}
	}
	visit = func(v ssa.Value, depth int) {
		if v == nil || seen[v] || depth > 6 {
			return
		}
		seen[v] = true
		if a := rootAlloc(v); a != nil {
			cell(a)
		}
		switch x := v.(type) {
		case *ssa.MakeInterface:
			visit(x.X, depth+1)
			byType(x.X.Type())
			return
		case *ssa.ChangeInterface:
			visit(x.X, depth+1)
			return
		case *ssa.Slice:
			// a variadic argument array filled by this function: the callee reaches what was stored into it
			if a, ok := x.X.(*ssa.Alloc); ok && a.Referrers() != nil {
				for _, r := range *a.Referrers() {
					ia, ok := r.(*ssa.IndexAddr)
					if !ok || ia.Referrers() == nil {
						continue
					}
					for _, rr := range *ia.Referrers() {
						if s, ok := rr.(*ssa.Store); ok && s.Addr == ia {
							visit(s.Val, depth+1)
						}
					}
				}
			}
		case *ssa.FieldAddr:
			e.addrHeaps(x, heaps)
		case *ssa.IndexAddr:
			e.addrHeaps(x, heaps)
		}
		byType(v.Type())
	}
	for _, a := range cc.Args {
		visit(a, 0)
	}
}

// closureWrites: the indices of the free variables of closure fn that fn (or a closure it creates over the same
// variable) may store to, or whose address it hands to a call. A loop that merely creates a closure over a variable
// does not change that variable; havocking every captured variable at the loop head destroyed, among other things,
// the identity of a callback parameter captured by an inner closure (fingerRangeView), so that the callback was never
// executed and closestPrecedingNode was proved only for the "no finger qualifies" case.
func closureWrites(fn *ssa.Function, busy map[*ssa.Function]bool) map[int]bool {
	out := map[int]bool{}
	if fn == nil {
		return out
	}
	if busy[fn] {
		for i := range fn.FreeVars {
			out[i] = true
		}
		return out
	}
	busy[fn] = true
	defer delete(busy, fn)
	idx := map[ssa.Value]int{}
	for i, fv := range fn.FreeVars {
		idx[fv] = i
	}
	root := func(v ssa.Value) (int, bool) {
		for k := 0; k < 8; k++ {
			if i, ok := idx[v]; ok {
				return i, true
			}
			switch x := v.(type) {
			case *ssa.FieldAddr:
				v = x.X
			case *ssa.IndexAddr:
				if _, ok := x.X.Type().Underlying().(*types.Pointer); ok {
					v = x.X
				} else {
					return 0, false
				}
			default:
				return 0, false
			}
		}
		return 0, false
	}
	for _, b := range fn.Blocks {
		for _, in := range b.Instrs {
			switch x := in.(type) {
			case *ssa.Store:
				if i, ok := root(x.Addr); ok {
					out[i] = true
				}
			case *ssa.MakeClosure:
				inner := closureWrites(x.Fn.(*ssa.Function), busy)
				for j, bnd := range x.Bindings {
					if i, ok := root(bnd); ok && inner[j] {
						out[i] = true
					}
				}
			case ssa.CallInstruction:
				for _, a := range x.Common().Args {
					if i, ok := root(a); ok {
						out[i] = true // the variable's address is passed on
					}
				}
			}
		}
	}
	return out
}

// addReach registers a reachability probe for one branch edge of the function under contract. Probes are
// diagnostics, never obligations: a branch that no path of the MODEL can take (a re-check after re-acquiring a lock
// that the sequential model can never see changed, defensive code) is listed in the evidence as
// branches_unreachable_in_model, so that a contract author can see which code the clauses do not constrain.
func (e *Engine) addReach(st *State, name string) {
	if st.dead {
		return
	}
	o, ok := e.obls[name]
	if !ok {
		o = &Obl{Name: name, Kind: "reach", Src: "branch edge reachable in the model", Expect: "sat"}
		e.obls[name] = o
		e.oblOrder = append(e.oblOrder, name)
	}
	if len(o.Paths) < 256 {
		o.Paths = append(o.Paths, &OblPath{PC: append([]string{}, st.pc...), Goal: "false"})
	}
}

// reachProbesFor: only the function under contract and the closures declared inside it get probes.
// hasDynamicCall: does fn (or a closure it creates) call a function value?
func hasDynamicCall(fn *ssa.Function, busy map[*ssa.Function]bool) bool {
	if fn == nil || busy[fn] {
		return false
	}
	busy[fn] = true
	for _, b := range fn.Blocks {
		for _, in := range b.Instrs {
			switch x := in.(type) {
			case *ssa.MakeClosure:
				if hasDynamicCall(x.Fn.(*ssa.Function), busy) {
					return true
				}
			case ssa.CallInstruction:
				cc := x.Common()
				if _, bi := cc.Value.(*ssa.Builtin); !bi && !cc.IsInvoke() && cc.StaticCallee() == nil {
					return true
				}
			}
		}
	}
	return false
}

// loopRunsClosures: the loop body creates a closure that calls a function value (fingerRangeView hands its callback
// on inside a closure it creates per iteration).
func (e *Engine) loopRunsClosures(li *loopInfo) bool {
	for b := range li.body {
		for _, in := range b.Instrs {
			if mc, ok := in.(*ssa.MakeClosure); ok {
				if hasDynamicCall(mc.Fn.(*ssa.Function), map[*ssa.Function]bool{}) {
					return true
				}
			}
		}
	}
	return false
}

// loopCallsFunctionValue: the loop body itself calls a function value (not an interface method, which cannot be one
// of this function's closures unless it was handed over explicitly).
func (e *Engine) loopCallsFunctionValue(li *loopInfo) bool {
	for b := range li.body {
		for _, in := range b.Instrs {
			if ci, ok := in.(ssa.CallInstruction); ok {
				cc := ci.Common()
				if _, bi := cc.Value.(*ssa.Builtin); !bi && !cc.IsInvoke() && cc.StaticCallee() == nil {
					return true
				}
			}
		}
	}
	return false
}

// havocKnownClosureWrites gives arbitrary contents to every variable that a closure known to this execution (held
// in a register or cell of any active frame, or registered as a function-value term) may write.
func (e *Engine) havocKnownClosureWrites(st *State) {
	seen := map[*ssa.Function]bool{}
	visit := func(v Val) {
		if v.K == kTerm {
			if cv, ok := e.closureRev[v.T]; ok {
				v = cv
			}
		}
		if v.K != kClosure || v.Fn == nil || seen[v.Fn] {
			return
		}
		seen[v.Fn] = true
		w := closureWrites(v.Fn, map[*ssa.Function]bool{})
		for j, b := range v.Binds {
			if w[j] {
				e.havocArgs(st, []Val{b})
			}
		}
	}
	for _, fr := range st.frames {
		for _, v := range fr.regs {
			visit(v)
		}
		for _, v := range fr.closure {
			visit(v)
		}
	}
	for _, v := range st.cells {
		visit(v)
	}
}

var reachProbes = os.Getenv("SPECV_REACH") != ""

func (e *Engine) reachProbesFor(fn *ssa.Function) bool {
	if !reachProbes || e.unit == nil || e.unit.Fn == nil {
		return false
	}
	for f := fn; f != nil; f = f.Parent() {
		if f == e.unit.Fn {
			return true
		}
	}
	return false
}

// callRecvType: the static type of the receiver at a call (nil for plain functions).
func callRecvType(cc *ssa.CallCommon) types.Type {
	if cc.IsInvoke() {
		return cc.Value.Type()
	}
	if g := cc.StaticCallee(); g != nil && g.Signature.Recv() != nil && len(cc.Args) > 0 {
		return cc.Args[0].Type()
	}
	return nil
}
