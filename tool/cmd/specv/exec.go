package main

import (
	"fmt"
	"go/token"
	"go/types"
	"os"
	"runtime/debug"
	"sort"
	"strconv"
	"strings"

	"golang.org/x/tools/go/ssa"
)

type OblPath struct {
	PC    []string
	Goal  string
	Trace []string
}

type Obl struct {
	Name   string
	Kind   string
	Src    string
	Paths  []*OblPath
	Expect string // "unsat" normally; "sat" for cover obligations
	failed int32
}

type loopInfo struct {
	header *ssa.BasicBlock
	body   map[*ssa.BasicBlock]bool
	ord    int
	spec   *LoopSpec
	cells  []*ssa.Alloc      // local allocs stored in body
	heaps  map[string]bool   // heap map names possibly stored in body
	ghosts map[string]bool   // ghost vars assigned in body
	calls  []*ssa.Function   // static callees in body (for modsets)
	hasUnknownCall bool
}

type Engine struct {
	P    *Prog
	S    *SMT
	unit *Unit

	obls     map[string]*Obl
	oblOrder []string

	heapSorts      map[string]string
	allSorts       map[string]string
	interiorPtr    map[string]string
	interiorPtrRev map[string]*Ptr
	// smallArr: elements stored (at any index) into arrays allocated by the function itself, keyed by the
	// array's reference term: the values a variadic argument slice carries, so that a call that receives
	// the slice is known to reach the pointers boxed in it (rows.Scan(&a, &b))
	smallArr   map[string][]Val
	closureRev map[string]Val
	cellCtr        int
	paths          int
	maxPaths       int
	assumptions    map[string]bool
	unmodelled     map[string]bool
	usedContracts  map[string]bool
	usedLib        map[string]bool
	loops          map[*ssa.Function]map[*ssa.BasicBlock]*loopInfo
	globalsSeen    map[*ssa.Global]string
	errs           []string
	inputs         []InputVar // symbolic inputs for model extraction
	initAlloc      string
	callOrd        map[*ssa.Function]map[ssa.Instruction]string
	limitHit       bool
	specEval       int
	fdecls         map[string]*frameDecl
	usedAts        map[*AtSpec]bool
	usedRangeSpecs map[*LoopSpec]bool
	pendingBinds   []Val
	globalAddrs    []string
	errGlobals     []string
	modsetCache    map[*ssa.Function]map[string]bool
}

type InputVar struct {
	Name string
	Term string
	Typ  types.Type
}

type toolLimit struct{ msg string }

func limitf(f string, a ...any) {
	if os.Getenv("SPECV_DEBUG_LIMIT") != "" {
		debug.PrintStack()
	}
	panic(toolLimit{fmt.Sprintf(f, a...)})
}

func NewEngine(p *Prog, u *Unit) *Engine {
	bv := u.C != nil && u.C.Arith == "bv"
	e := &Engine{P: p, S: NewSMT(bv), unit: u,
		obls: map[string]*Obl{}, heapSorts: map[string]string{}, interiorPtr: map[string]string{},
		interiorPtrRev: map[string]*Ptr{}, smallArr: map[string][]Val{}, closureRev: map[string]Val{}, assumptions: map[string]bool{},
		unmodelled: map[string]bool{}, usedContracts: map[string]bool{}, usedLib: map[string]bool{},
		loops: map[*ssa.Function]map[*ssa.BasicBlock]*loopInfo{}, globalsSeen: map[*ssa.Global]string{},
		maxPaths: 6000, callOrd: map[*ssa.Function]map[ssa.Instruction]string{}, usedAts: map[*AtSpec]bool{}, usedRangeSpecs: map[*LoopSpec]bool{}, modsetCache: map[*ssa.Function]map[string]bool{}}
	return e
}

func (e *Engine) noteAssumption(s string) { e.assumptions[s] = true }

func (e *Engine) noteGlobal(g *ssa.Global, t string) {
	if _, ok := e.globalsSeen[g]; !ok {
		el := g.Type().(*types.Pointer).Elem()
		if _, isIface := el.Underlying().(*types.Interface); isIface && isErrName(g.Name()) && strings.HasSuffix(t, "!0") {
			// sentinel errors: non-nil, pairwise distinct, never reassigned
			e.noteAssumption("package-level Err* variables hold distinct non-nil error values and are never reassigned")
			e.S.AddAxiom([]string{t}, fmt.Sprintf("(not (= %s (mk_iface 0 0)))", t))
			for og, ot := range e.globalsSeen {
				oel := og.Type().(*types.Pointer).Elem()
				if _, ok := oel.Underlying().(*types.Interface); ok && isErrName(og.Name()) && strings.HasSuffix(ot, "!0") {
					e.S.AddAxiom([]string{t, ot}, fmt.Sprintf("(not (= %s %s))", t, ot))
				}
			}
		}
		e.globalsSeen[g] = t
	}
}

// ---- obligations

func (e *Engine) addObl(st *State, name, kind, src, goal string) {
	if st.dead || goal == "true" {
		// still register the name so that counts are stable
		if _, ok := e.obls[name]; !ok {
			e.obls[name] = &Obl{Name: name, Kind: kind, Src: src, Expect: "unsat"}
			e.oblOrder = append(e.oblOrder, name)
		}
		return
	}
	o, ok := e.obls[name]
	if !ok {
		o = &Obl{Name: name, Kind: kind, Src: src, Expect: "unsat"}
		e.obls[name] = o
		e.oblOrder = append(e.oblOrder, name)
	}
	o.Paths = append(o.Paths, &OblPath{PC: append([]string{}, st.pc...), Goal: goal, Trace: append([]string{}, st.trace...)})
}

func (e *Engine) addCover(st *State, name, src string) {
	if st.dead {
		return
	}
	o, ok := e.obls[name]
	if !ok {
		o = &Obl{Name: name, Kind: "cover", Src: src, Expect: "sat"}
		e.obls[name] = o
		e.oblOrder = append(e.oblOrder, name)
	}
	o.Paths = append(o.Paths, &OblPath{PC: append([]string{}, st.pc...), Goal: "false"})
}

func (e *Engine) oblPrefix(fn *ssa.Function) string {
	d := e.P.funcDisplay(fn)
	if e.unit != nil && fn == e.unit.Fn && e.unit.C != nil {
		if i := strings.Index(e.unit.C.Key, "@"); i > 0 {
			d += e.unit.C.Key[i:]
		}
	}
	return d
}

// ---- loops

func (e *Engine) loopsOf(fn *ssa.Function) map[*ssa.BasicBlock]*loopInfo {
	if m, ok := e.loops[fn]; ok {
		return m
	}
	m := map[*ssa.BasicBlock]*loopInfo{}
	for _, b := range fn.Blocks {
		for _, s := range b.Succs {
			if s.Dominates(b) {
				li := m[s]
				if li == nil {
					li = &loopInfo{header: s, body: map[*ssa.BasicBlock]bool{s: true}, heaps: map[string]bool{}, ghosts: map[string]bool{}}
					m[s] = li
				}
				// natural loop: all nodes that reach b without passing s
				var stack []*ssa.BasicBlock
				if !li.body[b] {
					li.body[b] = true
					stack = append(stack, b)
				}
				for len(stack) > 0 {
					x := stack[len(stack)-1]
					stack = stack[:len(stack)-1]
					for _, p := range x.Preds {
						if !li.body[p] {
							li.body[p] = true
							stack = append(stack, p)
						}
					}
				}
			}
		}
	}
	var hs []*ssa.BasicBlock
	for h := range m {
		hs = append(hs, h)
	}
	sort.Slice(hs, func(i, j int) bool { return hs[i].Index < hs[j].Index })
	for i, h := range hs {
		m[h].ord = i + 1
	}
	e.loops[fn] = m
	return m
}

func (e *Engine) loopSpecFor(c *Contract, fn *ssa.Function, li *loopInfo) *LoopSpec {
	if c == nil {
		return nil
	}
	for _, ls := range c.Loops {
		if n, err := strconv.Atoi(ls.Anchor); err == nil {
			if n == li.ord {
				return ls
			}
			continue
		}
		// by variable name declared in the loop body, innermost loop wins
		found := false
		for b := range li.body {
			for _, in := range b.Instrs {
				if a, ok := in.(*ssa.Alloc); ok && a.Comment == ls.Anchor {
					found = true
				}
			}
		}
		if found {
			// make sure no inner loop also contains it
			inner := false
			for h, other := range e.loopsOf(fn) {
				if other != li && li.body[h] {
					for b := range other.body {
						for _, in := range b.Instrs {
							if a, ok := in.(*ssa.Alloc); ok && a.Comment == ls.Anchor {
								inner = true
							}
						}
					}
				}
			}
			if !inner {
				return ls
			}
		}
	}
	return nil
}

// ---- frames and cells

func (e *Engine) newCell(st *State, v Val) int {
	e.cellCtr++
	st.cells[e.cellCtr] = v
	return e.cellCtr
}

func (e *Engine) reg(st *State, v ssa.Value) Val {
	fr := st.top()
	switch x := v.(type) {
	case *ssa.Const:
		return e.constVal(x)
	case *ssa.Global:
		return e.globalAddr(x)
	case *ssa.Function:
		return Val{K: kFunc, Fn: x, Typ: x.Type()}
	case *ssa.Builtin:
		return Val{K: kFunc, Typ: x.Type()}
	case *ssa.FreeVar:
		for i, fv := range fr.fn.FreeVars {
			if fv == x {
				return fr.closure[i]
			}
		}
		panic("free var not bound")
	}
	if r, ok := fr.regs[v]; ok {
		return r
	}
	panic(fmt.Sprintf("unbound register %s in %s", v.Name(), fr.fn.Name()))
}

func (e *Engine) setReg(st *State, v ssa.Value, x Val) { st.top().regs[v] = x }

func (e *Engine) freshOf(st *State, hint string, t types.Type) Val {
	if tup, ok := t.(*types.Tuple); ok {
		var vs []Val
		for i := 0; i < tup.Len(); i++ {
			vs = append(vs, e.freshOf(st, fmt.Sprintf("%s_%d", hint, i), tup.At(i).Type()))
		}
		return Val{K: kTuple, Tup: vs, Typ: t}
	}
	n := e.S.Fresh(hint, e.sortOf(t))
	if c := e.rangeConstraintBV(n, t); c != "" {
		st.assume(c)
	}
	switch t.Underlying().(type) {
	case *types.Pointer, *types.Map, *types.Chan:
		st.assume(fmt.Sprintf("(<= %s %s)", n, st.alloc))
	case *types.Slice:
		st.assume(fmt.Sprintf("(<= (sl_ref %s) %s)", n, st.alloc))
	}
	return term(n, t)
}

// ---- top-level execution of a unit

func (e *Engine) Run() (err error) {
	defer func() {
		if r := recover(); r != nil {
			if tl, ok := r.(toolLimit); ok {
				err = fmt.Errorf("tool limit: %s", tl.msg)
				return
			}
			panic(r)
		}
	}()
	u := e.unit
	fn := u.Fn
	if fn.Blocks == nil {
		return fmt.Errorf("function %s has no body", fn)
	}
	st := &State{heap: map[string]string{}, cells: map[int]Val{}, ghost: map[string]Val{}}
	e.S.DeclareConst("alloc!0", "Int")
	st.alloc = "alloc!0"
	e.initAlloc = st.alloc
	st.assume("(<= 0 alloc!0)")
	fr := &FrameSt{fn: fn, regs: map[ssa.Value]Val{}, cells: map[*ssa.Alloc]Val{}, contract: u.C, params: map[string]Val{}}
	st.frames = []*FrameSt{fr}
	for _, p := range fn.Params {
		v := e.freshOf(st, "in_"+p.Name(), p.Type())
		fr.regs[p] = v
		fr.params[p.Name()] = v
		e.inputs = append(e.inputs, InputVar{p.Name(), v.T, p.Type()})
	}
	for i, fv := range fn.FreeVars {
		// free variables are pointers to captured variables: allocate a symbolic object
		pt := fv.Type().(*types.Pointer)
		obj := e.freshOf(st, "fv_"+fv.Name(), pt)
		st.assume(fmt.Sprintf("(> %s 0)", obj.T))
		_ = i
		fr.closure = append(fr.closure, obj)
		if fr.freeVars == nil {
			fr.freeVars = map[string]Val{}
		}
		fr.freeVars[fv.Name()] = obj // specs see the captured variable's value, not the pointer
	}
	// receiver is assumed non-nil for pointer-receiver methods
	if fn.Signature.Recv() != nil && len(fn.Params) > 0 {
		if _, ok := fn.Params[0].Type().Underlying().(*types.Pointer); ok {
			st.assume(fmt.Sprintf("(> %s 0)", fr.regs[fn.Params[0]].T))
			e.noteAssumption("pointer receivers of functions under contract are non-nil")
		}
	}
	if fn.Name() == "init" && fn.Pkg != nil {
		// the package initializer runs once: its guard variable is false on entry
		if g, ok := fn.Pkg.Members["init$guard"].(*ssa.Global); ok {
			v := e.loadThrough(st, e.globalAddr(g))
			st.assume(fmt.Sprintf("(not %s)", v.T))
		}
	}
	e.declareGhosts(st, u.C)
	st.old = st.snapshot()
	env := e.envFor(st, fr, st.old)
	if u.C != nil {
		forget := e.forgetSet()
		for _, c := range u.C.Requires {
			if forget[c.Label] {
				continue
			}
			v := e.evalBool(st, env, c.E)
			st.assume(v)
			if strings.HasPrefix(c.Label, "env-") {
				e.noteAssumption(fmt.Sprintf("environment assumption, not checked at call sites (%s in %s: %s)", c.Label, e.oblPrefix(fn), c.Src))
			}
			if strings.HasPrefix(c.Label, "pkginit-") {
				// a fact about package-level variables that the package initializer establishes (proved as an
				// ensures of the unit `init` of the same package); callers are not asked to re-establish it
				e.noteAssumption(fmt.Sprintf("package-level variables keep the values the package initializer gave them (%s in %s: %s)", c.Label, e.oblPrefix(fn), c.Src))
			}
		}
		for _, c := range u.C.Assumes {
			v := e.evalBool(st, env, c.E)
			st.assume(v)
			e.noteAssumption(fmt.Sprintf("assume %s in %s: %s", c.Label, e.oblPrefix(fn), c.Src))
		}
	}
	st.old = st.snapshot()
	st.old.pc = nil
	// exported postconditions must make sense at call sites: only parameters, results and heap
	if u.C != nil && !strings.Contains(u.C.Key, "@") && u.C.Opts["exported"] == "check" {
		for _, cl := range u.C.Ensures {
			if strings.HasPrefix(cl.Label, "local-") {
				continue
			}
			var bad string
			func() {
				defer func() {
					if r := recover(); r != nil {
						if tl, ok := r.(toolLimit); ok {
							bad = tl.msg
							return
						}
						panic(r)
					}
				}()
				tmp := st.clone()
				cenv := &Env{e: e, st: tmp, fr: tmp.top(), old: tmp, params: fr.params, bound: map[string]Val{}, pkg: u.C.Pkg, contract: u.C, callee: true, inEnsures: true}
				for _, t := range resultTypes(fn.Signature) {
					cenv.results = append(cenv.results, e.freshOf(tmp, "probe", t))
				}
				e.evalSpec(tmp, cenv, cl.E)
			}()
			if bad != "" {
				limitf("contract does not bind: exported clause %q of %s mentions state a caller cannot see (%s); label it local-", cl.Label, u.C.Key, bad)
			}
		}
	}
	// vacuity: the precondition must be satisfiable
	e.addCover(st, e.oblPrefix(fn)+".vacuity.requires", "requires satisfiable")
	fr.k = func(st2 *State, results []Val) { e.checkReturn(st2, fr.fn, u.C, results) }
	e.execBlock(st, fn.Blocks[0], nil)
	if e.limitHit {
		return fmt.Errorf("tool limit: more than %d paths", e.maxPaths)
	}
	return nil
}

func (e *Engine) declareGhosts(st *State, c *Contract) {
	if c == nil {
		return
	}
	for _, g := range c.Ghosts {
		t := e.P.resolveType(g.Type, c.Pkg, e.unit.Fn)
		if g.Init != nil {
			env := e.envFor(st, st.top(), st)
			v := e.evalSpec(st, env, g.Init.E)
			st.ghost[g.Name] = e.coerce(v, t)
		} else {
			st.ghost[g.Name] = term(e.S.Fresh("ghost_"+g.Name, e.sortOf(t)), t)
		}
	}
}

func (e *Engine) checkReturn(st *State, fn *ssa.Function, c *Contract, results []Val) {
	if st.dead {
		return
	}
	e.paths++
	if c == nil {
		return
	}
	fr := st.top()
	env := e.envFor(st, fr, st.old)
	env.results = results
	env.inEnsures = true
	pre := e.oblPrefix(fn)
	for _, cl := range c.Ensures {
		goal := e.evalBool(st, env, cl.E)
		e.addObl(st, pre+".ensures."+cl.Label, "ensures", cl.Src, goal)
	}
	e.addCover(st, pre+".vacuity.return", "some return is reachable")
	e.checkFrame(st, fn, c, env)
}

// ---- block execution

func (e *Engine) execBlock(st *State, b *ssa.BasicBlock, from *ssa.BasicBlock) {
	if st.dead {
		return
	}
	if e.paths > e.maxPaths {
		e.limitHit = true
		return
	}
	fr := st.top()
	fr.prev = from
	// drop loops we left
	if len(fr.active) > 0 {
		var keep []*loopInfo
		for _, li := range fr.active {
			if li.body[b] {
				keep = append(keep, li)
			}
		}
		fr.active = keep
	}
	if li, ok := e.loopsOf(fr.fn)[b]; ok {
		if !e.enterLoopHeader(st, li, from) {
			return
		}
	}
	e.execInstrs(st, b, 0)
}

// enterLoopHeader returns false if the path ends here (back edge).
func (e *Engine) enterLoopHeader(st *State, li *loopInfo, from *ssa.BasicBlock) bool {
	fr := st.top()
	spec := e.loopSpecFor(fr.contract, fr.fn, li)
	evalFr := fr
	if spec == nil && len(st.frames) > 1 && e.unit.C != nil {
		// loops of inlined callees are specified in the unit's contract as "<callee>/<anchor>"
		// and evaluated in the scope of the function under contract
		for _, ls := range e.unit.C.Loops {
			pfx := stripTypeArgs(fr.fn.Name()) + "/"
			if strings.HasPrefix(ls.Anchor, pfx) {
				tmp := *ls
				tmp.Anchor = strings.TrimPrefix(ls.Anchor, pfx)
				if e.loopSpecFor(&Contract{Loops: []*LoopSpec{&tmp}}, fr.fn, li) != nil {
					spec = ls
					evalFr = st.frames[0]
				}
			}
		}
	}
	pre := fmt.Sprintf("%s.loop%d", e.oblPrefix(fr.fn), li.ord)
	for _, a := range fr.active {
		if a == li {
			// back edge
			if spec != nil && spec.Unroll > 0 {
				break
			}
			env := e.envFor(st, evalFr, st.old)
			env.extraFr = fr
			for _, h := range e.loopHeaps(st, li) {
				if f := e.frameFormula(st, h); f != "" {
					e.addObl(st, pre+".preserve.frame."+h, "frame", "frame condition preserved by loop body", f)
				}
			}
			if spec != nil {
				for _, inv := range spec.Invs {
					e.addObl(st, pre+".preserve."+inv.Label, "invariant", inv.Src, e.evalBool(st, env, inv.E))
				}
				if spec.Decreases != nil {
					cur := e.coerce(e.evalSpec(st, env, spec.Decreases.E), tInt)
					old := st.ghost[fmt.Sprintf("$dec_%p", li)]
					e.addObl(st, pre+".decreases", "decreases", spec.Decreases.Src,
						fmt.Sprintf("(and %s %s)", e.compare("<", cur.T, old.T, cur.Typ), e.compare(">=", old.T, e.intLit(0, cur.Typ), cur.Typ)))
				}
			}
			e.paths++
			return false
		}
	}
	if spec != nil && spec.Unroll > 0 {
		if fr.unrolled == nil {
			fr.unrolled = map[*ssa.BasicBlock]int{}
		}
		fr.unrolled[li.header]++
		if fr.unrolled[li.header] > spec.Unroll+1 {
			// unwinding obligation: the loop cannot run this many times
			e.addObl(st, pre+".unwind", "unwind", fmt.Sprintf("loop runs at most %d times", spec.Unroll), "false")
			e.paths++
			return false
		}
		return true
	}
	// first entry
	env := e.envFor(st, evalFr, st.old)
	env.extraFr = fr
	if spec != nil {
		for _, inv := range spec.Invs {
			e.addObl(st, pre+".entry."+inv.Label, "invariant", inv.Src, e.evalBool(st, env, inv.E))
		}
	}
	hs := e.loopHeaps(st, li)
	for _, h := range hs {
		if f := e.frameFormula(st, h); f != "" {
			e.addObl(st, pre+".entry.frame."+h, "frame", "frame condition holds on loop entry", f)
		}
	}
	e.havocLoop(st, li)
	for _, h := range hs {
		if f := e.frameFormula(st, h); f != "" {
			st.assume(f)
		}
	}
	env = e.envFor(st, evalFr, st.old)
	env.extraFr = fr
	if spec != nil {
		for _, inv := range spec.Invs {
			st.assume(e.evalBool(st, env, inv.E))
		}
		if spec.Decreases != nil {
			cur := e.coerce(e.evalSpec(st, env, spec.Decreases.E), tInt)
			st.ghost[fmt.Sprintf("$dec_%p", li)] = cur
		}
	}
	fr.active = append(fr.active, li)
	return true
}

func (e *Engine) analyzeLoop(fn *ssa.Function, li *loopInfo) {
	if li.cells != nil || li.hasUnknownCall {
		return
	}
	li.cells = []*ssa.Alloc{}
	seen := map[*ssa.Alloc]bool{}
	for b := range li.body {
		for _, in := range b.Instrs {
			addCell := func(a *ssa.Alloc) {
				if !seen[a] {
					seen[a] = true
					li.cells = append(li.cells, a)
				}
			}
			e.instrEffects(in, addCell, li.heaps, func(f *ssa.Function) { li.calls = append(li.calls, f) }, func() { li.hasUnknownCall = true })
			if ci, ok := in.(ssa.CallInstruction); ok {
				// calls that leave the repository: assumed contracts' frames, or whatever the arguments reach (loopfx.go)
				e.libCallEffects(ci, addCell, li.heaps)
			}
		}
	}
}

func rootAlloc(v ssa.Value) *ssa.Alloc {
	for {
		switch x := v.(type) {
		case *ssa.Alloc:
			return x
		case *ssa.FieldAddr:
			v = x.X
		case *ssa.IndexAddr:
			if _, ok := x.X.Type().Underlying().(*types.Pointer); ok {
				v = x.X
			} else {
				return nil
			}
		default:
			return nil
		}
	}
}

// instrEffects reports what an instruction may modify.
func (e *Engine) instrEffects(in ssa.Instruction, cell func(*ssa.Alloc), heaps map[string]bool, call func(*ssa.Function), unknown func()) {
	switch x := in.(type) {
	case *ssa.Store:
		if a := rootAlloc(x.Addr); a != nil {
			cell(a)
			if !a.Heap {
				return
			}
		}
		e.addrHeaps(x.Addr, heaps)
	case *ssa.MapUpdate:
		if m, ok := x.Map.Type().Underlying().(*types.Map); ok {
			h, _, v, _ := e.mapHeapNames(m)
			heaps[h] = true
			heaps[v] = true
		}
	case *ssa.Alloc:
		// allocation in a loop: fresh each iteration; the cell itself is re-bound
		cell(x)
	case ssa.CallInstruction:
		cc := x.Common()
		if b, ok := cc.Value.(*ssa.Builtin); ok {
			switch b.Name() {
			case "append", "copy", "clear":
				if len(cc.Args) > 0 {
					if s, ok := cc.Args[0].Type().Underlying().(*types.Slice); ok {
						n, _ := e.arrMapName(s.Elem())
						heaps[n] = true
					}
				}
			case "delete":
				if m, ok := cc.Args[0].Type().Underlying().(*types.Map); ok {
					h, _, v, _ := e.mapHeapNames(m)
					heaps[h] = true
					heaps[v] = true
				}
			}
			return
		}
		if f := cc.StaticCallee(); f != nil {
			call(f)
			// closures: cells captured by reference may be modified
			if mc, ok := cc.Value.(*ssa.MakeClosure); ok {
				w := closureWrites(mc.Fn.(*ssa.Function), map[*ssa.Function]bool{})
				for j, bnd := range mc.Bindings {
					if a := rootAlloc(bnd); a != nil && w[j] {
						cell(a)
					}
				}
			}
			for _, a := range cc.Args {
				if mc, ok := a.(*ssa.MakeClosure); ok {
					call(mc.Fn.(*ssa.Function))
					w := closureWrites(mc.Fn.(*ssa.Function), map[*ssa.Function]bool{})
					for j, bnd := range mc.Bindings {
						if al := rootAlloc(bnd); al != nil && w[j] {
							cell(al)
						}
					}
				}
			}
		} else {
			unknown()
		}
	}
}

func (e *Engine) addrHeaps(addr ssa.Value, heaps map[string]bool) {
	switch x := addr.(type) {
	case *ssa.FieldAddr:
		st := x.X.Type().Underlying().(*types.Pointer).Elem()
		// walk to the outermost struct reached through a pointer register
		root := x
		path := []int{x.Field}
		for {
			if fa, ok := root.X.(*ssa.FieldAddr); ok {
				path = append([]int{fa.Field}, path...)
				root = fa
				continue
			}
			break
		}
		if ia, ok := root.X.(*ssa.IndexAddr); ok {
			e.addrHeaps(ia, heaps)
			return
		}
		st = root.X.Type().Underlying().(*types.Pointer).Elem()
		n, _ := e.fieldMapName(st, path[0])
		heaps[n] = true
	case *ssa.IndexAddr:
		switch t := x.X.Type().Underlying().(type) {
		case *types.Slice:
			n, _ := e.arrMapName(t.Elem())
			heaps[n] = true
		case *types.Pointer:
			if fa, ok := x.X.(*ssa.FieldAddr); ok {
				// element of an array-typed struct field: the field's heap map changes
				e.addrHeaps(fa, heaps)
				return
			}
			if at, ok := t.Elem().Underlying().(*types.Array); ok {
				n, _ := e.arrMapName(at.Elem())
				heaps[n] = true
			}
		}
	case *ssa.Global:
		// package-level variables live in the heap at fixed addresses
		el := x.Type().(*types.Pointer).Elem()
		switch u := el.Underlying().(type) {
		case *types.Struct:
			for i := 0; i < u.NumFields(); i++ {
				n, _ := e.fieldMapName(el, i)
				heaps[n] = true
			}
		case *types.Array:
			n, _ := e.arrMapName(u.Elem())
			heaps[n] = true
		default:
			n, _ := e.boxMapName(el)
			heaps[n] = true
		}
	case *ssa.Alloc:
		if x.Heap {
			el := x.Type().(*types.Pointer).Elem()
			switch u := el.Underlying().(type) {
			case *types.Struct:
				for i := 0; i < u.NumFields(); i++ {
					n, _ := e.fieldMapName(el, i)
					heaps[n] = true
				}
			case *types.Array:
				n, _ := e.arrMapName(u.Elem())
				heaps[n] = true
			default:
				n, _ := e.boxMapName(el)
				heaps[n] = true
			}
		}
	default:
		// store through a pointer register (parameter, loaded pointer, free var)
		if pt, ok := addr.Type().Underlying().(*types.Pointer); ok {
			el := pt.Elem()
			switch u := el.Underlying().(type) {
			case *types.Struct:
				for i := 0; i < u.NumFields(); i++ {
					n, _ := e.fieldMapName(el, i)
					heaps[n] = true
				}
			case *types.Array:
				n, _ := e.arrMapName(u.Elem())
				heaps[n] = true
			default:
				n, _ := e.boxMapName(el)
				heaps[n] = true
			}
		}
	}
}

// loopHeaps: heap maps the loop body may write (sorted)
func (e *Engine) loopHeaps(st *State, li *loopInfo) []string {
	fr := st.top()
	e.analyzeLoop(fr.fn, li)
	set := map[string]bool{}
	for h := range li.heaps {
		set[h] = true
	}
	for _, f := range li.calls {
		for h := range e.P.modset(e, f) {
			set[h] = true
		}
	}
	var out []string
	for h := range set {
		out = append(out, h)
	}
	sort.Strings(out)
	return out
}

func (e *Engine) havocLoop(st *State, li *loopInfo) {
	fr := st.top()
	e.analyzeLoop(fr.fn, li)
	for _, a := range li.cells {
		pv, ok := fr.cells[a]
		if !ok {
			continue
		}
		if pv.K == kPtr && pv.P.Kind == pCell {
			old := st.cells[pv.P.Cell]
			if old.K == kTerm {
				st.cells[pv.P.Cell] = e.freshOf(st, "lv_"+a.Comment, old.Typ)
			}
		}
	}
	heaps := map[string]bool{}
	for h := range li.heaps {
		heaps[h] = true
	}
	for _, f := range li.calls {
		for h := range e.P.modset(e, f) {
			heaps[h] = true
		}
	}
	if e.loopCallsFunctionValue(li) || e.loopRunsClosures(li) {
		// a function value called in the loop (directly or inside a closure the loop creates) may be one of the
		// closures this execution knows: what they write is no longer what it was before the loop
		e.havocKnownClosureWrites(st)
	}
	if li.hasUnknownCall {
		e.noteAssumption("dynamic calls inside loops are assumed not to modify tracked heap state unless they have a contract or are closures of the function under verification")
	}
	for h := range heaps {
		e.heapHavoc(st, h)
	}
	// allocation watermark grows
	na := e.S.Fresh("alloc", "Int")
	st.assume(fmt.Sprintf("(>= %s %s)", na, st.alloc))
	st.alloc = na
	// the ghost `visited` set of a map iteration advanced in this loop
	for b := range li.body {
		for _, in := range b.Instrs {
			if nx, ok := in.(*ssa.Next); ok && !nx.IsString {
				if g, ok := st.ghost["visited"]; ok {
					st.ghost["visited"] = term(e.S.Fresh("visited", e.sortOf(g.Typ)), g.Typ)
				}
			}
		}
	}
	// locations other threads may change at a blocking call inside the loop (at <anchor>: havoc ...)
	if fr.contract != nil {
		for _, at := range fr.contract.Ats {
			if at.Kind == "havoc" && e.anchorInLoop(fr.fn, at.Anchor, li) {
				var ms []string
				for _, m := range strings.Split(at.Var, ",") {
					if m = strings.TrimSpace(m); m != "" {
						ms = append(ms, m)
					}
				}
				env := e.envFor(st, fr, st.old)
				e.havocModifies(st, env, &Contract{Modifies: ms, Pkg: fr.contract.Pkg, Key: fr.contract.Key})
			}
		}
	}
	// ghost variables updated in the loop
	if fr.contract != nil {
		for _, at := range fr.contract.Ats {
			if at.Kind != "ghost" {
				continue
			}
			if e.anchorInLoop(fr.fn, at.Anchor, li) {
				name := at.Var
				if i := strings.Index(name, "["); i > 0 {
					name = name[:i]
				}
				if g, ok := st.ghost[name]; ok {
					st.ghost[name] = term(e.S.Fresh("ghost_"+name, e.sortOf(g.Typ)), g.Typ)
				}
			}
		}
	}
}

// ---- anchors

// anchorName returns the names under which an instruction can be addressed.
func (e *Engine) anchorsOf(fn *ssa.Function) map[ssa.Instruction]string {
	if m, ok := e.callOrd[fn]; ok {
		return m
	}
	m := map[ssa.Instruction]string{}
	cnt := map[string]int{}
	type posInstr struct {
		in  ssa.Instruction
		key string
	}
	var all []posInstr
	for _, b := range fn.Blocks {
		for _, in := range b.Instrs {
			key := ""
			switch x := in.(type) {
			case ssa.CallInstruction:
				cc := x.Common()
				name := ""
				if cc.IsInvoke() {
					name = cc.Method.Name()
				} else if f := cc.StaticCallee(); f != nil {
					name = f.Name()
					if mc, ok := cc.Value.(*ssa.MakeClosure); ok {
						name = mc.Fn.Name()
					}
				} else if b, ok := cc.Value.(*ssa.Builtin); ok {
					name = b.Name()
				} else {
					name = "dyn"
				}
				name = stripTypeArgs(name)
				switch x.(type) {
				case *ssa.Go:
					key = "go " + name
				case *ssa.Defer:
					key = "defer " + name
				default:
					key = "call " + name
				}
			case *ssa.Return:
				key = "return"
			case *ssa.Store:
				if fa, ok := x.Addr.(*ssa.FieldAddr); ok {
					st := fa.X.Type().Underlying().(*types.Pointer).Elem().Underlying().(*types.Struct)
					key = "store " + st.Field(fa.Field).Name()
				}
			case *ssa.MapUpdate:
				key = "mapupdate"
			case *ssa.Lookup:
				if _, ok := x.X.Type().Underlying().(*types.Map); ok {
					key = "lookup"
				}
			case *ssa.Panic:
				key = "panic"
			case *ssa.Send:
				key = "send"
			case *ssa.Select:
				key = "select"
			case *ssa.UnOp:
				if x.Op == token.ARROW {
					key = "recv"
				}
			}
			if key != "" {
				all = append(all, posInstr{in, key})
			}
		}
	}
	// order by source position where available, else block order
	sort.SliceStable(all, func(i, j int) bool {
		pi, pj := all[i].in.Pos(), all[j].in.Pos()
		if pi == token.NoPos || pj == token.NoPos {
			return false
		}
		return pi < pj
	})
	for _, a := range all {
		cnt[a.key]++
		m[a.in] = fmt.Sprintf("%s#%d", a.key, cnt[a.key])
	}
	e.callOrd[fn] = m
	return m
}

func (e *Engine) anchorInLoop(fn *ssa.Function, anchor string, li *loopInfo) bool {
	anchor = strings.TrimPrefix(anchor, "after ")
	wild := strings.HasSuffix(anchor, "#*") || strings.HasSuffix(anchor, "#?")
	for in, name := range e.anchorsOf(fn) {
		match := name == anchor || (strings.HasSuffix(name, "#1") && strings.TrimSuffix(name, "#1") == anchor)
		if wild {
			// every occurrence of the anchor: a ghost updated at any of them inside the loop changes in the loop
			if i := strings.LastIndex(name, "#"); i >= 0 && name[:i] == anchor[:len(anchor)-2] {
				match = true
			}
		}
		if match {
			if li.body[in.Block()] {
				return true
			}
		}
	}
	return false
}

func (e *Engine) runAts(st *State, in ssa.Instruction, after bool) {
	fr := st.top()
	c := fr.contract
	evalFr := fr
	prefix := ""
	if c == nil && fr.fn.Parent() != nil && e.unit.Fn != nil && len(st.frames) > 1 {
		// an inlined closure of the function under contract: anchors are written "$k:<anchor>"
		// and evaluated in the scope of the enclosing function
		root := fr.fn
		for root.Parent() != nil {
			root = root.Parent()
		}
		if root == e.unit.Fn {
			c = e.unit.C
			evalFr = st.frames[0]
			prefix = strings.TrimPrefix(fr.fn.Name(), root.Name()) + "/"
		}
	}
	if c == nil || len(c.Ats) == 0 {
		return
	}
	name, ok := e.anchorsOf(fr.fn)[in]
	if !ok {
		return
	}
	name = prefix + name
	for _, at := range c.Ats {
		a := at.Anchor
		isAfter := strings.HasPrefix(a, "after ")
		a = strings.TrimPrefix(a, "after ")
		if isAfter != after {
			continue
		}
		if strings.HasSuffix(a, "#*") || strings.HasSuffix(a, "#?") {
			// "call F#*": every occurrence of the anchor (at least one must exist); "call F#?": every occurrence, if any
			if i := strings.LastIndex(name, "#"); i < 0 || name[:i] != a[:len(a)-2] {
				continue
			}
		} else if a != name && !(strings.HasSuffix(name, "#1") && strings.TrimSuffix(name, "#1") == a) {
			continue
		}
		env := e.envFor(st, evalFr, st.old)
		env.extraFr = fr
		if ci, ok := in.(ssa.CallInstruction); ok {
			if ci.Common().IsInvoke() {
				// interface method call: callrecv is the interface value the method is called on
				rv := e.reg(st, ci.Common().Value)
				env.callRecv = &rv
			}
			for _, a := range ci.Common().Args {
				if r, ok := fr.regs[a]; ok {
					env.callArgs = append(env.callArgs, r)
				} else if c, ok := a.(*ssa.Const); ok {
					env.callArgs = append(env.callArgs, e.constVal(c))
				} else {
					env.callArgs = append(env.callArgs, Val{})
				}
			}
		}
		if uo, ok := in.(*ssa.UnOp); ok && uo.Op == token.ARROW {
			// at recv#k: callarg0 is the channel received from
			env.callArgs = append(env.callArgs, e.reg(st, uo.X))
		}
		if sl, ok := in.(*ssa.Select); ok {
			for _, s := range sl.States {
				env.callArgs = append(env.callArgs, e.reg(st, s.Chan))
			}
		}
		if sd, ok := in.(*ssa.Send); ok {
			// at send#k: callarg0 is the channel, callarg1 the value sent
			for _, a := range []ssa.Value{sd.Chan, sd.X} {
				if r, ok := fr.regs[a]; ok {
					env.callArgs = append(env.callArgs, r)
				} else if c, ok := a.(*ssa.Const); ok {
					env.callArgs = append(env.callArgs, e.constVal(c))
				} else {
					env.callArgs = append(env.callArgs, e.reg(st, a))
				}
			}
		}
		if after {
			if v, ok := in.(ssa.Value); ok {
				if r, ok := fr.regs[v]; ok {
					env.callResult = &r
				}
			}
		}
		e.usedAts[at] = true
		switch at.Kind {
		case "assert":
			g := e.evalBool(st, env, at.C.E)
			e.addObl(st, e.oblPrefix(fr.fn)+".assert."+at.C.Label, "assert", at.C.Src, g)
			if g != "false" {
				// proved above, usable as a lemma afterwards. A clause that forbids an operation outright
				// (`assert ...: false` at an `#?` anchor) is not assumed: doing so would end the path and the
				// report would name the anchors that were then never reached instead of the forbidden operation.
				st.assume(g)
			}
		case "assume":
			st.assume(e.evalBool(st, env, at.C.E))
			e.noteAssumption(fmt.Sprintf("assume at %s in %s: %s", at.Anchor, e.oblPrefix(fr.fn), at.C.Src))
		case "ghost":
			e.ghostAssign(st, env, at.Var, at.C.E)
		case "havoc":
			var ms []string
			for _, m := range strings.Split(at.Var, ",") {
				if m = strings.TrimSpace(m); m != "" {
					ms = append(ms, m)
				}
			}
			e.havocModifies(st, env, &Contract{Modifies: ms, Pkg: fr.contract.Pkg, Key: fr.contract.Key})
			e.noteAssumption(fmt.Sprintf("interference at %s in %s: other threads may change %s (constrained only by the assumed monitor invariant)", at.Anchor, e.oblPrefix(fr.fn), at.Var))
		}
	}
}

func (e *Engine) ghostAssign(st *State, env *Env, lhs string, rhs Expr) {
	v := e.evalSpec(st, env, rhs)
	if i := strings.Index(lhs, "["); i > 0 {
		name := lhs[:i]
		idxE, err := ParseExpr(lhs[i+1 : len(lhs)-1])
		if err != nil {
			panic(err)
		}
		g, ok := st.ghost[name]
		if !ok {
			limitf("unknown ghost variable %s", name)
		}
		gt := g.Typ.(*GhostT)
		idx := e.coerce(e.evalSpec(st, env, idxE), gt.Key)
		var vt types.Type = tBool
		if gt.Kind != "set" {
			vt = gt.Elem
		}
		v = e.coerce(v, vt)
		st.ghost[name] = term(fmt.Sprintf("(store %s %s %s)", g.T, idx.T, e.asTerm(st, v)), g.Typ)
		return
	}
	g, ok := st.ghost[lhs]
	if !ok {
		limitf("unknown ghost variable %s", lhs)
	}
	v = e.coerce(v, g.Typ)
	st.ghost[lhs] = term(e.asTerm(st, v), g.Typ)
}
