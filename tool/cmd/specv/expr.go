package main

// Spec expression language: a small Pratt parser for the Gobra-style
// expressions used in //@ contract lines.

import (
	"fmt"
	"strings"
	"unicode"
)

type Expr interface{ String() string }

type (
	EIdent struct{ Name string }
	EInt   struct{ Text string }
	EStr   struct{ Val string }
	EBool  struct{ Val bool }
	ENil   struct{}
	EUn    struct {
		Op string
		X  Expr
	}
	EBin struct {
		Op   string
		L, R Expr
	}
	ECond struct{ C, A, B Expr }
	ECall struct {
		Fun  Expr
		Args []Expr
	}
	ESel struct {
		X    Expr
		Name string
	}
	EIndex struct{ X, I Expr }
	ESlice struct{ X, Lo, Hi Expr }
	EQuant struct {
		Forall bool
		Vars   []QVar
		Body   Expr
		Trig   []Expr
		Alt    [][]Expr // further alternative trigger groups: forall x T {f(x)} {g(x)} :: body
	}
	EOld struct{ X Expr }
	ELet struct {
		Name string
		Val  Expr
		Body Expr
	}
)

type QVar struct {
	Name string
	Type string
}

func (e EIdent) String() string { return e.Name }
func (e EInt) String() string   { return e.Text }
func (e EStr) String() string   { return fmt.Sprintf("%q", e.Val) }
func (e EBool) String() string  { return fmt.Sprint(e.Val) }
func (e ENil) String() string   { return "nil" }
func (e EUn) String() string    { return e.Op + e.X.String() }
func (e EBin) String() string   { return "(" + e.L.String() + " " + e.Op + " " + e.R.String() + ")" }
func (e ECond) String() string {
	return "(" + e.C.String() + " ? " + e.A.String() + " : " + e.B.String() + ")"
}
func (e ECall) String() string {
	var a []string
	for _, x := range e.Args {
		a = append(a, x.String())
	}
	return e.Fun.String() + "(" + strings.Join(a, ", ") + ")"
}
func (e ESel) String() string   { return e.X.String() + "." + e.Name }
func (e EIndex) String() string { return e.X.String() + "[" + e.I.String() + "]" }
func (e ESlice) String() string {
	s := e.X.String() + "["
	if e.Lo != nil {
		s += e.Lo.String()
	}
	s += ":"
	if e.Hi != nil {
		s += e.Hi.String()
	}
	return s + "]"
}
func (e EQuant) String() string {
	k := "exists"
	if e.Forall {
		k = "forall"
	}
	var vs []string
	for _, v := range e.Vars {
		vs = append(vs, v.Name+" "+v.Type)
	}
	return "(" + k + " " + strings.Join(vs, ", ") + " :: " + e.Body.String() + ")"
}
func (e EOld) String() string { return "old(" + e.X.String() + ")" }
func (e ELet) String() string {
	return "(let " + e.Name + " := " + e.Val.String() + " in " + e.Body.String() + ")"
}

type tok struct {
	kind string // ident int str op eof
	text string
}

type lexer struct {
	src  []rune
	pos  int
	toks []tok
}

var ops3 = []string{"==>", "<==", "&&^"}
var ops2 = []string{"==", "!=", "<=", ">=", "&&", "||", "<<", ">>", "&^", "::", ":="}

func lex(s string) ([]tok, error) {
	r := []rune(s)
	var out []tok
	i := 0
	for i < len(r) {
		c := r[i]
		if unicode.IsSpace(c) {
			i++
			continue
		}
		if unicode.IsLetter(c) || c == '_' {
			j := i
			for j < len(r) && (unicode.IsLetter(r[j]) || unicode.IsDigit(r[j]) || r[j] == '_' || r[j] == '#' || r[j] == '$') {
				j++
			}
			out = append(out, tok{"ident", string(r[i:j])})
			i = j
			continue
		}
		if unicode.IsDigit(c) {
			j := i
			for j < len(r) && (unicode.IsDigit(r[j]) || unicode.IsLetter(r[j]) || r[j] == '_') {
				j++
			}
			out = append(out, tok{"int", strings.ReplaceAll(string(r[i:j]), "_", "")})
			i = j
			continue
		}
		if c == '"' {
			j := i + 1
			var sb strings.Builder
			for j < len(r) && r[j] != '"' {
				if r[j] == '\\' && j+1 < len(r) {
					j++
					switch r[j] {
					case 'n':
						sb.WriteRune('\n')
					case 't':
						sb.WriteRune('\t')
					default:
						sb.WriteRune(r[j])
					}
				} else {
					sb.WriteRune(r[j])
				}
				j++
			}
			if j >= len(r) {
				return nil, fmt.Errorf("unterminated string")
			}
			out = append(out, tok{"str", sb.String()})
			i = j + 1
			continue
		}
		// <==> special
		if strings.HasPrefix(string(r[i:]), "<==>") {
			out = append(out, tok{"op", "<==>"})
			i += 4
			continue
		}
		matched := false
		for _, o := range ops3 {
			if strings.HasPrefix(string(r[i:min(len(r), i+3)]), o) && o != "<==" && o != "&&^" {
				out = append(out, tok{"op", o})
				i += 3
				matched = true
				break
			}
		}
		if matched {
			continue
		}
		for _, o := range ops2 {
			if i+2 <= len(r) && string(r[i:i+2]) == o {
				out = append(out, tok{"op", o})
				i += 2
				matched = true
				break
			}
		}
		if matched {
			continue
		}
		out = append(out, tok{"op", string(c)})
		i++
	}
	out = append(out, tok{"eof", ""})
	return out, nil
}

type parser struct {
	toks []tok
	p    int
}

func (p *parser) peek() tok { return p.toks[p.p] }
func (p *parser) next() tok { t := p.toks[p.p]; p.p++; return t }
func (p *parser) accept(op string) bool {
	if p.peek().kind == "op" && p.peek().text == op {
		p.p++
		return true
	}
	return false
}
func (p *parser) expect(op string) error {
	if !p.accept(op) {
		return fmt.Errorf("expected %q, found %q", op, p.peek().text)
	}
	return nil
}

func ParseExpr(s string) (e Expr, err error) {
	toks, err := lex(s)
	if err != nil {
		return nil, err
	}
	p := &parser{toks: toks}
	defer func() {
		if r := recover(); r != nil {
			err = fmt.Errorf("parse error in %q: %v", s, r)
		}
	}()
	e = p.parseExpr(0)
	if p.peek().kind != "eof" {
		return nil, fmt.Errorf("parse error in %q: unexpected %q", s, p.peek().text)
	}
	return e, nil
}

// precedence (low to high):
// 1 <==>  2 ==> (right)  3 ?:  4 ||  5 &&  6 comparison  7 + - | ^  8 * / % << >> & &^
var binPrec = map[string]int{
	"<==>": 1, "==>": 2, "||": 4, "&&": 5,
	"==": 6, "!=": 6, "<": 6, "<=": 6, ">": 6, ">=": 6,
	"+": 7, "-": 7, "|": 7, "^": 7,
	"*": 8, "/": 8, "%": 8, "<<": 8, ">>": 8, "&": 8, "&^": 8,
}

func (p *parser) parseExpr(minPrec int) Expr {
	t := p.peek()
	if t.kind == "ident" && (t.text == "forall" || t.text == "exists") {
		return p.parseQuant()
	}
	if t.kind == "ident" && t.text == "let" {
		p.next()
		name := p.next().text
		if err := p.expect(":="); err != nil {
			panic(err)
		}
		v := p.parseExpr(3)
		if p.peek().kind != "ident" || p.peek().text != "in" {
			panic("expected 'in' in let")
		}
		p.next()
		body := p.parseExpr(0)
		return ELet{name, v, body}
	}
	lhs := p.parseUnary()
	for {
		t := p.peek()
		if t.kind != "op" {
			break
		}
		if t.text == "?" && minPrec <= 3 {
			p.next()
			a := p.parseExpr(3)
			if err := p.expect(":"); err != nil {
				panic(err)
			}
			b := p.parseExpr(3)
			lhs = ECond{lhs, a, b}
			continue
		}
		prec, ok := binPrec[t.text]
		if !ok || prec < minPrec {
			break
		}
		p.next()
		var rhs Expr
		if t.text == "==>" {
			rhs = p.parseExpr(prec) // right assoc
		} else {
			rhs = p.parseExpr(prec + 1)
		}
		lhs = EBin{t.text, lhs, rhs}
	}
	return lhs
}

func (p *parser) parseQuant() Expr {
	k := p.next().text
	var vars []QVar
	var trig []Expr
	var alt [][]Expr
	for {
		var names []string
		names = append(names, p.next().text)
		for p.accept(",") {
			names = append(names, p.next().text)
		}
		// type: sequence of tokens until ',' or '::'
		ty := p.parseTypeText()
		for _, n := range names {
			vars = append(vars, QVar{n, ty})
		}
		for p.accept("{") {
			// explicit instantiation triggers: forall x T {f(x), g(x)} :: body; several brace groups
			// are alternatives (any one of them fires the instantiation)
			var grp []Expr
			for {
				grp = append(grp, p.parseExpr(0))
				if p.accept("}") {
					break
				}
				if !p.accept(",") {
					panic("expected , or } in trigger list")
				}
			}
			if trig == nil {
				trig = grp
			} else {
				alt = append(alt, grp)
			}
		}
		if p.accept("::") {
			break
		}
		if !p.accept(",") {
			panic("expected :: or , in quantifier")
		}
	}
	body := p.parseExpr(0)
	return EQuant{k == "forall", vars, body, trig, alt}
}

// parseTypeText reads a type: ident(.ident)? | []T | *T | map[K]V | set[T] | seq[T]
func (p *parser) parseTypeText() string {
	t := p.peek()
	if t.kind == "op" && t.text == "[" {
		p.next()
		if err := p.expect("]"); err != nil {
			panic(err)
		}
		return "[]" + p.parseTypeText()
	}
	if t.kind == "op" && t.text == "*" {
		p.next()
		return "*" + p.parseTypeText()
	}
	if t.kind != "ident" {
		panic(fmt.Sprintf("bad type token %q", t.text))
	}
	p.next()
	name := t.text
	if name == "map" {
		p.expect("[")
		k := p.parseTypeText()
		p.expect("]")
		v := p.parseTypeText()
		return "map[" + k + "]" + v
	}
	if name == "set" || name == "seq" {
		p.expect("[")
		k := p.parseTypeText()
		p.expect("]")
		return name + "[" + k + "]"
	}
	if p.peek().kind == "op" && p.peek().text == "." {
		p.next()
		name += "." + p.next().text
	}
	return name
}

func (p *parser) parseUnary() Expr {
	t := p.peek()
	if t.kind == "op" && (t.text == "!" || t.text == "-" || t.text == "^") {
		p.next()
		x := p.parseUnary()
		return EUn{t.text, x}
	}
	return p.parsePostfix(p.parsePrimary())
}

func (p *parser) parsePrimary() Expr {
	t := p.next()
	switch t.kind {
	case "int":
		return EInt{t.text}
	case "str":
		return EStr{t.text}
	case "ident":
		switch t.text {
		case "true":
			return EBool{true}
		case "false":
			return EBool{false}
		case "nil":
			return ENil{}
		case "old":
			if nt := p.peek(); nt.text != "(" {
				// a program variable that happens to be called old (diffTunnels(old, new []Tunnel))
				return EIdent{t.text}
			}
			if err := p.expect("("); err != nil {
				panic(err)
			}
			x := p.parseExpr(0)
			if err := p.expect(")"); err != nil {
				panic(err)
			}
			return EOld{x}
		}
		return EIdent{t.text}
	case "op":
		if t.text == "(" {
			x := p.parseExpr(0)
			if err := p.expect(")"); err != nil {
				panic(err)
			}
			return x
		}
	}
	panic(fmt.Sprintf("unexpected token %q", t.text))
}

func (p *parser) parsePostfix(x Expr) Expr {
	for {
		t := p.peek()
		if t.kind != "op" {
			return x
		}
		switch t.text {
		case ".":
			p.next()
			n := p.next()
			x = ESel{x, n.text}
		case "(":
			p.next()
			var args []Expr
			if !p.accept(")") {
				for {
					args = append(args, p.parseExpr(0))
					if p.accept(")") {
						break
					}
					if err := p.expect(","); err != nil {
						panic(err)
					}
				}
			}
			x = ECall{x, args}
		case "[":
			p.next()
			var lo, hi Expr
			if p.accept(":") {
				if !(p.peek().kind == "op" && p.peek().text == "]") {
					hi = p.parseExpr(0)
				}
				p.expect("]")
				x = ESlice{x, nil, hi}
				continue
			}
			lo = p.parseExpr(0)
			if p.accept(":") {
				if !(p.peek().kind == "op" && p.peek().text == "]") {
					hi = p.parseExpr(0)
				}
				p.expect("]")
				x = ESlice{x, lo, hi}
				continue
			}
			if err := p.expect("]"); err != nil {
				panic(err)
			}
			x = EIndex{x, lo}
		default:
			return x
		}
	}
}
