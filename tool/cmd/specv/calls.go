package main

import (
	"fmt"
	"go/types"
	"os"
	"regexp"
	"sort"
	"strings"

	"golang.org/x/tools/go/ssa"
)

const maxInlineDepth = 12

func (e *Engine) execCall(st *State, b *ssa.BasicBlock, idx int, x *ssa.Call) bool {
	fr := st.top()
	cc := x.Common()
	cont := func(st2 *State, results []Val) {
		if st2.dead {
			return
		}
		f2 := st2.top()
		f2.regs[x] = packResults(results, x.Type())
		e.runAts(st2, x, true)
		e.execInstrs(st2, b, idx+1)
	}
	_ = fr
	e.dispatchCall(st, cc, x, cont)
	return false
}

func packResults(rs []Val, t types.Type) Val {
	if tup, ok := t.(*types.Tuple); ok {
		if tup.Len() == 0 {
			return Val{K: kTuple, Typ: t}
		}
		return Val{K: kTuple, Tup: rs, Typ: t}
	}
	if len(rs) == 1 {
		return rs[0]
	}
	return Val{K: kTuple, Tup: rs, Typ: t}
}

func resultTypes(sig *types.Signature) []types.Type {
	var out []types.Type
	for i := 0; i < sig.Results().Len(); i++ {
		out = append(out, sig.Results().At(i).Type())
	}
	return out
}

// dispatchCall evaluates a call and continues with k.
func (e *Engine) dispatchCall(st *State, cc *ssa.CallCommon, site ssa.Instruction, k Cont) {
	fr := st.top()
	var args []Val
	if cc.IsInvoke() {
		recv := e.reg(st, cc.Value)
		for _, a := range cc.Args {
			args = append(args, e.reg(st, a))
		}
		e.invoke(st, cc, site, recv, args, k)
		return
	}
	for _, a := range cc.Args {
		args = append(args, e.reg(st, a))
	}
	if bi, ok := cc.Value.(*ssa.Builtin); ok {
		e.builtin(st, bi, cc, site, args, k)
		return
	}
	fv := e.reg(st, cc.Value)
	switch fv.K {
	case kFunc:
		e.callFunc(st, fv.Fn, nil, args, site, k)
		return
	case kClosure:
		e.callFunc(st, fv.Fn, fv.Binds, args, site, k)
		return
	case kTerm:
		if cv, ok := e.closureRev[fv.T]; ok {
			e.callFunc(st, cv.Fn, cv.Binds, args, site, k)
			return
		}
	}
	// dynamic call through an unknown function value
	sig := cc.Signature()
	if e.unit.C != nil && e.unit.C.Opts["puredyn"] != "" && fv.K == kTerm && sig.Results().Len() == 1 {
		// opt puredyn: function values held in fields (e.g. a hash function) are deterministic
		// functions of their argument *contents* (byte slices are passed as their string content)
		e.noteAssumption("function values called dynamically in " + e.oblPrefix(fr.fn) + " are pure, deterministic functions of their arguments' contents")
		name := "dyn_pure"
		sorts := []string{"Int"}
		ts := []string{fv.T}
		for i, a := range args {
			pt := sig.Params().At(i).Type()
			if sl, ok := pt.Underlying().(*types.Slice); ok {
				if b, ok := sl.Elem().Underlying().(*types.Basic); ok && b.Kind() == types.Uint8 && a.K == kTerm {
					e.S.DeclareFun("bytes_to_str", []string{fmt.Sprintf("(Array %s %s)", e.S.IntSort(), e.sortOf(types.Typ[types.Byte])), e.S.IntSort(), e.S.IntSort()}, "String")
					hn, hs := e.arrMapName(types.Typ[types.Byte])
					h := e.heapGet(st, hn, hs)
					sorts = append(sorts, "String")
					ts = append(ts, fmt.Sprintf("(bytes_to_str (select %s (sl_ref %s)) (sl_off %s) (sl_len %s))", h, a.T, a.T, a.T))
					name += "_bytes"
					continue
				}
			}
			sorts = append(sorts, e.sortOf(pt))
			ts = append(ts, e.asTerm(st, e.coerce(a, pt)))
			name += "_" + mangle(e.sortOf(pt))
		}
		rt := sig.Results().At(0).Type()
		name += "_to_" + mangle(e.sortOf(rt))
		e.S.DeclareFun(name, sorts, e.sortOf(rt))
		e.pureRangeAxiom(name, sorts, rt)
		k(st, []Val{term(fmt.Sprintf("(%s %s)", name, strings.Join(ts, " ")), rt)})
		return
	}
	if os.Getenv("SPECV_DEBUG_DYN") != "" {
		fmt.Fprintf(os.Stderr, "dynamic call in %s: kind=%d term=%q value=%T %v\n", e.oblPrefix(fr.fn), fv.K, fv.T, cc.Value, cc.Value)
	}
	if strings.HasPrefix(fv.T, "(select Box_func") {
		// a function value of this very function (a closure or callback) whose identity was forgotten by a heap
		// havoc: skipping the call would silently drop its effects, so this is a tool limit, never a pass
		limitf("call of a local function value whose identity was lost (%s in %s)", fv.T, e.oblPrefix(fr.fn))
	}
	e.unmodelled["dynamic call in "+e.oblPrefix(fr.fn)] = true
	e.bumpAlloc(st)
	e.havocArgs(st, args)
	var rs []Val
	for i, t := range resultTypes(sig) {
		rs = append(rs, e.freshOf(st, fmt.Sprintf("dyn_r%d", i), t))
	}
	k(st, rs)
}

func (e *Engine) callFunc(st *State, fn *ssa.Function, binds []Val, args []Val, site ssa.Instruction, k Cont) {
	fr := st.top()
	// engine-level models first (atomics, sync, etc.)
	if e.modelCall(st, fn, args, site, k) {
		return
	}
	key := e.P.funcKey(fn)
	c := e.P.contracts[key]
	if c == nil && fn.Origin() != nil {
		c = e.P.contracts[e.P.funcKey(fn.Origin())]
	}
	if c == nil {
		c = e.P.libContracts[stripTypeArgs(fn.String())]
		if c == nil && fn.Origin() != nil {
			c = e.P.libContracts[stripTypeArgs(fn.Origin().String())]
		}
		if c != nil {
			e.usedLib[c.Key] = true
		}
	}
	isClosure := fn.Parent() != nil
	inline := false
	if c != nil && c.Inline {
		inline = true
	}
	if c == nil && (isClosure || strings.Contains(fn.Name(), "$bound") || strings.Contains(fn.Name(), "$thunk")) && fn.Blocks != nil {
		inline = true
	}
	if e.unit.C != nil && e.unit.C.Opts["inline"] != "" && fn.Blocks != nil {
		for _, n := range strings.Split(e.unit.C.Opts["inline"], ",") {
			if strings.TrimSpace(n) == fn.Name() || strings.TrimSpace(n) == fn.RelString(fn.Pkg.Pkg) {
				inline = true
			}
		}
	}
	if c != nil && c.Pure && !inline && len(c.Ensures) == 0 && len(c.Requires) == 0 {
		k(st, []Val{e.pureApp(st, fn, args)})
		return
	}
	if inline && fr.depth < maxInlineDepth && fn.Blocks != nil {
		e.inlineCall(st, fn, c, binds, args, k)
		return
	}
	if c != nil {
		if c.Kind != "lib" {
			e.usedContracts[key] = true
		}
		e.pendingBinds = binds
		e.applyContract(st, c, fn, fn.Signature, args, site, k)
		return
	}
	if e.P.pures[fn.String()] || e.P.pures[key] {
		k(st, []Val{e.pureApp(st, fn, args)})
		return
	}
	// unmodelled: havoc results and the callee's mod set (for functions of this repository)
	e.unmodelled[fn.String()] = true
	e.bumpAlloc(st)
	if e.P.inRepo(fn) && fn.Blocks != nil {
		for h := range e.P.modset(e, fn) {
			if os.Getenv("SPECV_DEBUG_MODSET") != "" {
				fmt.Fprintf(os.Stderr, "modset (unmodelled) %s: %s\n", fn.Name(), h)
			}
			e.heapHavoc(st, h)
		}
		// plus everything reachable through the arguments in one step (dynamic calls inside
		// the callee are invisible to the mod-set analysis); the receiver itself is only
		// written by the callee's own stores, which the mod set covers
		if fn.Signature.Recv() != nil && len(args) > 0 {
			e.havocArgs(st, args[1:])
		} else {
			e.havocArgs(st, args)
		}
	} else if !readOnlyCallee(fn.Name()) {
		e.havocArgs(st, args)
	}
	var rs []Val
	for i, t := range resultTypes(fn.Signature) {
		rs = append(rs, e.freshOf(st, fmt.Sprintf("%s_r%d", fn.Name(), i), t))
	}
	k(st, rs)
}

// pureApp applies an uninterpreted function standing for a pure Go function/method.
func (e *Engine) pureApp(st *State, fn *ssa.Function, args []Val) Val {
	name := "pure_" + mangle(stripTypeArgs(fn.RelString(nil)))
	var sorts, ts []string
	generic := false
	for i, a := range args {
		pt := fn.Params[i].Type()
		if hasTypeParam(pt) && a.Typ != nil {
			pt = a.Typ // generic origin used from a spec: take the argument's type
			generic = true
		}
		sorts = append(sorts, e.sortOf(pt))
		ts = append(ts, e.asTerm(st, e.coerce(a, pt)))
	}
	if generic || fn.Origin() != nil || fn.TypeParams() != nil {
		name += "_" + mangle(strings.Join(sorts, "_"))
	}
	rt := fn.Signature.Results().At(0).Type()
	e.S.DeclareFun(name, sorts, e.sortOf(rt))
	t := fmt.Sprintf("(%s %s)", name, strings.Join(ts, " "))
	if len(ts) == 0 {
		t = name
	}
	v := term(t, rt)
	e.pureRangeAxiom(name, sorts, rt)
	// pure function with a contract (and not the unit being proved itself): its postconditions as axioms
	if e.unit == nil || e.unit.Fn != fn {
		c := e.P.contracts[e.P.funcKey(fn)]
		if c == nil {
			c = e.P.libContracts[stripTypeArgs(fn.String())]
		}
		if c != nil && c.Pure && len(c.Ensures) > 0 {
			var ptypes []types.Type
			var pnames []string
			for _, p := range fn.Params {
				ptypes = append(ptypes, p.Type())
				pnames = append(pnames, p.Name())
			}
			if c.Kind == "lib" {
				pnames = e.paramNames(c, fn, fn.Signature)
			}
			e.pureContractAxioms(fn, c, name, sorts, ptypes, pnames, rt)
		}
	}
	return v
}

// pureRangeAxiom states the type's range for every application of an uninterpreted function.
func (e *Engine) pureRangeAxiom(name string, sorts []string, rt types.Type) {
	key := "ax_range_" + name
	if e.S.has(key) {
		return
	}
	e.S.decls[key] = &Decl{}
	var vars, args []string
	for i, s := range sorts {
		vars = append(vars, fmt.Sprintf("(a!%d %s)", i, s))
		args = append(args, fmt.Sprintf("a!%d", i))
	}
	app := name
	if len(args) > 0 {
		app = fmt.Sprintf("(%s %s)", name, strings.Join(args, " "))
	}
	c := e.rangeConstraintBV(app, rt)
	if c == "" {
		return
	}
	if len(args) == 0 {
		e.S.AddAxiom([]string{name}, c)
		return
	}
	e.S.AddAxiom([]string{name}, fmt.Sprintf("(forall (%s) (! %s :pattern (%s)))", strings.Join(vars, " "), c, app))
}

func (e *Engine) pureMethodApp(st *State, recvT types.Type, method string, recv Val, args []Val, sig *types.Signature) Val {
	name := "pure_" + shortTypeName(recvT) + "_" + method
	sorts := []string{e.sortOf(recvT)}
	ts := []string{e.asTerm(st, recv)}
	for i, a := range args {
		pt := sig.Params().At(i).Type()
		sorts = append(sorts, e.sortOf(pt))
		ts = append(ts, e.asTerm(st, e.coerce(a, pt)))
	}
	rt := sig.Results().At(0).Type()
	e.S.DeclareFun(name, sorts, e.sortOf(rt))
	t := fmt.Sprintf("(%s %s)", name, strings.Join(ts, " "))
	e.pureRangeAxiom(name, sorts, rt)
	return term(t, rt)
}

func (e *Engine) invoke(st *State, cc *ssa.CallCommon, site ssa.Instruction, recv Val, args []Val, k Cont) {
	fr := st.top()
	e.nilCheck(st, site, recv, "invoke "+e.instrLabel(fr, site))
	if st.dead {
		return
	}
	it := cc.Value.Type()
	mname := cc.Method.Name()
	sig := cc.Method.Type().(*types.Signature)
	ikey := e.P.ifaceKey(it, mname)
	if e.P.pures[ikey] {
		k(st, []Val{e.pureMethodApp(st, it, mname, recv, args, sig)})
		return
	}
	if c := e.P.ifaceContracts[ikey]; c != nil {
		e.usedContracts[ikey] = true
		all := append([]Val{recv}, args...)
		e.applyContract(st, c, nil, sig, all, site, k)
		return
	}
	e.unmodelled["invoke "+ikey] = true
	e.bumpAlloc(st)
	if !readOnlyCallee(mname) {
		e.havocArgs(st, args)
	}
	var rs []Val
	for i, t := range resultTypes(sig) {
		rs = append(rs, e.freshOf(st, fmt.Sprintf("%s_r%d", mname, i), t))
	}
	k(st, rs)
}

// ---- inlining

func (e *Engine) inlineCall(st *State, fn *ssa.Function, c *Contract, binds []Val, args []Val, k Cont) {
	caller := st.top()
	fr := &FrameSt{fn: fn, regs: map[ssa.Value]Val{}, cells: map[*ssa.Alloc]Val{}, contract: c, params: map[string]Val{}, closure: binds, depth: caller.depth + 1}
	for i, p := range fn.Params {
		a := args[i]
		if a.K == kConst {
			a = e.coerce(a, p.Type())
		}
		fr.regs[p] = a
		fr.params[p.Name()] = a
	}
	nframes := len(st.frames)
	fr.k = func(st2 *State, results []Val) {
		// pop the frame
		st2.frames = st2.frames[:nframes]
		k(st2, results)
	}
	st.frames = append(st.frames, fr)
	if c != nil {
		// ghost variables of an inlined function's own contract
		e.declareGhosts(st, c)
	}
	e.execBlock(st, fn.Blocks[0], nil)
}

// ---- defers

func (e *Engine) runDefers(st *State, b *ssa.BasicBlock, idx int) bool {
	fr := st.top()
	if len(fr.defers) == 0 {
		return true
	}
	d := fr.defers[len(fr.defers)-1]
	fr.defers = fr.defers[:len(fr.defers)-1]
	k := func(st2 *State, _ []Val) {
		if st2.dead {
			return
		}
		// continue running remaining defers, then the rest of the block
		if e.runDefers(st2, b, idx) {
			e.execInstrs(st2, b, idx+1)
		}
	}
	cc := d.call
	if cc.IsInvoke() {
		e.invoke(st, cc, b.Instrs[idx], d.fnv, d.args, k)
		return false
	}
	if bi, ok := cc.Value.(*ssa.Builtin); ok {
		e.builtin(st, bi, cc, b.Instrs[idx], d.args, k)
		return false
	}
	switch d.fnv.K {
	case kFunc:
		e.callFunc(st, d.fnv.Fn, nil, d.args, b.Instrs[idx], k)
	case kClosure:
		e.callFunc(st, d.fnv.Fn, d.fnv.Binds, d.args, b.Instrs[idx], k)
	default:
		if d.fnv.K == kTerm {
			if cv, ok := e.closureRev[d.fnv.T]; ok {
				e.callFunc(st, cv.Fn, cv.Binds, d.args, b.Instrs[idx], k)
				return false
			}
			if strings.HasPrefix(d.fnv.T, "(select Box_func") {
				limitf("deferred call of a local function value whose identity was lost (%s in %s)", d.fnv.T, e.oblPrefix(fr.fn))
			}
		}
		// a function value that comes from outside (context.CancelFunc and the like)
		e.unmodelled["deferred dynamic call"] = true
		k(st, nil)
	}
	return false
}

// ---- builtins

func (e *Engine) builtin(st *State, bi *ssa.Builtin, cc *ssa.CallCommon, site ssa.Instruction, args []Val, k Cont) {
	fr := st.top()
	zero := e.intLit(0, tInt)
	switch bi.Name() {
	case "len":
		a := args[0]
		switch t := cc.Args[0].Type().Underlying().(type) {
		case *types.Slice:
			k(st, []Val{term(fmt.Sprintf("(sl_len %s)", a.T), tInt)})
		case *types.Basic:
			k(st, []Val{term(e.fromMathInt(fmt.Sprintf("(str.len %s)", a.T)), tInt)})
		case *types.Array:
			k(st, []Val{term(e.intLit(t.Len(), tInt), tInt)})
		case *types.Pointer:
			k(st, []Val{term(e.intLit(t.Elem().Underlying().(*types.Array).Len(), tInt), tInt)})
		case *types.Map:
			e.S.DeclareFun("map_card_"+mangle(e.sortOf(t.Key())), []string{fmt.Sprintf("(Array %s Bool)", e.sortOf(t.Key()))}, e.S.IntSort())
			hn, hs, _, _ := e.mapHeapNames(t)
			h := e.heapGet(st, hn, hs)
			r := fmt.Sprintf("(map_card_%s (select %s %s))", mangle(e.sortOf(t.Key())), h, a.T)
			st.assume(e.compare(">=", r, zero, tInt))
			k(st, []Val{term(r, tInt)})
		case *types.Chan:
			k(st, []Val{e.freshOf(st, "chanlen", tInt)})
		default:
			limitf("len of %s", cc.Args[0].Type())
		}
	case "cap":
		a := args[0]
		switch t := cc.Args[0].Type().Underlying().(type) {
		case *types.Slice:
			k(st, []Val{term(fmt.Sprintf("(sl_cap %s)", a.T), tInt)})
		case *types.Array:
			k(st, []Val{term(e.intLit(t.Len(), tInt), tInt)})
		default:
			k(st, []Val{e.freshOf(st, "cap", tInt)})
		}
	case "append":
		k(st, []Val{e.appendOp(st, cc, args)})
	case "copy":
		// copy(dst, src): havoc dst contents in range, result min(len)
		dt := cc.Args[0].Type().Underlying().(*types.Slice)
		n := e.freshOf(st, "copied", tInt)
		var srcLen string
		if _, ok := cc.Args[1].Type().Underlying().(*types.Basic); ok {
			srcLen = e.fromMathInt(fmt.Sprintf("(str.len %s)", args[1].T))
		} else {
			srcLen = fmt.Sprintf("(sl_len %s)", args[1].T)
		}
		dl := fmt.Sprintf("(sl_len %s)", args[0].T)
		st.assume(fmt.Sprintf("(= %s (ite %s %s %s))", n.T, e.compare("<", dl, srcLen, tInt), dl, srcLen))
		name, sort := e.arrMapName(dt.Elem())
		h := e.heapGet(st, name, sort)
		na := e.S.Fresh("copied_arr", fmt.Sprintf("(Array %s %s)", e.S.IntSort(), e.sortOf(dt.Elem())))
		// elementwise semantics as a quantified fact
		iv := "i!c"
		is := e.S.IntSort()
		doff := fmt.Sprintf("(sl_off %s)", args[0].T)
		oldArr := fmt.Sprintf("(select %s (sl_ref %s))", h, args[0].T)
		var srcAt string
		if _, ok := cc.Args[1].Type().Underlying().(*types.Basic); ok {
			e.S.DefineFun("str_byte", "(declare-fun str_byte (String Int) Int)")
			srcAt = e.fromMathIntT(fmt.Sprintf("(str_byte %s %s)", args[1].T, e.toMathInt(e.arith("-", iv, doff, tInt))), dt.Elem())
		} else {
			srcAt = fmt.Sprintf("(select (select %s (sl_ref %s)) %s)", h, args[1].T, e.arith("+", fmt.Sprintf("(sl_off %s)", args[1].T), e.arith("-", iv, doff, tInt), tInt))
		}
		inRange := fmt.Sprintf("(and %s %s)", e.compare("<=", doff, iv, tInt), e.compare("<", iv, e.arith("+", doff, n.T, tInt), tInt))
		st.assume(fmt.Sprintf("(forall ((%s %s)) (! (= (select %s %s) (ite %s %s (select %s %s))) :pattern ((select %s %s))))", iv, is, na, iv, inRange, srcAt, oldArr, iv, na, iv))
		e.heapSet(st, name, sort, fmt.Sprintf("(store %s (sl_ref %s) %s)", h, args[0].T, na))
		k(st, []Val{n})
	case "delete":
		m := cc.Args[0].Type().Underlying().(*types.Map)
		key := e.asTerm(st, e.coerce(args[1], m.Key()))
		hn, hs, _, _ := e.mapHeapNames(m)
		h := e.heapGet(st, hn, hs)
		e.heapSet(st, hn, hs, fmt.Sprintf("(store %s %s (store (select %s %s) %s false))", h, args[0].T, h, args[0].T, key))
		k(st, nil)
	case "panic":
		if e.safetyOn(fr, "panic") {
			e.addObl(st, fmt.Sprintf("%s.no-panic.%s", e.oblPrefix(fr.fn), e.instrLabel(fr, site)), "safety", "explicit panic unreachable", "false")
		}
		e.paths++
	case "print", "println":
		k(st, nil)
	case "close":
		k(st, nil)
	case "recover":
		k(st, []Val{term("(mk_iface 0 0)", cc.Signature().Results().At(0).Type())})
	case "min", "max":
		t := cc.Signature().Results().At(0).Type()
		r := e.coerce(args[0], t)
		for _, a := range args[1:] {
			a = e.coerce(a, t)
			op := "<"
			if bi.Name() == "max" {
				op = ">"
			}
			r = term(fmt.Sprintf("(ite %s %s %s)", e.compare(op, a.T, r.T, t), a.T, r.T), t)
		}
		k(st, []Val{r})
	case "ssa:wrapnilchk":
		k(st, []Val{args[0]})
	case "ssa:deferstack":
		k(st, []Val{term("0", tInt)})
	case "clear":
		limitf("clear builtin")
	default:
		limitf("builtin %s", bi.Name())
	}
}

func (e *Engine) appendOp(st *State, cc *ssa.CallCommon, args []Val) Val {
	s := args[0]
	sl := cc.Args[0].Type().Underlying().(*types.Slice)
	el := sl.Elem()
	name, sort := e.arrMapName(el)
	one := e.intLit(1, tInt)
	// the appended part is either a slice literal made by the SSA builder (varargs) or another slice/string
	add := args[1]
	if add.K != kTerm {
		limitf("append of non-term")
	}
	h := e.heapGet(st, name, sort)
	// detect single-element varargs: length-1 slice over a fresh array
	addLen := fmt.Sprintf("(sl_len %s)", add.T)
	isStr := false
	if _, ok := cc.Args[1].Type().Underlying().(*types.Basic); ok {
		isStr = true
		addLen = e.fromMathInt(fmt.Sprintf("(str.len %s)", add.T))
	}
	oldLen := fmt.Sprintf("(sl_len %s)", s.T)
	newLen := e.arith("+", oldLen, addLen, tInt)
	fits := e.compare("<=", newLen, fmt.Sprintf("(sl_cap %s)", s.T), tInt)
	fits = fmt.Sprintf("(and %s (not (= (sl_ref %s) 0)))", fits, s.T)
	newRef := e.allocRef(st, "append")
	ref := fmt.Sprintf("(ite %s (sl_ref %s) %s)", fits, s.T, newRef)
	newCap := e.S.Fresh("cap", e.S.IntSort())
	st.assume(fmt.Sprintf("(and %s (=> %s (= %s (sl_cap %s))))", e.compare(">=", newCap, newLen, tInt), fits, newCap, s.T))
	if e.S.BV {
		st.assume(fmt.Sprintf("(bvslt %s (_ bv4611686018427387904 64))", newCap))
		// lengths do not overflow
		st.assume(e.compare(">=", newLen, oldLen, tInt))
	}
	base := fmt.Sprintf("(select %s (sl_ref %s))", h, s.T)
	off := fmt.Sprintf("(sl_off %s)", s.T)
	var newArr string
	if n, ok := singleElem(cc.Args[1]); ok && !isStr {
		_ = n
		v := fmt.Sprintf("(select (select %s (sl_ref %s)) (sl_off %s))", h, add.T, add.T)
		newArr = fmt.Sprintf("(store %s %s %s)", base, e.slIdx(s.T, oldLen), v)
		_ = one
	} else {
		na := e.S.Fresh("app_arr", fmt.Sprintf("(Array %s %s)", e.S.IntSort(), e.sortOf(el)))
		iv := "i!a"
		start := e.arith("+", off, oldLen, tInt)
		inRange := fmt.Sprintf("(and %s %s)", e.compare("<=", start, iv, tInt), e.compare("<", iv, e.arith("+", start, addLen, tInt), tInt))
		var srcAt string
		if isStr {
			e.S.DefineFun("str_byte", "(declare-fun str_byte (String Int) Int)")
			srcAt = e.fromMathIntT(fmt.Sprintf("(str_byte %s %s)", add.T, e.toMathInt(e.arith("-", iv, start, tInt))), el)
		} else {
			srcAt = fmt.Sprintf("(select (select %s (sl_ref %s)) %s)", h, add.T, e.arith("+", fmt.Sprintf("(sl_off %s)", add.T), e.arith("-", iv, start, tInt), tInt))
		}
		st.assume(fmt.Sprintf("(forall ((%s %s)) (! (= (select %s %s) (ite %s %s (select %s %s))) :pattern ((select %s %s))))", iv, e.S.IntSort(), na, iv, inRange, srcAt, base, iv, na, iv))
		newArr = na
	}
	e.heapSet(st, name, sort, fmt.Sprintf("(store %s %s %s)", h, ref, newArr))
	res := e.S.Fresh("appended", "Slice")
	st.assume(fmt.Sprintf("(= %s (mk_slice %s %s %s %s))", res, ref, off, newLen, newCap))
	if !e.S.BV {
		// derived facts, stated over the index function so that instantiation finds them: the old elements are
		// the first elements of the result; a single appended element is the one after them
		h2 := e.heapGet(st, name, sort)
		iv := fmt.Sprintf("i!k%d", e.S.fresh)
		e.S.fresh++
		newAt := fmt.Sprintf("(select (select %s (sl_ref %s)) %s)", h2, res, e.slIdx(res, iv))
		oldAt := fmt.Sprintf("(select (select %s (sl_ref %s)) %s)", h, s.T, e.slIdx(s.T, iv))
		st.assume(fmt.Sprintf("(forall ((%s Int)) (! (=> (and (<= 0 %s) (< %s %s)) (= %s %s)) :pattern (%s)))", iv, iv, iv, oldLen, newAt, oldAt, newAt))
		if _, ok := singleElem(cc.Args[1]); ok && !isStr {
			st.assume(fmt.Sprintf("(= (select (select %s (sl_ref %s)) %s) (select (select %s (sl_ref %s)) (sl_off %s)))", h2, res, e.slIdx(res, oldLen), h, add.T, add.T))
		}
	}
	return term(res, cc.Args[0].Type())
}

// singleElem reports whether v is the SSA varargs pattern `slice (new [1]T)[:]`.
func singleElem(v ssa.Value) (int, bool) {
	sl, ok := v.(*ssa.Slice)
	if !ok || sl.Low != nil || sl.High != nil {
		return 0, false
	}
	al, ok := sl.X.(*ssa.Alloc)
	if !ok {
		return 0, false
	}
	at, ok := al.Type().(*types.Pointer).Elem().Underlying().(*types.Array)
	if !ok || at.Len() != 1 {
		return 0, false
	}
	return 1, true
}

// ---- contracts at call sites

func (e *Engine) applyContract(st *State, c *Contract, fn *ssa.Function, sig *types.Signature, args []Val, site ssa.Instruction, k Cont) {
	fr := st.top()
	env := &Env{e: e, st: st, fr: fr, old: st.snapshot(), params: map[string]Val{}, bound: map[string]Val{}, pkg: c.Pkg, contract: c, callee: true, typeFn: fn}
	// a closure under contract: its captured variables are visible by name (as pointers to their storage)
	if fn != nil && len(e.pendingBinds) == len(fn.FreeVars) && len(fn.FreeVars) > 0 {
		env.freeBinds = map[string]Val{}
		for i, fv := range fn.FreeVars {
			env.freeBinds[fv.Name()] = e.pendingBinds[i]
		}
	}
	e.pendingBinds = nil
	// bind parameters
	names := e.paramNames(c, fn, sig)
	if len(names) != len(args) {
		limitf("contract %s: %d parameter names for %d arguments (%v)", c.Key, len(names), len(args), names)
	}
	ptypes := e.paramTypes(fn, sig, c)
	for i, n := range names {
		a := args[i]
		if a.K == kConst && i < len(ptypes) {
			a = e.coerce(a, ptypes[i])
		}
		env.params[n] = a
	}
	label := e.instrLabel(fr, site)
	forgetPre := e.forgetSet()
	for _, r := range c.Requires {
		if forgetPre[r.Label] {
			// proved by the sibling contract of this function that does not forget the fact (see cmdCheck)
			continue
		}
		if strings.HasPrefix(r.Label, "env-") {
			// a stated assumption of the callee about its environment (configuration validity, initialised
			// collaborators): recorded as an assumption of the callee's proof, not an obligation of callers
			continue
		}
		if strings.HasPrefix(r.Label, "pkginit-") {
			// established once by the callee's package initializer, not by callers (see Run)
			continue
		}
		goal := e.evalBool(st, env, r.E)
		e.addObl(st, fmt.Sprintf("%s.call-pre.%s.%s", e.oblPrefix(fr.fn), label, r.Label), "call-pre", c.Key+" requires "+r.Src, goal)
		st.assume(goal)
	}
	// termination: recursive call must decrease the caller's measure
	if c.Decreases != nil && fr.contract != nil && fr.contract.Decreases != nil && e.sameRecursion(fr, c) {
		calleeM := e.coerce(e.evalSpec(st, env, c.Decreases.E), tInt)
		callerEnv := e.envFor(st, fr, st.old)
		callerEnv.inEnsures = true // parameters refer to entry values
		callerM := e.coerce(e.evalSpec(st, callerEnv, fr.contract.Decreases.E), tInt)
		goal := fmt.Sprintf("(and %s %s)", e.compare("<", calleeM.T, callerM.T, calleeM.Typ), e.compare(">=", callerM.T, e.intLit(0, callerM.Typ), callerM.Typ))
		e.addObl(st, fmt.Sprintf("%s.decreases.%s", e.oblPrefix(fr.fn), label), "decreases", c.Decreases.Src, goal)
	}
	// havoc the frame
	if c.Opts["frame"] == "off" && fn != nil && !c.ModAll {
		for h := range e.P.modset(e, fn) {
			if os.Getenv("SPECV_DEBUG_MODSET") != "" {
				fmt.Fprintf(os.Stderr, "modset %s: %s\n", c.Key, h)
			}
			e.heapHavoc(st, h)
		}
	}
	e.havocModifies(st, env, c)
	if fn != nil {
		// parameters through which the callee reaches a method that writes into the object behind an interface
		// value (`modifies object(x)`): the object is known here, where it was boxed
		for i := range e.P.objectParams(fn) {
			if i < len(args) {
				e.havocArgs(st, []Val{args[i]})
			}
		}
	}
	// the callee may allocate: results may refer to objects newer than the current watermark
	na := e.S.Fresh("alloc", "Int")
	st.assume(fmt.Sprintf("(>= %s %s)", na, st.alloc))
	st.alloc = na
	// results
	var rs []Val
	rts := resultTypes(sig)
	for i, t := range rts {
		hint := fmt.Sprintf("%s_r%d", mangle(c.Key), i)
		rs = append(rs, e.freshOf(st, hint, t))
	}
	if c.Pure && fn != nil && len(rs) == 1 {
		// a pure function with a contract: the result is the function application itself
		rs[0] = e.pureApp(st, fn, args)
	}
	env.st = st
	env.results = rs
	env.inEnsures = true
	forget := e.forgetSet()
	assumeEnsures := func(cc *Contract) {
		// the callee's ghost variables: their final values exist (the callee proved its ensures for them);
		// the caller sees them as fresh witnesses, readable afterwards as callghost_<name>
		for _, g := range cc.Ghosts {
			t := e.P.resolveType(g.Type, cc.Pkg, fn)
			v := term(e.S.Fresh("cg_"+g.Name, e.sortOf(t)), t)
			env.bound[g.Name] = v
			st.ghost["callghost_"+g.Name] = v
		}
		for _, en := range cc.Ensures {
			// clauses labelled local-* talk about the callee's internal ghost state
			// (e.g. the word seen by its CAS); they are proved there but not exported.
			if strings.HasPrefix(en.Label, "local-") || forget[en.Label] {
				continue
			}
			st.assume(e.evalBool(st, env, en.E))
		}
	}
	assumeEnsures(c)
	// further contracts of the same function ("Func@variant") whose preconditions are among the
	// main contract's (just checked): their ensures hold as well
	for _, v := range e.P.variantsOf(c) {
		ok := true
		for _, r := range v.Requires {
			found := false
			for _, mr := range c.Requires {
				if mr.Src == r.Src {
					found = true
				}
			}
			ok = ok && found
		}
		if ok {
			env.contract = v
			assumeEnsures(v)
			env.contract = c
		}
	}
	if c.Kind == "lib" || c.Trusted {
		e.noteAssumption("assumed contract: " + c.Key)
	}
	k(st, rs)
}

func (e *Engine) sameRecursion(fr *FrameSt, c *Contract) bool {
	// the measure is compared when the callee contract is the same contract or an
	// interface contract marked as belonging to the same recursion
	if fr.contract == c {
		return true
	}
	if g := c.Opts["recursion"]; g != "" && fr.contract.Opts["recursion"] == g {
		return true
	}
	return false
}

func (e *Engine) paramNames(c *Contract, fn *ssa.Function, sig *types.Signature) []string {
	var names []string
	if c.Kind == "interface" {
		rn := c.RecvName
		if rn == "" {
			rn = "self"
		}
		names = append(names, rn)
		if len(c.Params) == sig.Params().Len() {
			for _, p := range c.Params {
				names = append(names, p.Name)
			}
		} else {
			for i := 0; i < sig.Params().Len(); i++ {
				names = append(names, sig.Params().At(i).Name())
			}
		}
		return names
	}
	if fn != nil && c.Kind == "func" {
		for _, p := range fn.Params {
			names = append(names, p.Name())
		}
		return names
	}
	// lib: receiver + header params
	if fn != nil && fn.Signature.Recv() != nil {
		rn := c.RecvName
		if rn == "" {
			rn = "self"
		}
		names = append(names, rn)
	}
	if len(c.Params) > 0 {
		for _, p := range c.Params {
			names = append(names, p.Name)
		}
	} else if fn != nil {
		for i := len(names); i < len(fn.Params); i++ {
			names = append(names, fn.Params[i].Name())
		}
	}
	return names
}

func (e *Engine) paramTypes(fn *ssa.Function, sig *types.Signature, c *Contract) []types.Type {
	var ts []types.Type
	if fn != nil {
		for _, p := range fn.Params {
			ts = append(ts, p.Type())
		}
		return ts
	}
	if c.Kind == "interface" {
		ts = append(ts, nil)
	}
	for i := 0; i < sig.Params().Len(); i++ {
		ts = append(ts, sig.Params().At(i).Type())
	}
	return ts
}

// havocModifies havocs the locations named by a contract's modifies clause.
func (e *Engine) havocModifies(st *State, env *Env, c *Contract) {
	if c.ModAll {
		for h := range e.heapSorts {
			e.heapHavoc(st, h)
		}
		return
	}
	for _, m := range c.Modifies {
		if name, ok := isObjectEntry(m); ok {
			// object(x): everything the object behind the pointer or interface value x holds
			if v, ok := env.lookupIdent(name); ok {
				e.havocArgs(st, []Val{v})
			}
			continue
		}
		loc := e.resolveModifies(st, env, m)
		switch {
		case loc.ghost != "":
			g := st.ghost[loc.ghost]
			st.ghost[loc.ghost] = term(e.S.Fresh("ghost_"+loc.ghost, e.sortOf(g.Typ)), g.Typ)
		case loc.all:
			e.heapGet(st, loc.heap, loc.sort)
			e.heapHavoc(st, loc.heap)
		default:
			h := e.heapGet(st, loc.heap, loc.sort)
			elem := loc.sort[strings.Index(loc.sort, " Int ")+5 : len(loc.sort)-1]
			nv := e.S.Fresh("mod_"+loc.heap, elem)
			e.heapSet(st, loc.heap, loc.sort, fmt.Sprintf("(store %s %s %s)", h, loc.ref, nv))
		}
	}
}

type modLoc struct {
	heap, sort string
	ref        string
	all        bool
	ghost      string
}

func (e *Engine) resolveModifies(st *State, env *Env, m string) modLoc {
	m = strings.TrimSpace(m)
	if strings.HasPrefix(m, "ghost ") {
		return modLoc{ghost: strings.TrimSpace(m[6:])}
	}
	if _, ok := st.ghost[m]; ok {
		return modLoc{ghost: m}
	}
	// a captured variable of a closure under contract: its storage cell
	var cell *Val
	if env.callee && env.freeBinds != nil {
		if p, ok := env.freeBinds[m]; ok {
			cell = &p
		}
	} else if env.fr != nil && env.fr.freeVars != nil {
		if p, ok := env.fr.freeVars[m]; ok {
			cell = &p
		}
	}
	if cell != nil && cell.K == kTerm {
		if pt, ok := cell.Typ.Underlying().(*types.Pointer); ok {
			n, srt := e.boxMapName(pt.Elem())
			return modLoc{heap: n, sort: srt, ref: cell.T}
		}
	}
	if strings.HasPrefix(m, "elems(") && strings.HasSuffix(m, ")") {
		ex, err := ParseExpr(m[6 : len(m)-1])
		if err != nil {
			limitf("modifies %s: %v", m, err)
		}
		v := e.evalSpec(st, env, ex)
		sl, ok := v.Typ.Underlying().(*types.Slice)
		if !ok {
			limitf("modifies elems() of non-slice")
		}
		n, s := e.arrMapName(sl.Elem())
		return modLoc{heap: n, sort: s, ref: fmt.Sprintf("(sl_ref %s)", v.T)}
	}
	if strings.HasPrefix(m, "map(") && strings.HasSuffix(m, ")") {
		limitf("modifies map(): use two clauses maphas()/mapval()")
	}
	ex, err := ParseExpr(m)
	if err != nil {
		limitf("modifies %s: %v", m, err)
	}
	sel, ok := ex.(ESel)
	if !ok {
		limitf("modifies clause %q must be x.f, T.f, elems(s) or a ghost variable", m)
	}
	// T.f (whole field map)?
	if id, ok := sel.X.(EIdent); ok {
		if _, isParam := env.params[id.Name]; !isParam {
			if t := e.P.lookupType(id.Name, env.pkg); t != nil {
				if stt, ok := t.Underlying().(*types.Struct); ok {
					for i := 0; i < stt.NumFields(); i++ {
						if stt.Field(i).Name() == sel.Name {
							n, s := e.fieldMapName(t, i)
							return modLoc{heap: n, sort: s, all: true}
						}
					}
				}
			}
		}
	}
	base := e.evalSpec(st, env, sel.X)
	if h, srt, _, ok := e.absFieldOf(base.Typ, sel.Name); ok {
		return modLoc{heap: h, sort: srt, ref: e.absRef(base)}
	}
	pt, ok := base.Typ.Underlying().(*types.Pointer)
	if !ok {
		limitf("modifies %s: base is not a pointer", m)
	}
	stt, ok := pt.Elem().Underlying().(*types.Struct)
	if !ok {
		limitf("modifies %s: base is not a struct pointer", m)
	}
	for i := 0; i < stt.NumFields(); i++ {
		if stt.Field(i).Name() == sel.Name {
			n, s := e.fieldMapName(pt.Elem(), i)
			return modLoc{heap: n, sort: s, ref: base.T}
		}
	}
	limitf("modifies %s: no such field", m)
	return modLoc{}
}

type frameDecl struct {
	all  bool
	refs []string
}

// frameDecls resolves the unit's modifies clause against the entry state.
func (e *Engine) frameDecls(st *State) map[string]*frameDecl {
	if e.fdecls != nil {
		return e.fdecls
	}
	c := e.unit.C
	decls := map[string]*frameDecl{}
	fr := st.frames[0]
	oldEnv := e.envFor(st.old, fr, st.old)
	oldEnv.inEnsures = true
	for _, m := range c.Modifies {
		loc := e.resolveModifies(st.old, oldEnv, m)
		if loc.ghost != "" {
			continue
		}
		d := decls[loc.heap]
		if d == nil {
			d = &frameDecl{}
			decls[loc.heap] = d
		}
		if loc.all {
			d.all = true
		} else {
			d.refs = append(d.refs, loc.ref)
		}
	}
	e.fdecls = decls
	return decls
}

// frameFormula: objects existing at entry are unchanged in heap map h outside the modifies clause.
func (e *Engine) frameFormula(st *State, h string) string {
	c := e.unit.C
	if c == nil || c.ModAll || c.Opts["frame"] == "off" {
		return ""
	}
	cur, ok := st.heap[h]
	init := h + "!0"
	if !ok || cur == init {
		return ""
	}
	d := e.frameDecls(st)[h]
	if d != nil && d.all {
		return ""
	}
	if strings.HasPrefix(h, "G_") {
		return fmt.Sprintf("(= %s %s)", cur, init)
	}
	var excl []string
	if d != nil {
		for _, r := range d.refs {
			excl = append(excl, fmt.Sprintf("(not (= r!f %s))", r))
		}
	}
	return fmt.Sprintf("(forall ((r!f Int)) (! (=> (and (<= 0 r!f) (<= r!f %s) %s) (= (select %s r!f) (select %s r!f))) :pattern ((select %s r!f))))",
		e.initAlloc, strings.Join(append(excl, "true"), " "), cur, init, cur)
}

// checkFrame: everything outside the modifies clause is unchanged for objects
// that existed at entry.
func (e *Engine) checkFrame(st *State, fn *ssa.Function, c *Contract, env *Env) {
	var names []string
	for h := range st.heap {
		names = append(names, h)
	}
	sort.Strings(names)
	for _, h := range names {
		if f := e.frameFormula(st, h); f != "" {
			e.addObl(st, fmt.Sprintf("%s.frame.%s", e.oblPrefix(fn), h), "frame", "objects existing at entry unchanged outside modifies", f)
		}
	}
}

var readOnlyRe = regexp.MustCompile(`^(Min|Max|Mean|StandardDeviation|Median|Write|WriteString|Equal|Hash|Sum|Compare|Contains|Count|Index|HasPrefix|HasSuffix|Marshal|MarshalVT|Size|SizeVT|String|Error|Is|Unwrap|Printf|Errorf|Sprintf|Fprintf|Debug|Info|Warn|Put|Get|Delete|Acquire|Renew|Release|Prefix[A-Z]\w*|Send|Join|Split\w*|Trim\w*|ToLower|ToUpper|Len|Verify|Sign|Encode\w*|Itoa|Format\w*|Parse\w*)$`)

// readOnlyCallee: library functions that by their documented contract do not write through their arguments.
func readOnlyCallee(name string) bool { return readOnlyRe.MatchString(stripTypeArgs(name)) }

// bumpAlloc: a call may have allocated; later results may be newer than the old watermark.
func (e *Engine) bumpAlloc(st *State) {
	na := e.S.Fresh("alloc", "Int")
	st.assume(fmt.Sprintf("(>= %s %s)", na, st.alloc))
	st.alloc = na
}

// stripTypeArgs removes [..] type argument lists from a function name.
func stripTypeArgs(s string) string {
	var b strings.Builder
	d := 0
	for _, c := range s {
		switch {
		case c == '[':
			d++
		case c == ']':
			d--
		case d == 0:
			b.WriteRune(c)
		}
	}
	return b.String()
}
