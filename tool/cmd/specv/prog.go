package main

import (
	"fmt"
	"go/types"
	"os"
	"path/filepath"
	"sort"
	"strings"

	"golang.org/x/tools/go/packages"
	"golang.org/x/tools/go/ssa"
	"golang.org/x/tools/go/ssa/ssautil"
)

const modulePath = "go.miragespace.co/specter"

var repoDir = "/repo"
var verifDir = "/verif"

type Unit struct {
	Fn *ssa.Function
	C  *Contract
}

type Prog struct {
	prog           *ssa.Program
	pkgs           map[string]*packages.Package
	spkgs          map[string]*ssa.Package
	contracts      map[string]*Contract // funcKey -> contract
	ifaceContracts map[string]*Contract
	libContracts   map[string]*Contract
	specs          map[string]*SpecFunc
	specConsts     map[string]Param
	axioms         []*Axiom
	pures          map[string]bool
	absFields      map[string]map[string]AbsField
	files          []*ContractFile
	modsets        map[*ssa.Function]map[string]bool
	contractSource map[string]string // pkg -> path actually used
	mirrorNote     map[string]string
	sorts          map[string]bool
}

func LoadProg(patterns []string) (*Prog, error) {
	os.Setenv("PATH", "/opt/veriftools/go1.26.8/bin:"+os.Getenv("PATH"))
	env := append(os.Environ(), "GOFLAGS=-mod=mod", "GOPROXY=off", "GOSUMDB=off", "GOTOOLCHAIN=local", "CGO_ENABLED=0")
	// -tags verif: the guard of the repository's verification hooks (comment-only contract files
	// and the few guarded helper functions that exist only to carry a contract)
	cfg := &packages.Config{Mode: packages.LoadAllSyntax, Dir: repoDir, Env: env, BuildFlags: []string{"-tags=verif"}}
	pkgs, err := packages.Load(cfg, patterns...)
	if err != nil {
		return nil, err
	}
	var errs []string
	packages.Visit(pkgs, nil, func(p *packages.Package) {
		if !strings.HasPrefix(p.PkgPath, modulePath) {
			return
		}
		for _, e := range p.Errors {
			// the embed error of tun/client is expected in this snapshot
			if strings.Contains(e.Msg, "pattern all:ui/build") || strings.Contains(e.Msg, "no matching files") {
				continue
			}
			errs = append(errs, e.Error())
		}
	})
	if len(errs) > 0 {
		return nil, fmt.Errorf("package errors:\n%s", strings.Join(errs, "\n"))
	}
	prog, _ := ssautil.AllPackages(pkgs, ssa.NaiveForm|ssa.InstantiateGenerics)
	prog.Build()
	p := &Prog{prog: prog, pkgs: map[string]*packages.Package{}, spkgs: map[string]*ssa.Package{},
		contracts: map[string]*Contract{}, ifaceContracts: map[string]*Contract{}, libContracts: map[string]*Contract{},
		specs: map[string]*SpecFunc{}, specConsts: map[string]Param{}, pures: map[string]bool{}, absFields: map[string]map[string]AbsField{}, modsets: map[*ssa.Function]map[string]bool{},
		contractSource: map[string]string{}, sorts: map[string]bool{}, mirrorNote: map[string]string{}}
	packages.Visit(pkgs, nil, func(pk *packages.Package) {
		p.pkgs[pk.PkgPath] = pk
	})
	for _, sp := range prog.AllPackages() {
		p.spkgs[sp.Pkg.Path()] = sp
	}
	return p, nil
}

// LoadContracts reads the contract files of all module packages that have one
// (in the repository; falling back to the master copy under /verif/contracts/repo)
// and all library specs.
func (p *Prog) LoadContracts() error {
	fromVerif := os.Getenv("SPECV_CONTRACTS") == "verif"
	var paths []string
	for path := range p.pkgs {
		if strings.HasPrefix(path, modulePath) {
			paths = append(paths, path)
		}
	}
	sort.Strings(paths)
	for _, path := range paths {
		rel := strings.TrimPrefix(strings.TrimPrefix(path, modulePath), "/")
		inRepo := filepath.Join(repoDir, rel, "zz_contracts_verif.go")
		master := filepath.Join(verifDir, "contracts", "repo", rel, "zz_contracts_verif.go")
		// The master copy under /verif/contracts/repo is authoritative; the copy committed
		// in the repository (build tag verif, comment-only) is its mirror.
		use := ""
		_ = fromVerif
		if _, err := os.Stat(master); err == nil {
			use = master
		} else if _, err := os.Stat(inRepo); err == nil {
			use = inRepo
		}
		if use == "" {
			continue
		}
		if use == master {
			a, _ := os.ReadFile(master)
			b, err := os.ReadFile(inRepo)
			switch {
			case err != nil:
				p.mirrorNote[path] = "mirror absent in repository working tree"
			case string(a) != string(b):
				p.mirrorNote[path] = "mirror in repository differs from master copy"
			default:
				p.mirrorNote[path] = "mirror in repository identical"
			}
		}
		cf, err := ParseContractFile(use, path)
		if err != nil {
			return err
		}
		p.contractSource[path] = use
		p.addFile(cf)
	}
	libs, _ := filepath.Glob(filepath.Join(verifDir, "contracts", "lib", "*.spec"))
	sort.Strings(libs)
	for _, l := range libs {
		cf, err := ParseContractFile(l, "")
		if err != nil {
			return err
		}
		p.addFile(cf)
	}
	return nil
}

func (p *Prog) addFile(cf *ContractFile) {
	p.files = append(p.files, cf)
	for _, c := range cf.Contracts {
		switch c.Kind {
		case "func":
			p.contracts[cf.Pkg+"::"+c.Key] = c
		case "interface":
			// key "Type.Method" in package
			k := c.Key
			if c.RecvName != "" || strings.HasPrefix(k, "(") {
				// written as (v VNode) FindSuccessor
				k = strings.TrimPrefix(k, "(")
				k = strings.Replace(k, ").", ".", 1)
				k = strings.TrimPrefix(k, "*")
			}
			pkg := cf.Pkg
			if i := strings.LastIndex(k, "/"); i >= 0 || strings.Count(k, ".") == 2 {
				// qualified: pkgpath.Type.Method
				j := strings.LastIndex(k[:strings.LastIndex(k, ".")], ".")
				pkg = k[:j]
				k = k[j+1:]
			}
			p.ifaceContracts[pkg+"::"+k] = c
			if c.Pure {
				p.pures[pkg+"::"+k] = true
			}
		case "lib":
			p.libContracts[c.Key] = c
			if c.Pure {
				p.pures[c.Key] = true
			}
		}
	}
	for _, s := range cf.Specs {
		p.specs[s.Name] = s
		if cf.Pkg != "" {
			p.specs[cf.Pkg+"::"+s.Name] = s
		}
	}
	for _, c := range cf.Consts {
		p.specConsts[c.Name] = c
	}
	p.axioms = append(p.axioms, cf.Axioms...)
	p.registerAbsFields(cf)
	for _, pu := range cf.Pures {
		// "VNode.ID" (interface method in this package) or a full function name
		if strings.Contains(pu, "/") || cf.Pkg == "" {
			p.pures[pu] = true
		} else {
			p.pures[cf.Pkg+"::"+pu] = true
		}
	}
}

func (p *Prog) specFor(name, pkg string) *SpecFunc {
	if s, ok := p.specs[pkg+"::"+name]; ok {
		return s
	}
	return p.specs[name]
}

func (p *Prog) inRepo(fn *ssa.Function) bool {
	return fn.Pkg != nil && strings.HasPrefix(fn.Pkg.Pkg.Path(), modulePath)
}

// funcKey: "<pkgpath>::<relname>"
func (p *Prog) funcKey(fn *ssa.Function) string {
	pkg := fn.Pkg
	if pkg == nil && fn.Origin() != nil {
		pkg = fn.Origin().Pkg
	}
	if pkg == nil {
		if fn.Parent() != nil {
			return p.funcKey(fn.Parent()) + "$" + fn.Name()
		}
		return "::" + fn.String()
	}
	return pkg.Pkg.Path() + "::" + fn.RelString(pkg.Pkg)
}

func (p *Prog) funcDisplay(fn *ssa.Function) string {
	pkg := fn.Pkg
	if pkg == nil && fn.Origin() != nil {
		pkg = fn.Origin().Pkg
	}
	if pkg == nil {
		return fn.String()
	}
	rel := strings.TrimPrefix(strings.TrimPrefix(pkg.Pkg.Path(), modulePath), "/")
	name := fn.RelString(pkg.Pkg)
	if i := strings.Index(name, "["); i > 0 && fn.Origin() != nil {
		name = fn.Origin().RelString(pkg.Pkg)
	}
	return rel + "." + name
}

func (p *Prog) ifaceKey(t types.Type, method string) string {
	t = types.Unalias(t)
	if n, ok := t.(*types.Named); ok {
		pk := ""
		if n.Obj().Pkg() != nil {
			pk = n.Obj().Pkg().Path()
		}
		return pk + "::" + n.Obj().Name() + "." + method
	}
	return "::" + t.String() + "." + method
}

// FindFunc resolves a contract key in a package to an SSA function.
func (p *Prog) FindFunc(pkgPath, key string) *ssa.Function {
	sp := p.spkgs[pkgPath]
	if sp == nil {
		return nil
	}
	// closures: Name$1
	if i := strings.Index(key, "$"); i > 0 && !strings.HasPrefix(key, "(") {
		parent := p.FindFunc(pkgPath, key[:i])
		if parent == nil {
			return nil
		}
		return findAnon(parent, key)
	}
	if strings.HasPrefix(key, "(") {
		// (*T).M or (T).M, possibly with $k suffix
		end := strings.Index(key, ").")
		recv := key[1:end]
		mname := key[end+2:]
		anon := ""
		if i := strings.Index(mname, "$"); i > 0 {
			anon = mname
			mname = mname[:i]
		}
		ptr := strings.HasPrefix(recv, "*")
		recv = strings.TrimPrefix(recv, "*")
		tm, ok := sp.Members[recv].(*ssa.Type)
		if !ok {
			return nil
		}
		var T types.Type = tm.Type()
		if ptr {
			T = types.NewPointer(T)
		}
		ms := p.prog.MethodSets.MethodSet(T)
		for i := 0; i < ms.Len(); i++ {
			if ms.At(i).Obj().Name() == mname {
				f := p.prog.MethodValue(ms.At(i))
				if f != nil && anon != "" {
					return findAnon(f, f.Name()+strings.TrimPrefix(anon, mname))
				}
				return f
			}
		}
		// generic named type: look for the origin method
		if named, ok := tm.Type().(*types.Named); ok {
			for i := 0; i < named.NumMethods(); i++ {
				if named.Method(i).Name() == mname {
					return p.prog.FuncValue(named.Method(i))
				}
			}
		}
		return nil
	}
	if f, ok := sp.Members[key].(*ssa.Function); ok {
		return f
	}
	return nil
}

func findAnon(parent *ssa.Function, name string) *ssa.Function {
	for _, a := range parent.AnonFuncs {
		if a.Name() == name {
			return a
		}
		if strings.HasPrefix(name, a.Name()+"$") {
			if f := findAnon(a, name); f != nil {
				return f
			}
		}
	}
	return nil
}

// ---- name and type resolution for specs

func (p *Prog) lookupObj(name, pkg string) types.Object {
	pk := p.pkgs[pkg]
	if pk == nil || pk.Types == nil {
		return nil
	}
	return pk.Types.Scope().Lookup(name)
}

func (p *Prog) lookupQualified(pkgName, name, fromPkg string) types.Object {
	pk := p.pkgs[fromPkg]
	if pk != nil && pk.Types != nil {
		for _, imp := range pk.Types.Imports() {
			if imp.Name() == pkgName {
				return imp.Scope().Lookup(name)
			}
		}
	}
	// any loaded package with that name (contracts may mention packages the file does not import)
	var cands []*packages.Package
	for _, q := range p.pkgs {
		if q.Name == pkgName && q.Types != nil {
			cands = append(cands, q)
		}
	}
	sort.Slice(cands, func(i, j int) bool {
		// prefer module packages, then shorter paths
		mi, mj := strings.HasPrefix(cands[i].PkgPath, modulePath), strings.HasPrefix(cands[j].PkgPath, modulePath)
		if mi != mj {
			return mi
		}
		return len(cands[i].PkgPath) < len(cands[j].PkgPath)
	})
	for _, q := range cands {
		if o := q.Types.Scope().Lookup(name); o != nil {
			return o
		}
	}
	return nil
}

func (p *Prog) lookupType(name, pkg string) types.Type {
	if obj := p.lookupObj(name, pkg); obj != nil {
		if tn, ok := obj.(*types.TypeName); ok {
			return tn.Type()
		}
	}
	return nil
}

var basicTypes = map[string]types.Type{
	"int": types.Typ[types.Int], "int8": types.Typ[types.Int8], "int16": types.Typ[types.Int16], "int32": types.Typ[types.Int32], "int64": types.Typ[types.Int64],
	"uint": types.Typ[types.Uint], "uint8": types.Typ[types.Uint8], "uint16": types.Typ[types.Uint16], "uint32": types.Typ[types.Uint32], "uint64": types.Typ[types.Uint64],
	"uintptr": types.Typ[types.Uintptr], "byte": types.Typ[types.Byte], "rune": types.Typ[types.Rune],
	"bool": types.Typ[types.Bool], "string": types.Typ[types.String], "float64": types.Typ[types.Float64],
}

func (p *Prog) tryResolveType(s, pkg string, fn *ssa.Function) types.Type {
	s = strings.TrimSpace(s)
	if t, ok := basicTypes[s]; ok {
		return t
	}
	if s == "error" {
		return types.Universe.Lookup("error").Type()
	}
	if s == "any" {
		return types.Universe.Lookup("any").Type()
	}
	if strings.HasPrefix(s, "func(") {
		// function values are opaque references in the model: one signature type stands for all of them
		return types.NewSignatureType(nil, nil, nil, nil, nil, false)
	}
	if strings.HasPrefix(s, "[]") {
		if el := p.tryResolveType(s[2:], pkg, fn); el != nil {
			return types.NewSlice(el)
		}
		return nil
	}
	for _, pre := range []string{"chan<- ", "<-chan ", "chan "} {
		// channels are opaque references in the model; the direction does not matter
		if strings.HasPrefix(s, pre) {
			if el := p.tryResolveType(strings.TrimSpace(s[len(pre):]), pkg, fn); el != nil {
				return types.NewChan(types.SendRecv, el)
			}
			return nil
		}
	}
	if strings.HasPrefix(s, "[") {
		if j := strings.Index(s, "]"); j > 1 {
			var n int64
			if _, err := fmt.Sscanf(s[1:j], "%d", &n); err == nil {
				if el := p.tryResolveType(s[j+1:], pkg, fn); el != nil {
					return types.NewArray(el, n)
				}
			}
		}
		return nil
	}
	if strings.HasPrefix(s, "*") {
		if el := p.tryResolveType(s[1:], pkg, fn); el != nil {
			return types.NewPointer(el)
		}
		return nil
	}
	for _, pre := range []string{"set[", "gmap[", "map["} {
		if strings.HasPrefix(s, pre) {
			j := matchBracket(s, len(pre)-1)
			if j < 0 {
				return nil
			}
			k := p.tryResolveType(s[len(pre):j], pkg, fn)
			if k == nil {
				return nil
			}
			if pre == "set[" {
				return &GhostT{Kind: "set", Key: k}
			}
			v := p.tryResolveType(s[j+1:], pkg, fn)
			if v == nil {
				return nil
			}
			if pre == "gmap[" {
				return &GhostT{Kind: "gmap", Key: k, Elem: v}
			}
			return types.NewMap(k, v)
		}
	}
	if strings.Contains(s, "/") {
		// full import path: path/to/pkg.Type
		if i := strings.LastIndex(s, "."); i > 0 {
			if pk := p.pkgs[s[:i]]; pk != nil && pk.Types != nil {
				if tn, ok := pk.Types.Scope().Lookup(s[i+1:]).(*types.TypeName); ok {
					return tn.Type()
				}
			}
		}
		return nil
	}
	if i := strings.Index(s, "."); i > 0 {
		if obj := p.lookupQualified(s[:i], s[i+1:], pkg); obj != nil {
			if tn, ok := obj.(*types.TypeName); ok {
				return tn.Type()
			}
		}
		return nil
	}
	if t := p.lookupType(s, pkg); t != nil {
		return t
	}
	// type parameters of the function (for a closure: of the function it is declared in)
	for fn != nil && fn.Parent() != nil {
		fn = fn.Parent()
	}
	if fn != nil {
		f := fn
		if f.Origin() != nil {
			f = f.Origin()
		}
		if tps := f.Signature.TypeParams(); tps != nil {
			for i := 0; i < tps.Len(); i++ {
				if tps.At(i).Obj().Name() == s {
					if fn.Origin() != nil && i < len(fn.TypeArgs()) {
						return fn.TypeArgs()[i]
					}
					return tps.At(i)
				}
			}
		}
	}
	return nil
}

func matchBracket(s string, i int) int {
	d := 0
	for j := i; j < len(s); j++ {
		switch s[j] {
		case '[':
			d++
		case ']':
			d--
			if d == 0 {
				return j
			}
		}
	}
	return -1
}

func (p *Prog) resolveType(s, pkg string, fn *ssa.Function) types.Type {
	if t := p.tryResolveType(s, pkg, fn); t != nil {
		return t
	}
	limitf("contract does not bind: unknown type %q (package %s)", s, pkg)
	return nil
}

// ---- mod sets: heap maps a function (and its static in-repo callees) may store to

func (p *Prog) modset(e *Engine, fn *ssa.Function) map[string]bool {
	if m, ok := e.modsetCache[fn]; ok {
		return m
	}
	m := map[string]bool{}
	e.modsetCache[fn] = m // cut recursion
	if fn.Blocks == nil {
		return m
	}
	// a contract with a modifies clause is authoritative
	if c := p.contracts[p.funcKey(fn)]; c != nil && !c.Inline {
		for _, mm := range c.Modifies {
			for _, h := range e.staticModHeaps(c, fn, mm) {
				m[h] = true
			}
		}
		// "opt frame=off": the frame is not checked against modifies, so it is not trusted either;
		// callers havoc what the body (and its callees) may store to and rely on the ensures only
		if !c.ModAll && c.Opts["frame"] != "off" {
			return m
		}
	}
	var calls []*ssa.Function
	visit := func(f *ssa.Function) {
		for _, b := range f.Blocks {
			for _, in := range b.Instrs {
				if s, ok := in.(*ssa.Store); ok && f == fn {
					// a store into a variable the callee itself allocates (a parameter or local that escapes into a
					// closure lives in a fresh box): no location that existed before the call changes
					if a, ok := s.Addr.(*ssa.Alloc); ok && a.Heap && a.Parent() == fn {
						continue
					}
				}
				e.instrEffects(in, func(*ssa.Alloc) {}, m, func(g *ssa.Function) { calls = append(calls, g) }, func() {})
				// frames of assumed contracts (library functions, interface methods) used inside the body: what
				// they modify (e.g. the read cursor of a stream) is modified by this function too
				if ci, ok := in.(ssa.CallInstruction); ok {
					cc := ci.Common()
					var lc *Contract
					if cc.IsInvoke() {
						lc = p.ifaceContracts[p.ifaceKey(cc.Value.Type(), cc.Method.Name())]
					} else if g := cc.StaticCallee(); g != nil && !p.inRepo(g) {
						lc = p.libContracts[stripTypeArgs(g.String())]
						if lc == nil && g.Origin() != nil {
							lc = p.libContracts[stripTypeArgs(g.Origin().String())]
						}
					}
					if lc != nil {
						for _, mm := range lc.Modifies {
							for _, h := range e.staticModHeapsLibAt(lc, mm, callRecvType(cc)) {
								m[h] = true
							}
						}
					}
				}
			}
		}
	}
	visit(fn)
	for _, a := range fn.AnonFuncs {
		visit(a)
	}
	seen := map[*ssa.Function]bool{}
	for _, g := range calls {
		if seen[g] || !p.inRepo(g) {
			continue
		}
		seen[g] = true
		for h := range p.modset(e, g) {
			m[h] = true
		}
	}
	return m
}
