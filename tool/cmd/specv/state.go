package main

import (
	"fmt"
	"go/types"
	"strings"

	"golang.org/x/tools/go/ssa"
)

type Cont func(st *State, results []Val)

type FrameSt struct {
	fn       *ssa.Function
	regs     map[ssa.Value]Val
	cells    map[*ssa.Alloc]Val // alloc -> pointer value (cell ptr or heap ref term)
	defers   []deferred
	active   []*loopInfo
	k        Cont
	contract *Contract
	prev     *ssa.BasicBlock
	params   map[string]Val // entry values of parameters (by name)
	results  map[string]Val // named results at return time
	closure  []Val          // free variable bindings
	depth    int
	unrolled map[*ssa.BasicBlock]int
	ghostLocals map[string]bool
	freeVars    map[string]Val
}

type deferred struct {
	call *ssa.CallCommon
	fnv  Val
	args []Val
}

type State struct {
	frames  []*FrameSt
	heap    map[string]string // heap map name -> current term
	cells   map[int]Val
	pc      []string
	ghost   map[string]Val
	alloc   string // current allocation watermark term
	old     *State
	dead    bool
	trace   []string
	visited map[string]string // map-range visited sets etc
}

func (st *State) top() *FrameSt { return st.frames[len(st.frames)-1] }

func (st *State) clone() *State {
	n := &State{alloc: st.alloc, old: st.old}
	n.heap = make(map[string]string, len(st.heap))
	for k, v := range st.heap {
		n.heap[k] = v
	}
	n.cells = make(map[int]Val, len(st.cells))
	for k, v := range st.cells {
		n.cells[k] = v
	}
	n.ghost = make(map[string]Val, len(st.ghost))
	for k, v := range st.ghost {
		n.ghost[k] = v
	}
	n.pc = append([]string{}, st.pc...)
	n.trace = append([]string{}, st.trace...)
	n.frames = make([]*FrameSt, len(st.frames))
	for i, f := range st.frames {
		g := *f
		g.regs = make(map[ssa.Value]Val, len(f.regs))
		for k, v := range f.regs {
			g.regs[k] = v
		}
		g.cells = make(map[*ssa.Alloc]Val, len(f.cells))
		for k, v := range f.cells {
			g.cells[k] = v
		}
		g.defers = append([]deferred{}, f.defers...)
		g.active = append([]*loopInfo{}, f.active...)
		if f.unrolled != nil {
			g.unrolled = make(map[*ssa.BasicBlock]int, len(f.unrolled))
			for k, v := range f.unrolled {
				g.unrolled[k] = v
			}
		}
		n.frames[i] = &g
	}
	return n
}

// snapshot for old(): heap, cells, ghost only
func (st *State) snapshot() *State {
	n := &State{alloc: st.alloc}
	n.heap = make(map[string]string, len(st.heap))
	for k, v := range st.heap {
		n.heap[k] = v
	}
	n.cells = make(map[int]Val, len(st.cells))
	for k, v := range st.cells {
		n.cells[k] = v
	}
	n.ghost = make(map[string]Val, len(st.ghost))
	for k, v := range st.ghost {
		n.ghost[k] = v
	}
	n.frames = st.frames
	return n
}

func (st *State) assume(t string) {
	if t == "" || t == "true" {
		return
	}
	if t == "false" {
		st.dead = true
	}
	st.pc = append(st.pc, t)
}

// ---- heap maps

func (e *Engine) heapGet(st *State, name, sort string) string {
	if t, ok := st.heap[name]; ok {
		return t
	}
	init := name + "!0"
	e.S.DeclareConst(init, sort)
	e.heapSorts[name] = sort
	return init
}

func (e *Engine) heapSet(st *State, name, sort, t string) {
	e.heapSorts[name] = sort
	// name the new version to keep terms small
	n := e.S.Fresh(name, sort)
	st.assume(fmt.Sprintf("(= %s %s)", n, t))
	st.heap[name] = n
}

func (e *Engine) heapHavoc(st *State, name string) {
	sort, ok := e.heapSorts[name]
	if !ok {
		// not read yet: register it, so that a later first read sees the havoc'd version
		if sort, ok = e.allSorts[name]; !ok {
			return
		}
		e.heapGet(st, name, sort)
	}
	st.heap[name] = e.S.Fresh(name, sort)
}

func (e *Engine) fieldMapName(root types.Type, i int) (string, string) {
	u := root.Underlying().(*types.Struct)
	f := u.Field(i)
	name := fmt.Sprintf("F_%s_%s", shortTypeName(root), mangle(f.Name()))
	srt := fmt.Sprintf("(Array Int %s)", e.sortOf(f.Type()))
	return e.noteSort(name, srt), srt
}

// Heap maps are split by Go type, not only by SMT sort: memory of different Go types is disjoint
// (type safety; unsafe conversions are outside the model). E.g. a []byte and a []*T never alias
// although bytes and pointers are both integers in SMT.
func (e *Engine) arrMapName(elem types.Type) (string, string) {
	es := e.sortOf(elem)
	srt := fmt.Sprintf("(Array Int (Array %s %s))", e.S.IntSort(), es)
	return e.noteSort("Arr_"+goTypeTag(elem, es), srt), srt
}

func (e *Engine) boxMapName(t types.Type) (string, string) {
	es := e.sortOf(t)
	srt := fmt.Sprintf("(Array Int %s)", es)
	return e.noteSort("Box_"+goTypeTag(t, es), srt), srt
}

// goTypeTag: a short, stable tag for a Go type (identical types get identical tags).
func goTypeTag(t types.Type, sort string) string {
	t = types.Unalias(t)
	switch u := t.(type) {
	case *types.Basic:
		switch u.Kind() {
		case types.Uint8:
			return "byte"
		case types.Int32:
			return "int32"
		}
		return mangle(u.Name())
	case *types.Named:
		return shortTypeName(t)
	case *types.Pointer:
		return "p_" + goTypeTag(u.Elem(), "")
	case *types.Slice:
		return "s_" + goTypeTag(u.Elem(), "")
	case *types.Interface:
		if u.NumMethods() == 0 {
			return "any"
		}
		return "Iface_" + typeKey(t)
	case *types.Signature:
		return "func"
	case *GhostT:
		return mangle(sort)
	case *types.TypeParam:
		return "TP_" + mangle(u.Obj().Name())
	}
	return typeKey(t)
}

func (e *Engine) mapHeapNames(m *types.Map) (string, string, string, string) {
	ks, vs := e.sortOf(m.Key()), e.sortOf(m.Elem())
	base := mangle(ks) + "_" + mangle(vs)
	hs, vsrt := fmt.Sprintf("(Array Int (Array %s Bool))", ks), fmt.Sprintf("(Array Int (Array %s %s))", ks, vs)
	return e.noteSort("MapHas_"+base, hs), hs, e.noteSort("MapVal_"+base, vsrt), vsrt
}

// fieldType walks path from root
func fieldTypeAt(root types.Type, path []int) types.Type {
	t := root
	for _, i := range path {
		t = t.Underlying().(*types.Struct).Field(i).Type()
	}
	return t
}

// getPath projects path out of a struct term
func (e *Engine) getPath(v string, root types.Type, path []int) string {
	t := root
	for _, i := range path {
		v = fmt.Sprintf("(%s %s)", e.S.structAcc(t, i), v)
		t = t.Underlying().(*types.Struct).Field(i).Type()
	}
	return v
}

// setPath returns root value v with path replaced by nv
func (e *Engine) setPath(v string, root types.Type, path []int, nv string) string {
	if len(path) == 0 {
		return nv
	}
	i := path[0]
	ft := root.Underlying().(*types.Struct).Field(i).Type()
	inner := fmt.Sprintf("(%s %s)", e.S.structAcc(root, i), v)
	return e.S.structUpdate(root, v, i, e.setPath(inner, ft, path[1:], nv))
}

// ---- pointer load/store

func (e *Engine) ptrElemType(p *Ptr) types.Type {
	if p.Kind == pFieldElem {
		at := p.Root.Underlying().(*types.Struct).Field(p.Path[0]).Type().Underlying().(*types.Array)
		return fieldTypeAt(at.Elem(), p.Path[1:])
	}
	return fieldTypeAt(p.Root, p.Path)
}

func (e *Engine) loadPtr(st *State, p *Ptr) Val {
	typ := e.ptrElemType(p)
	switch p.Kind {
	case pCell:
		v, ok := st.cells[p.Cell]
		if !ok {
			panic(fmt.Sprintf("load of unknown cell %d", p.Cell))
		}
		if len(p.Path) == 0 {
			return v
		}
		if v.K != kTerm {
			panic("field path on non-term cell")
		}
		return term(e.getPath(v.T, p.Root, p.Path), typ)
	case pField:
		// Root is the struct type, Path[0] selects the heap map
		name, sort := e.fieldMapName(p.Root, p.Path[0])
		h := e.heapGet(st, name, sort)
		v := fmt.Sprintf("(select %s %s)", h, p.Ref)
		ft := p.Root.Underlying().(*types.Struct).Field(p.Path[0]).Type()
		return e.loaded(st, term(e.getPath(v, ft, p.Path[1:]), typ))
	case pElem:
		name, sort := e.arrMapName(p.Root)
		h := e.heapGet(st, name, sort)
		v := fmt.Sprintf("(select (select %s %s) %s)", h, p.Ref, p.Idx)
		return e.loaded(st, term(e.getPath(v, p.Root, p.Path), typ))
	case pFieldElem:
		name, sort := e.fieldMapName(p.Root, p.Path[0])
		h := e.heapGet(st, name, sort)
		at := p.Root.Underlying().(*types.Struct).Field(p.Path[0]).Type().Underlying().(*types.Array)
		v := fmt.Sprintf("(select (select %s %s) %s)", h, p.Ref, p.Idx)
		return e.loaded(st, term(e.getPath(v, at.Elem(), p.Path[1:]), typ))
	case pBox:
		if at, ok := p.Root.Underlying().(*types.Array); ok && len(p.Path) == 0 {
			name, sort := e.arrMapName(at.Elem())
			h := e.heapGet(st, name, sort)
			return term(fmt.Sprintf("(select %s %s)", h, p.Ref), p.Root)
		}
		name, sort := e.boxMapName(p.Root)
		h := e.heapGet(st, name, sort)
		v := fmt.Sprintf("(select %s %s)", h, p.Ref)
		return e.loaded(st, term(e.getPath(v, p.Root, p.Path), typ))
	case pGlobal:
		name := "G_" + mangle(p.Glob.Pkg.Pkg.Name()+"_"+p.Glob.Name())
		h := e.heapGet(st, name, e.sortOf(p.Root))
		e.noteGlobal(p.Glob, h)
		return e.loaded(st, term(e.getPath(h, p.Root, p.Path), typ))
	}
	panic("loadPtr")
}

// loaded adds well-formedness facts about a value read from the heap
func (e *Engine) loaded(st *State, v Val) Val {
	if v.K != kTerm || e.specEval > 0 {
		return v
	}
	switch v.Typ.Underlying().(type) {
	case *types.Pointer, *types.Map, *types.Chan:
		if len(v.T) < 3000 {
			st.assume(fmt.Sprintf("(and (<= 0 %s) (<= %s %s))", v.T, v.T, st.alloc))
		}
	case *types.Slice:
		if len(v.T) < 3000 {
			if c := e.rangeConstraintBV(v.T, v.Typ); c != "" {
				st.assume(c)
			}
			st.assume(fmt.Sprintf("(<= (sl_ref %s) %s)", v.T, st.alloc))
		}
	case *types.Basic:
		if len(v.T) < 3000 {
			if c := e.rangeConstraint(v.T, v.Typ); c != "" {
				st.assume(c)
			}
		}
	}
	return v
}

func (e *Engine) storePtr(st *State, p *Ptr, v Val) {
	typ := e.ptrElemType(p)
	if v.K == kConst {
		v = e.coerce(v, typ)
	}
	switch p.Kind {
	case pCell:
		if len(p.Path) == 0 {
			st.cells[p.Cell] = v
			return
		}
		old := st.cells[p.Cell]
		if v.K != kTerm {
			// pointers, closures, function values stored into a field of a local struct: their term form
			v = term(e.asTerm(st, v), e.ptrElemType(p))
		}
		if old.K != kTerm {
			panic("field store on non-term cell")
		}
		// name the updated struct value: nested constructor terms otherwise grow exponentially
		nv := e.S.Fresh("sv", e.sortOf(old.Typ))
		st.assume(fmt.Sprintf("(= %s %s)", nv, e.setPath(old.T, p.Root, p.Path, v.T)))
		st.cells[p.Cell] = term(nv, old.Typ)
		return
	}
	tv := e.asTerm(st, v)
	switch p.Kind {
	case pField:
		name, sort := e.fieldMapName(p.Root, p.Path[0])
		h := e.heapGet(st, name, sort)
		ft := p.Root.Underlying().(*types.Struct).Field(p.Path[0]).Type()
		nv := tv
		if len(p.Path) > 1 {
			cur := fmt.Sprintf("(select %s %s)", h, p.Ref)
			nv = e.setPath(cur, ft, p.Path[1:], tv)
		}
		e.heapSet(st, name, sort, fmt.Sprintf("(store %s %s %s)", h, p.Ref, nv))
	case pFieldElem:
		name, sort := e.fieldMapName(p.Root, p.Path[0])
		h := e.heapGet(st, name, sort)
		at := p.Root.Underlying().(*types.Struct).Field(p.Path[0]).Type().Underlying().(*types.Array)
		nv := tv
		if len(p.Path) > 1 {
			cur := fmt.Sprintf("(select (select %s %s) %s)", h, p.Ref, p.Idx)
			nv = e.setPath(cur, at.Elem(), p.Path[1:], tv)
		}
		e.heapSet(st, name, sort, fmt.Sprintf("(store %s %s (store (select %s %s) %s %s))", h, p.Ref, h, p.Ref, p.Idx, nv))
	case pElem:
		name, sort := e.arrMapName(p.Root)
		h := e.heapGet(st, name, sort)
		nv := tv
		if len(p.Path) > 0 {
			cur := fmt.Sprintf("(select (select %s %s) %s)", h, p.Ref, p.Idx)
			nv = e.setPath(cur, p.Root, p.Path, tv)
		}
		if strings.HasPrefix(p.Ref, "ref_") && len(p.Path) == 0 && len(e.smallArr[p.Ref]) < 64 {
			e.smallArr[p.Ref] = append(e.smallArr[p.Ref], v)
		}
		e.heapSet(st, name, sort, fmt.Sprintf("(store %s %s (store (select %s %s) %s %s))", h, p.Ref, h, p.Ref, p.Idx, nv))
	case pBox:
		if at, ok := p.Root.Underlying().(*types.Array); ok && len(p.Path) == 0 {
			name, sort := e.arrMapName(at.Elem())
			h := e.heapGet(st, name, sort)
			e.heapSet(st, name, sort, fmt.Sprintf("(store %s %s %s)", h, p.Ref, tv))
			return
		}
		name, sort := e.boxMapName(p.Root)
		h := e.heapGet(st, name, sort)
		nv := tv
		if len(p.Path) > 0 {
			cur := fmt.Sprintf("(select %s %s)", h, p.Ref)
			nv = e.setPath(cur, p.Root, p.Path, tv)
		}
		e.heapSet(st, name, sort, fmt.Sprintf("(store %s %s %s)", h, p.Ref, nv))
	case pGlobal:
		name := "G_" + mangle(p.Glob.Pkg.Pkg.Name()+"_"+p.Glob.Name())
		sort := e.sortOf(p.Root)
		h := e.heapGet(st, name, sort)
		e.heapSet(st, name, sort, e.setPath(h, p.Root, p.Path, tv))
	default:
		panic("storePtr")
	}
}

// asTerm converts an engine value to an SMT term (string)
func (e *Engine) asTerm(st *State, v Val) string {
	switch v.K {
	case kTerm:
		return v.T
	case kConst:
		return e.S.IntLit(v.Const, tInt)
	case kPtr:
		switch v.P.Kind {
		case pField:
			if len(v.P.Path) == 0 {
				return v.P.Ref
			}
		case pBox:
			if len(v.P.Path) == 0 {
				return v.P.Ref
			}
		}
		// interior pointers are opaque, fresh but deterministic per (kind,ref,path)
		key := fmt.Sprintf("iptr_%d_%s_%s_%v_%d", v.P.Kind, v.P.Ref, v.P.Idx, v.P.Path, v.P.Cell)
		if t, ok := e.interiorPtr[key]; ok {
			return t
		}
		t := e.S.Fresh("iptr", "Int")
		e.S.AddAxiom([]string{t}, fmt.Sprintf("(> %s 0)", t)) // the address of a variable is never nil
		e.interiorPtr[key] = t
		e.interiorPtrRev[t] = v.P
		return t
	case kClosure, kFunc:
		key := "fn_" + v.Fn.String()
		if len(v.Binds) > 0 {
			// closure identity is opaque
			t := e.S.Fresh("closure", "Int")
			e.S.AddAxiom([]string{t}, fmt.Sprintf("(> %s 0)", t)) // a function value made from a closure is never nil
			e.closureRev[t] = v
			return t
		}
		if t, ok := e.interiorPtr[key]; ok {
			return t
		}
		t := e.S.Fresh("fn", "Int")
		e.S.AddAxiom([]string{t}, fmt.Sprintf("(> %s 0)", t)) // nor is one made from a declared function
		e.interiorPtr[key] = t
		e.closureRev[t] = v
		return t
	}
	panic(fmt.Sprintf("asTerm of kind %d", v.K))
}

// asPtr turns a pointer-typed value into an engine pointer
func (e *Engine) asPtr(st *State, v Val) *Ptr {
	if v.K == kPtr {
		return v.P
	}
	if v.K != kTerm {
		panic(fmt.Sprintf("asPtr of kind %d", v.K))
	}
	if p, ok := e.interiorPtrRev[v.T]; ok {
		return p
	}
	pt, ok := v.Typ.Underlying().(*types.Pointer)
	if !ok {
		panic("asPtr of non-pointer type " + v.Typ.String())
	}
	el := pt.Elem()
	switch el.Underlying().(type) {
	case *types.Struct:
		return &Ptr{Kind: pField, Ref: v.T, Root: el}
	case *types.Array:
		return &Ptr{Kind: pBox, Ref: v.T, Root: el}
	}
	return &Ptr{Kind: pBox, Ref: v.T, Root: el}
}

func ptrVal(p *Ptr, typ types.Type) Val { return Val{K: kPtr, P: p, Typ: typ} }

// loadVal loads through an arbitrary pointer value, handling struct-at-root loads
func (e *Engine) loadThrough(st *State, pv Val) Val {
	p := e.asPtr(st, pv)
	if p.Kind == pField && len(p.Path) == 0 {
		// load whole struct from per-field maps
		u := p.Root.Underlying().(*types.Struct)
		name := e.S.structSort(p.Root, u)
		if u.NumFields() == 0 {
			return term("mk_"+name, p.Root)
		}
		var parts []string
		for i := 0; i < u.NumFields(); i++ {
			q := p.withField(i)
			parts = append(parts, e.asTerm(st, e.loadPtr(st, q)))
		}
		return term(fmt.Sprintf("(mk_%s %s)", name, strings.Join(parts, " ")), p.Root)
	}
	if p.Kind == pBox {
		if at, ok := p.Root.Underlying().(*types.Array); ok && len(p.Path) == 0 {
			name, sort := e.arrMapName(at.Elem())
			h := e.heapGet(st, name, sort)
			return term(fmt.Sprintf("(select %s %s)", h, p.Ref), p.Root)
		}
	}
	return e.loadPtr(st, p)
}

func (e *Engine) storeThrough(st *State, pv Val, v Val) {
	p := e.asPtr(st, pv)
	if p.Kind == pField && len(p.Path) == 0 {
		u := p.Root.Underlying().(*types.Struct)
		if v.K != kTerm {
			panic("struct store of non-term")
		}
		for i := 0; i < u.NumFields(); i++ {
			q := p.withField(i)
			e.storePtr(st, q, term(fmt.Sprintf("(%s %s)", e.S.structAcc(p.Root, i), v.T), u.Field(i).Type()))
		}
		return
	}
	if p.Kind == pBox {
		if at, ok := p.Root.Underlying().(*types.Array); ok && len(p.Path) == 0 {
			name, sort := e.arrMapName(at.Elem())
			h := e.heapGet(st, name, sort)
			e.heapSet(st, name, sort, fmt.Sprintf("(store %s %s %s)", h, p.Ref, e.asTerm(st, v)))
			return
		}
	}
	e.storePtr(st, p, v)
}

// allocRef returns a fresh reference distinct from all existing ones
func (e *Engine) allocRef(st *State, hint string) string {
	r := e.S.Fresh("ref_"+hint, "Int")
	st.assume(fmt.Sprintf("(> %s %s)", r, st.alloc))
	st.alloc = r
	return r
}

func (e *Engine) allocObject(st *State, t types.Type, hint string) Val {
	r := e.allocRef(st, hint)
	pt := types.NewPointer(t)
	switch u := t.Underlying().(type) {
	case *types.Struct:
		for i := 0; i < u.NumFields(); i++ {
			p := &Ptr{Kind: pField, Ref: r, Root: t, Path: []int{i}}
			e.storePtr(st, p, term(e.zero(u.Field(i).Type()), u.Field(i).Type()))
		}
		// abstract fields of a zero-valued library object start at their zero value (a zero strings.Builder is empty)
		if qn := qualifiedTypeName(t); qn != "" {
			for name := range e.P.absFields[qn] {
				if hn, hs, ft, ok := e.absFieldOf(pt, name); ok {
					if _, ghost := ft.(*GhostT); !ghost {
						h := e.heapGet(st, hn, hs)
						e.heapSet(st, hn, hs, fmt.Sprintf("(store %s %s %s)", h, r, e.zero(ft)))
					}
				}
			}
		}
	case *types.Array:
		name, sort := e.arrMapName(u.Elem())
		h := e.heapGet(st, name, sort)
		e.heapSet(st, name, sort, fmt.Sprintf("(store %s %s %s)", h, r, e.zero(t)))
	default:
		e.storePtr(st, &Ptr{Kind: pBox, Ref: r, Root: t}, term(e.zero(t), t))
	}
	return term(r, pt)
}
