package main

import (
	"context"
	"fmt"
	"os"
	"sort"
	"strings"
	"time"

	"golang.org/x/tools/go/ssa"
)

func bgCtx() context.Context { return context.Background() }

func usage() {
	fmt.Fprintln(os.Stderr, `usage:
  specv check <ID> [--tier quick|thorough]
  specv verify [-v] [-q dir] <relpkg::Key> ...
  specv dump <relpkg::Key> ...
  specv replay <file>
  specv selftest [ID...]`)
	os.Exit(2)
}

func main() {
	os.Setenv("PATH", "/opt/veriftools/go1.26.8/bin:"+os.Getenv("PATH"))
	if len(os.Args) < 2 {
		usage()
	}
	if d := os.Getenv("SPECV_REPO"); d != "" {
		repoDir = d
	}
	if d := os.Getenv("SPECV_VERIF"); d != "" {
		verifDir = d
	}
	switch os.Args[1] {
	case "dump":
		cmdDump(os.Args[2:])
	case "verify":
		os.Exit(cmdVerify(os.Args[2:]))
	case "check":
		os.Exit(cmdCheck(os.Args[2:]))
	case "replay":
		os.Exit(cmdReplay(os.Args[2:]))
	case "selftest":
		os.Exit(cmdSelftest(os.Args[2:]))
	default:
		usage()
	}
}

func splitUnit(u string) (string, string) {
	i := strings.Index(u, "::")
	if i < 0 {
		fmt.Fprintf(os.Stderr, "bad unit %q (want relpkg::Key)\n", u)
		os.Exit(2)
	}
	return u[:i], u[i+2:]
}

func pkgPatterns(units []string) []string {
	seen := map[string]bool{}
	var out []string
	for _, u := range units {
		rel, _ := splitUnit(u)
		pat := "./" + rel
		if !seen[pat] {
			seen[pat] = true
			out = append(out, pat)
		}
	}
	sort.Strings(out)
	return out
}

func loadAll(units []string, extraPkgs []string) *Prog {
	pats := pkgPatterns(units)
	for _, x := range extraPkgs {
		found := false
		for _, p := range pats {
			if p == x {
				found = true
			}
		}
		if !found {
			pats = append(pats, x)
		}
	}
	t0 := time.Now()
	p, err := LoadProg(pats)
	if err != nil {
		fmt.Printf("ERROR loading packages: %v\n", err)
		os.Exit(2)
	}
	if err := p.LoadContracts(); err != nil {
		fmt.Printf("ERROR contract files: %v\n", err)
		os.Exit(2)
	}
	if os.Getenv("SPECV_VERBOSE") != "" {
		fmt.Fprintf(os.Stderr, "loaded %v in %.1fs\n", pats, time.Since(t0).Seconds())
	}
	return p
}

func cmdDump(args []string) {
	p := loadAll(args, nil)
	for _, u := range args {
		rel, key := splitUnit(u)
		fn := p.FindFunc(modulePath+"/"+rel, key)
		if rel == "" {
			fn = p.FindFunc(modulePath, key)
		}
		if fn == nil {
			fmt.Printf("not found: %s\n", u)
			continue
		}
		fn.WriteTo(os.Stdout)
		var rec func(f *ssa.Function)
		rec = func(f *ssa.Function) {
			for _, a := range f.AnonFuncs {
				a.WriteTo(os.Stdout)
				rec(a)
			}
		}
		rec(fn)
	}
}

// verifyUnit runs the engine on one unit and discharges its obligations.
func verifyUnit(p *Prog, unit string) *UnitResult {
	r := verifyUnit0(p, unit)
	if i := strings.Index(r.Err, "contract does not bind"); i >= 0 {
		// The code no longer has the shape the contract is anchored in (a variable, call
		// or loop the proof relies on is gone): the proof obligations can no longer be
		// generated, which is reported as a failed (undecided) obligation, not as a pass.
		rel, key := splitUnit(unit)
		r.Obls = append(r.Obls, &OblResult{Name: rel + "." + key + ".binding", Kind: "binding", Status: "undischarged", Unit: unit,
			Src: "contract binds to the code", Output: r.Err[i:]})
		r.Err = ""
	}
	return r
}

func verifyUnit0(p *Prog, unit string) *UnitResult {
	t0 := time.Now()
	rel, key := splitUnit(unit)
	pkg := modulePath
	if rel != "" {
		pkg += "/" + rel
	}
	res := &UnitResult{Unit: unit}
	if strings.HasPrefix(key, "lemma:") {
		return verifyLemma(p, pkg, unit, strings.TrimPrefix(key, "lemma:"))
	}
	// "Func@variant": a second contract for the same function (proved separately, never used at call sites)
	fnKey := key
	if i := strings.Index(key, "@"); i > 0 {
		fnKey = key[:i]
	}
	fn := p.FindFunc(pkg, fnKey)
	if fn == nil {
		res.Err = fmt.Sprintf("contract does not bind: function %s not found in %s", key, pkg)
		return res
	}
	c := p.contracts[pkg+"::"+key]
	if c == nil {
		res.Err = fmt.Sprintf("no contract for %s", unit)
		return res
	}
	u := &Unit{Fn: fn, C: c}
	e := NewEngine(p, u)
	res.Arith = c.Arith
	func() {
		defer func() {
			if r := recover(); r != nil {
				if tl, ok := r.(toolLimit); ok {
					res.Err = "tool limit: " + tl.msg
					return
				}
				panic(r)
			}
		}()
		if err := e.Run(); err != nil {
			res.Err = err.Error()
		}
	}()
	if res.Err != "" {
		return res
	}
	// unused loop specs / at anchors are binding errors
	if msg := e.unusedAnchors(); msg != "" {
		res.Err = "contract does not bind: " + msg
		return res
	}
	uses := e.useAssertions(c)
	tExec := time.Since(t0).Seconds()
	res.Obls = e.SolveUnit(unit, uses)
	if os.Getenv("SPECV_PROF") != "" {
		fmt.Fprintf(os.Stderr, "prof %s: exec %.2fs, solve %.2fs, %d obligations, %d decls\n", unit, tExec, time.Since(t0).Seconds()-tExec, len(e.oblOrder), len(e.S.all))
	}
	for a := range e.assumptions {
		res.Assumptions = append(res.Assumptions, a)
	}
	for a := range e.unmodelled {
		res.Unmodelled = append(res.Unmodelled, a)
	}
	for a := range e.usedContracts {
		res.UsedContr = append(res.UsedContr, a)
	}
	for a := range e.usedLib {
		res.UsedLib = append(res.UsedLib, a)
	}
	sort.Strings(res.Assumptions)
	sort.Strings(res.Unmodelled)
	sort.Strings(res.UsedContr)
	sort.Strings(res.UsedLib)
	res.Paths = e.paths
	res.Wall = time.Since(t0).Seconds()
	return res
}

// useAssertions returns the axioms/lemmas a contract brings into scope.
func (e *Engine) useAssertions(c *Contract) []string {
	var out []string
	for _, u := range c.Uses {
		found := false
		for _, ax := range e.P.axioms {
			if ax.Group == u || ax.Name == u {
				found = true
				env := &Env{e: e, st: &State{heap: map[string]string{}, cells: map[int]Val{}, ghost: map[string]Val{}, alloc: "alloc!0"}, params: map[string]Val{}, bound: map[string]Val{}, pkg: ax.Pkg}
				env.old = env.st
				if ax.Pkg == "" {
					env.pkg = c.Pkg
				}
				v := env.eval(ax.C.E)
				out = append(out, v.T)
				if ax.Lemma {
					e.usedContracts["lemma:"+ax.Name] = true
				} else {
					e.noteAssumption("axiom " + ax.Name + ": " + ax.C.Src)
				}
			}
		}
		if !found {
			limitf("contract does not bind: unknown axiom/lemma group %q", u)
		}
	}
	return out
}

func verifyLemma(p *Prog, pkg, unit, name string) *UnitResult {
	t0 := time.Now()
	res := &UnitResult{Unit: unit}
	var ax *Axiom
	for _, a := range p.axioms {
		if a.Lemma && a.Name == name && (a.Pkg == pkg || a.Pkg == "") {
			ax = a
		}
	}
	if ax == nil {
		res.Err = "contract does not bind: lemma " + name + " not found"
		return res
	}
	bv := strings.HasPrefix(name, "bv_") || strings.Contains(name, ".bv_")
	c := &Contract{Kind: "lemma", Key: "lemma:" + name, Pkg: pkg, Arith: "int", Opts: map[string]string{}}
	if bv {
		c.Arith = "bv"
	}
	res.Arith = c.Arith
	e := NewEngine(p, &Unit{C: c})
	func() {
		defer func() {
			if r := recover(); r != nil {
				if tl, ok := r.(toolLimit); ok {
					res.Err = "tool limit: " + tl.msg
					return
				}
				panic(r)
			}
		}()
		st := &State{heap: map[string]string{}, cells: map[int]Val{}, ghost: map[string]Val{}, alloc: "alloc!0"}
		e.S.DeclareConst("alloc!0", "Int")
		env := &Env{e: e, st: st, params: map[string]Val{}, bound: map[string]Val{}, pkg: pkg}
		env.old = st
		body := ax.C.E
		// a top-level universal quantifier is skolemized here so that quantifier-free goals
		// reach the solvers' quantifier-free engines
		if q, ok := body.(EQuant); ok && q.Forall {
			for _, v := range q.Vars {
				t := p.resolveType(v.Type, pkg, nil)
				c := e.S.Fresh("sk_"+v.Name, e.sortOf(t))
				env.bound[v.Name] = term(c, t)
				if g := e.rangeConstraint(c, t); g != "" && isInteger(t) && !isPlainInt(t) {
					st.assume(g)
				}
			}
			body = q.Body
		}
		goal := env.eval(body)
		rel := strings.TrimPrefix(strings.TrimPrefix(pkg, modulePath), "/")
		e.addObl(st, rel+".lemma."+name, "lemma", ax.C.Src, goal.T)
	}()
	if res.Err != "" {
		return res
	}
	res.Obls = e.SolveUnit(unit, nil)
	res.Wall = time.Since(t0).Seconds()
	return res
}

func cmdVerify(args []string) int {
	verbose := false
	qdir := ""
	var units []string
	for i := 0; i < len(args); i++ {
		switch args[i] {
		case "-v":
			verbose = true
		case "-q":
			i++
			qdir = args[i]
		default:
			units = append(units, args[i])
		}
	}
	p := loadAll(units, nil)
	bad := 0
	for _, u := range units {
		r := verifyUnit(p, u)
		if r.Err != "" {
			fmt.Printf("ERROR %s: %s\n", u, r.Err)
			bad++
			continue
		}
		nd, nf := 0, 0
		for _, o := range r.Obls {
			if o.Kind == "reach" {
				// branch probes are diagnostics: shown, never counted
				if o.Status != "cover-ok" {
					fmt.Printf("  %-14s %-70s paths=%d (branch not reachable in the model: %s)\n", "note", o.Name, o.Paths, o.Status)
					if qdir != "" && o.query != "" {
						saveQuery(qdir, o.Name, o.query)
					}
				}
				continue
			}
			ok := o.Status == "discharged" || o.Status == "trivial" || o.Status == "cover-ok"
			if ok {
				nd++
			} else {
				nf++
			}
			if verbose || !ok {
				fmt.Printf("  %-14s %-70s paths=%d %s %.2fs\n", o.Status, o.Name, o.Paths, o.Solver, o.Time)
				if !ok {
					if len(o.Model) > 0 {
						var ks []string
						for k := range o.Model {
							ks = append(ks, k)
						}
						sort.Strings(ks)
						for _, k := range ks {
							fmt.Printf("      %s = %s\n", k, o.Model[k])
						}
					}
					if o.Output != "" && o.Status != "failed" {
						fmt.Printf("      %s\n", truncate(o.Output, 300))
					}
					fmt.Printf("      trace: %v\n", o.Trace)
				}
			}
			if qdir != "" && o.query != "" {
				saveQuery(qdir, o.Name, o.query)
			}
		}
		fmt.Printf("%s: %d ok, %d not ok, %d paths, %.1fs\n", u, nd, nf, r.Paths, r.Wall)
		if verbose {
			for _, a := range r.Assumptions {
				fmt.Printf("  assumption: %s\n", a)
			}
			for _, a := range r.Unmodelled {
				fmt.Printf("  unmodelled: %s\n", a)
			}
		}
		bad += nf
	}
	if bad > 0 {
		return 1
	}
	return 0
}

func (e *Engine) unusedAnchors() string {
	c := e.unit.C
	if c == nil || e.unit.Fn == nil {
		return ""
	}
	for _, at := range c.Ats {
		if !e.usedAts[at] {
			// an anchor that names an instruction that exists but was never reached is fine
			a := strings.TrimPrefix(at.Anchor, "after ")
			found := false
			if strings.HasSuffix(a, "#?") {
				continue // "every occurrence, if any": used to forbid an operation outright
			}
			if strings.HasPrefix(a, "step ") {
				return fmt.Sprintf("iteration step anchor %q matches no Range call reached in %s", at.Anchor, c.Key)
			}
			if strings.HasPrefix(a, "$") {
				// anchor inside a closure: "$k:<anchor>"
				if i := strings.Index(a, "/"); i > 0 {
					if cl := findAnon(e.unit.Fn, e.unit.Fn.Name()+a[:i]); cl != nil {
						for _, name := range e.anchorsOf(cl) {
							if name == a[i+1:] || (strings.HasSuffix(name, "#1") && strings.TrimSuffix(name, "#1") == a[i+1:]) {
								found = true
							}
						}
					}
				}
				if !found {
					return fmt.Sprintf("anchor %q matches no instruction in %s", at.Anchor, c.Key)
				}
				continue
			}
			for _, name := range e.anchorsOf(e.unit.Fn) {
				if name == a || (strings.HasSuffix(name, "#1") && strings.TrimSuffix(name, "#1") == a) {
					found = true
				}
			}
			if !found {
				return fmt.Sprintf("anchor %q matches no instruction in %s", at.Anchor, c.Key)
			}
		}
	}
	for _, ls := range c.Loops {
		found := false
		if strings.Contains(ls.Anchor, "call ") {
			// invariant of a callback iteration (Range)
			if !e.usedRangeSpecs[ls] {
				return fmt.Sprintf("iteration anchor %q matches no Range call reached in %s", ls.Anchor, c.Key)
			}
			continue
		}
		if strings.Contains(ls.Anchor, "/") {
			continue // loop of an inlined callee
		}
		for _, li := range e.loopsOf(e.unit.Fn) {
			if e.loopSpecFor(c, e.unit.Fn, li) == ls {
				found = true
			}
		}
		if !found {
			return fmt.Sprintf("loop anchor %q matches no loop in %s", ls.Anchor, c.Key)
		}
	}
	return ""
}
