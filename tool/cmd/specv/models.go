package main

// Engine-level models of a few standard-library primitives whose semantics are
// needed exactly (sync/atomic) or that are irrelevant to tracked state (mutexes,
// logging). Each use is recorded as an assumption.

import (
	"fmt"
	"go/types"
	"strings"

	"golang.org/x/tools/go/ssa"
)

func (e *Engine) atomicInner(st *State, recv Val) *Ptr {
	p := e.asPtr(st, recv)
	stt, ok := e.ptrElemType(p).Underlying().(*types.Struct)
	if !ok {
		limitf("atomic receiver is not a struct")
	}
	for i := 0; i < stt.NumFields(); i++ {
		if stt.Field(i).Name() == "v" {
			return p.withField(i)
		}
	}
	limitf("atomic type without v field")
	return nil
}

// rgHavoc: between atomic steps other threads may change the cell, subject to
// the declared guarantee (opt rg=<spec function name> taking (old,new)).
func (e *Engine) rgHavoc(st *State, p *Ptr) {
	c := e.unit.C
	if c == nil || c.Opts["rg"] == "" {
		return
	}
	old := e.loadPtr(st, p)
	nv := e.freshOf(st, "rg_env", old.Typ)
	sf := e.P.specFor(c.Opts["rg"], c.Pkg)
	if sf == nil {
		limitf("unknown rely/guarantee relation %s", c.Opts["rg"])
	}
	name, _, _ := e.declareSpec(sf)
	st.assume(fmt.Sprintf("(%s %s %s)", name, old.T, nv.T))
	e.storePtr(st, p, nv)
	e.noteAssumption("rely/guarantee: between atomic steps the shared word changes only according to " + c.Opts["rg"])
}

func (e *Engine) modelCall(st *State, fn *ssa.Function, args []Val, site ssa.Instruction, k Cont) bool {
	full := fn.String()
	if fn.Origin() != nil {
		full = fn.Origin().String()
	}
	if e.rangeModel(st, fn, args, site, k) {
		return true
	}
	if strings.Contains(fn.String(), "skipmap.") || strings.Contains(fn.String(), "skipset.") || strings.HasPrefix(full, "(*sync.Map).") {
		if e.collectionModel(st, fn, args, site, k) {
			return true
		}
	}
	switch {
	case strings.HasPrefix(full, "(*sync/atomic."):
		i := strings.Index(full, ").")
		typ := full[len("(*sync/atomic."):i]
		if j := strings.Index(typ, "["); j > 0 {
			typ = typ[:j]
		}
		m := full[i+2:]
		switch typ {
		case "Uint64", "Int64", "Uint32", "Int32", "Bool", "Pointer", "Uintptr":
		default:
			return false
		}
		e.noteAssumption("sync/atomic operations are single atomic steps (linearizable), modelled exactly")
		p := e.atomicInner(st, args[0])
		vt := e.ptrElemType(p)
		switch m {
		case "Load":
			e.rgHavoc(st, p)
			v := e.loadPtr(st, p)
			st.ghost["load_seen"] = v
			if typ == "Pointer" {
				v.Typ = fn.Signature.Results().At(0).Type()
			}
			if typ == "Bool" {
				v = term(fmt.Sprintf("(not (= %s %s))", v.T, e.intLit(0, vt)), tBool)
			}
			k(st, []Val{v})
			return true
		case "Store":
			e.rgHavoc(st, p)
			nv := e.coerce(args[1], vt)
			if typ == "Bool" {
				nv = term(fmt.Sprintf("(ite %s %s %s)", nv.T, e.intLit(1, vt), e.intLit(0, vt)), vt)
			}
			e.storePtr(st, p, term(e.asTerm(st, nv), vt))
			k(st, nil)
			return true
		case "CompareAndSwap":
			e.rgHavoc(st, p)
			cur := e.loadPtr(st, p)
			old := e.coerce(args[1], vt)
			nv := e.coerce(args[2], vt)
			if typ == "Bool" {
				old = term(fmt.Sprintf("(ite %s %s %s)", old.T, e.intLit(1, vt), e.intLit(0, vt)), vt)
				nv = term(fmt.Sprintf("(ite %s %s %s)", nv.T, e.intLit(1, vt), e.intLit(0, vt)), vt)
			}
			ok := e.S.Fresh("cas_ok", "Bool")
			st.assume(fmt.Sprintf("(= %s (= %s %s))", ok, cur.T, e.asTerm(st, old)))
			st.ghost["cas_seen"] = cur
			e.storePtr(st, p, term(fmt.Sprintf("(ite %s %s %s)", ok, e.asTerm(st, nv), cur.T), vt))
			k(st, []Val{term(ok, tBool)})
			return true
		case "Add":
			e.rgHavoc(st, p)
			cur := e.loadPtr(st, p)
			d := e.coerce(args[1], vt)
			nv := term(e.arith("+", cur.T, d.T, vt), vt)
			e.storePtr(st, p, nv)
			k(st, []Val{e.loadPtr(st, p)})
			return true
		case "Swap":
			e.rgHavoc(st, p)
			cur := e.loadPtr(st, p)
			e.storePtr(st, p, term(e.asTerm(st, e.coerce(args[1], vt)), vt))
			k(st, []Val{cur})
			return true
		}
		return false
	case strings.HasPrefix(full, "(*sync.Mutex).") || strings.HasPrefix(full, "(*sync.RWMutex).") || strings.HasPrefix(full, "(*sync.Once).") && false:
		// lock operations: no effect on tracked state; monitor reasoning is done with at-anchors
		e.noteAssumption("sync.Mutex/RWMutex operations have no effect on tracked state (mutual exclusion is trusted)")
		i := strings.Index(full, ").")
		m := full[i+2:]
		if m == "TryLock" || m == "TryRLock" {
			k(st, []Val{e.freshOf(st, "trylock", tBool)})
			return true
		}
		if c := e.unit.C; c != nil && c.Opts["monitor"] != "" && (m == "Lock" || m == "RLock") {
			e.monitorAcquire(st)
		}
		k(st, nil)
		return true
	case strings.HasPrefix(full, "(*go.uber.org/zap.Logger).") || strings.HasPrefix(full, "(*go.uber.org/zap.SugaredLogger).") || strings.HasPrefix(full, "go.uber.org/zap."):
		e.noteAssumption("zap logging calls are pure with respect to tracked state")
		var rs []Val
		for i, t := range resultTypes(fn.Signature) {
			rs = append(rs, e.freshOf(st, fmt.Sprintf("zap_r%d", i), t))
		}
		k(st, rs)
		return true
	case full == "sort.SliceStable" || full == "sort.Slice":
		ci, ok := site.(ssa.CallInstruction)
		if !ok {
			return false
		}
		mi, ok := ci.Common().Args[0].(*ssa.MakeInterface)
		if !ok {
			return false
		}
		sl, ok := mi.X.Type().Underlying().(*types.Slice)
		if !ok {
			return false
		}
		e.noteAssumption(full + " only permutes the elements of its slice argument (the order it produces is not modelled)")
		sv := e.reg(st, mi.X)
		name, sort := e.arrMapName(sl.Elem())
		h := e.heapGet(st, name, sort)
		is := e.S.IntSort()
		na := e.S.Fresh("sorted", fmt.Sprintf("(Array %s %s)", is, e.sortOf(sl.Elem())))
		old := fmt.Sprintf("(select %s (sl_ref %s))", h, sv.T)
		lo := fmt.Sprintf("(sl_off %s)", sv.T)
		hi := e.arith("+", lo, fmt.Sprintf("(sl_len %s)", sv.T), tInt)
		in := func(v string) string {
			return fmt.Sprintf("(and %s %s)", e.compare("<=", lo, v, tInt), e.compare("<", v, hi, tInt))
		}
		st.assume(fmt.Sprintf("(forall ((i!p %s)) (! (=> (not %s) (= (select %s i!p) (select %s i!p))) :pattern ((select %s i!p))))", is, in("i!p"), na, old, na))
		st.assume(fmt.Sprintf("(forall ((i!p %s)) (! (=> %s (exists ((j!p %s)) (and %s (= (select %s i!p) (select %s j!p))))) :pattern ((select %s i!p))))", is, in("i!p"), is, in("j!p"), na, old, na))
		st.assume(fmt.Sprintf("(forall ((j!p %s)) (! (=> %s (exists ((i!p %s)) (and %s (= (select %s i!p) (select %s j!p))))) :pattern ((select %s j!p))))", is, in("j!p"), is, in("i!p"), na, old, old))
		e.heapSet(st, name, sort, fmt.Sprintf("(store %s (sl_ref %s) %s)", h, sv.T, na))
		k(st, nil)
		return true
	case full == "runtime.Gosched":
		k(st, nil)
		return true
	}
	return false
}

// monitorAcquire: acquiring the monitor lock havocs the protected fields subject to the invariant.
func (e *Engine) monitorAcquire(st *State) {
	// implemented by contracts through `at after call Lock#k: assume inv` for now
}
