package main

// SMT-LIB term construction helpers, lazy declaration registry with relevance
// filtering, and the solver race.

import (
	"bytes"
	"context"
	"fmt"
	"go/types"
	"hash/fnv"
	"math/big"
	"os"
	"os/exec"
	"path/filepath"
	"regexp"
	"sort"
	"strings"
	"sync"
	"time"
)

type Decl struct {
	Name  string
	Text  string
	Order int
	Axiom bool // an assertion that must be included when Name's trigger symbols are used
}

type SMT struct {
	NoAxioms bool // reachability covers are decided without the quantified background axioms
	typeOfID map[int]types.Type
	BV     bool
	decls  map[string]*Decl // symbol -> decl that introduces it
	all    []*Decl
	axioms []*Decl // assertions included when any symbol in .Name (space separated) is relevant
	fresh  int
	mu     sync.Mutex
	typeID map[string]int
	strs   map[string]string
}

func NewSMT(bv bool) *SMT {
	s := &SMT{BV: bv, decls: map[string]*Decl{}, typeID: map[string]int{}, strs: map[string]string{}}
	s.declare([]string{"Iface", "mk_iface", "ityp", "ival"}, "(declare-datatypes ((Iface 0)) (((mk_iface (ityp Int) (ival Int)))))")
	is := s.IntSort()
	s.declare([]string{"Slice", "mk_slice", "sl_ref", "sl_off", "sl_len", "sl_cap"},
		fmt.Sprintf("(declare-datatypes ((Slice 0)) (((mk_slice (sl_ref Int) (sl_off %s) (sl_len %s) (sl_cap %s)))))", is, is, is))
	return s
}

func (s *SMT) IntSort() string {
	if s.BV {
		return "(_ BitVec 64)"
	}
	return "Int"
}

func (s *SMT) declare(syms []string, text string) {
	d := &Decl{Name: syms[0], Text: text, Order: len(s.all)}
	s.all = append(s.all, d)
	for _, n := range syms {
		s.decls[n] = d
	}
}

func (s *SMT) has(sym string) bool { _, ok := s.decls[sym]; return ok }

func (s *SMT) DeclareConst(name, sort string) {
	if s.has(name) {
		return
	}
	s.declare([]string{name}, fmt.Sprintf("(declare-fun %s () %s)", name, sort))
}

func (s *SMT) DeclareFun(name string, args []string, ret string) {
	if s.has(name) {
		return
	}
	s.declare([]string{name}, fmt.Sprintf("(declare-fun %s (%s) %s)", name, strings.Join(args, " "), ret))
}

func (s *SMT) DefineFun(name string, text string) {
	if s.has(name) {
		return
	}
	s.declare([]string{name}, text)
}

// AddAxiom registers an assertion that is emitted whenever all/any of the
// trigger symbols is relevant to a query.
func (s *SMT) AddAxiom(triggers []string, assertion string) {
	d := &Decl{Name: strings.Join(triggers, " "), Text: "(assert " + assertion + ")", Order: len(s.all), Axiom: true}
	s.all = append(s.all, d)
	s.axioms = append(s.axioms, d)
}

func (s *SMT) Fresh(prefix, sort string) string {
	s.fresh++
	n := fmt.Sprintf("%s!%d", mangle(prefix), s.fresh)
	s.DeclareConst(n, sort)
	return n
}

func mangle(n string) string {
	var b strings.Builder
	for _, c := range n {
		if c >= 'a' && c <= 'z' || c >= 'A' && c <= 'Z' || c >= '0' && c <= '9' || c == '_' {
			b.WriteRune(c)
		} else {
			b.WriteRune('_')
		}
	}
	r := b.String()
	if r == "" || (r[0] >= '0' && r[0] <= '9') {
		r = "x" + r
	}
	return r
}

var symRe = regexp.MustCompile(`[A-Za-z_][A-Za-z0-9_!]*`)

// Relevant returns the declarations (in order) needed by the text.
func (s *SMT) Relevant(text string) string {
	need := map[*Decl]bool{}
	seenSym := map[string]bool{}
	var work []string
	add := func(t string) {
		for _, m := range symRe.FindAllString(t, -1) {
			if !seenSym[m] {
				seenSym[m] = true
				work = append(work, m)
			}
		}
	}
	add(text)
	for {
		for len(work) > 0 {
			sym := work[len(work)-1]
			work = work[:len(work)-1]
			if d, ok := s.decls[sym]; ok && !need[d] {
				need[d] = true
				add(d.Text)
			}
		}
		progress := false
		for _, a := range s.axioms {
			if s.NoAxioms && strings.Contains(a.Text, "forall") {
				continue
			}
			if need[a] {
				continue
			}
			ok := true
			for _, t := range strings.Fields(a.Name) {
				if !seenSym[t] {
					ok = false
					break
				}
			}
			if ok {
				need[a] = true
				add(a.Text)
				progress = true
			}
		}
		if !progress && len(work) == 0 {
			break
		}
	}
	var ds []*Decl
	for d := range need {
		ds = append(ds, d)
	}
	sort.Slice(ds, func(i, j int) bool {
		if ds[i].Axiom != ds[j].Axiom {
			return !ds[i].Axiom // declarations first, then axioms
		}
		return ds[i].Order < ds[j].Order
	})
	var b strings.Builder
	for _, d := range ds {
		b.WriteString(d.Text)
		b.WriteByte('\n')
	}
	return b.String()
}

// ---- sorts of Go types

func typeKey(t types.Type) string {
	s := types.TypeString(t, func(p *types.Package) string { return p.Path() })
	if len(s) > 60 {
		h := fnv.New32a()
		h.Write([]byte(s))
		return fmt.Sprintf("%s_%x", mangle(s[:40]), h.Sum32())
	}
	return mangle(s)
}

var typeNameReg = map[string]string{}
var typeNameMu sync.Mutex

func shortTypeName(t types.Type) string {
	if n, ok := t.(*types.Named); ok {
		nm := n.Obj().Name()
		if n.Obj().Pkg() != nil {
			nm = n.Obj().Pkg().Name() + "_" + nm
			// two packages with the same name (sync vs internal/sync): disambiguate by path hash
			full := n.Obj().Pkg().Path() + "." + n.Obj().Name()
			typeNameMu.Lock()
			if prev, ok := typeNameReg[nm]; ok && prev != full {
				h := fnv.New32a()
				h.Write([]byte(n.Obj().Pkg().Path()))
				nm = fmt.Sprintf("%s_%x", nm, h.Sum32()&0xffff)
			} else {
				typeNameReg[nm] = full
			}
			typeNameMu.Unlock()
		}
		if n.TypeArgs() != nil && n.TypeArgs().Len() > 0 {
			for i := 0; i < n.TypeArgs().Len(); i++ {
				nm += "_" + shortTypeName(n.TypeArgs().At(i))
			}
		}
		return mangle(nm)
	}
	if n, ok := t.(*types.Alias); ok {
		return shortTypeName(types.Unalias(n))
	}
	return typeKey(t)
}

func bvWidth(b *types.Basic) int {
	switch b.Kind() {
	case types.Int8, types.Uint8:
		return 8
	case types.Int16, types.Uint16:
		return 16
	case types.Int32, types.Uint32:
		return 32
	}
	return 64
}

func isUnsigned(t types.Type) bool {
	if b, ok := t.Underlying().(*types.Basic); ok {
		return b.Info()&types.IsUnsigned != 0
	}
	return false
}

func isInteger(t types.Type) bool {
	if b, ok := t.Underlying().(*types.Basic); ok {
		return b.Info()&types.IsInteger != 0
	}
	return false
}

// SortOf returns the SMT sort used for values of Go type t.
func (s *SMT) SortOf(t types.Type) string {
	t = types.Unalias(t)
	if tp, ok := t.(*types.TypeParam); ok {
		n := "TP_" + mangle(tp.Obj().Name())
		if !s.has(n) {
			s.declare([]string{n}, fmt.Sprintf("(declare-sort %s 0)", n))
		}
		return n
	}
	switch u := t.Underlying().(type) {
	case *types.Basic:
		switch {
		case u.Info()&types.IsBoolean != 0:
			return "Bool"
		case u.Info()&types.IsInteger != 0:
			if s.BV {
				return fmt.Sprintf("(_ BitVec %d)", bvWidth(u))
			}
			return "Int"
		case u.Info()&types.IsString != 0:
			return "String"
		case u.Info()&types.IsFloat != 0:
			return "Real"
		case u.Kind() == types.UnsafePointer:
			return "Int"
		case u.Kind() == types.UntypedNil:
			return "Int"
		}
		return "Int"
	case *types.Pointer, *types.Map, *types.Chan, *types.Signature:
		return "Int"
	case *types.Interface:
		return "Iface"
	case *types.Slice:
		return "Slice"
	case *types.Array:
		return fmt.Sprintf("(Array %s %s)", s.IntSort(), s.SortOf(u.Elem()))
	case *types.Struct:
		return s.structSort(t, u)
	case *types.Tuple:
		return "Int"
	}
	return "Int"
}

func (s *SMT) structSort(t types.Type, u *types.Struct) string {
	name := "S_" + shortTypeName(t)
	if s.has(name) {
		return name
	}
	// reserve the name first to cut recursion (recursion only through pointers, which are Int)
	s.decls[name] = &Decl{Name: name}
	var fs []string
	syms := []string{name, "mk_" + name}
	for i := 0; i < u.NumFields(); i++ {
		f := u.Field(i)
		acc := fmt.Sprintf("%s_%s", name, mangle(f.Name()))
		if f.Name() == "_" {
			acc = fmt.Sprintf("%s__%d", name, i)
		}
		fs = append(fs, fmt.Sprintf("(%s %s)", acc, s.SortOf(f.Type())))
		syms = append(syms, acc)
	}
	var text string
	if len(fs) == 0 {
		text = fmt.Sprintf("(declare-datatypes ((%s 0)) (((mk_%s))))", name, name)
	} else {
		text = fmt.Sprintf("(declare-datatypes ((%s 0)) (((mk_%s %s))))", name, name, strings.Join(fs, " "))
	}
	delete(s.decls, name)
	s.declare(syms, text)
	return name
}

func (s *SMT) structAcc(t types.Type, i int) string {
	u := t.Underlying().(*types.Struct)
	name := s.structSort(t, u)
	f := u.Field(i)
	if f.Name() == "_" {
		return fmt.Sprintf("%s__%d", name, i)
	}
	return fmt.Sprintf("%s_%s", name, mangle(f.Name()))
}

// structUpdate returns the term for v with field i replaced by nv.
func (s *SMT) structUpdate(t types.Type, v string, i int, nv string) string {
	u := t.Underlying().(*types.Struct)
	name := s.structSort(t, u)
	var parts []string
	for k := 0; k < u.NumFields(); k++ {
		if k == i {
			parts = append(parts, nv)
		} else {
			parts = append(parts, fmt.Sprintf("(%s %s)", s.structAcc(t, k), v))
		}
	}
	if len(parts) == 0 {
		return "mk_" + name
	}
	return fmt.Sprintf("(mk_%s %s)", name, strings.Join(parts, " "))
}

func (s *SMT) TypeID(t types.Type) int {
	k := types.TypeString(t, func(p *types.Package) string { return p.Path() })
	if id, ok := s.typeID[k]; ok {
		return id
	}
	id := len(s.typeID) + 1
	s.typeID[k] = id
	if s.typeOfID == nil {
		s.typeOfID = map[int]types.Type{}
	}
	s.typeOfID[id] = t
	return id
}

// ---- literals

func (s *SMT) IntLit(v *big.Int, t types.Type) string {
	if s.BV {
		w := 64
		if b, ok := t.Underlying().(*types.Basic); ok {
			w = bvWidth(b)
		}
		m := new(big.Int).Lsh(big.NewInt(1), uint(w))
		x := new(big.Int).Mod(v, m)
		return fmt.Sprintf("(_ bv%s %d)", x.String(), w)
	}
	if v.Sign() < 0 {
		return fmt.Sprintf("(- %s)", new(big.Int).Neg(v).String())
	}
	return v.String()
}

func (s *SMT) IntLitSort(v *big.Int, sort string) string {
	if strings.HasPrefix(sort, "(_ BitVec") {
		var w int
		fmt.Sscanf(sort, "(_ BitVec %d)", &w)
		m := new(big.Int).Lsh(big.NewInt(1), uint(w))
		x := new(big.Int).Mod(v, m)
		return fmt.Sprintf("(_ bv%s %d)", x.String(), w)
	}
	if v.Sign() < 0 {
		return fmt.Sprintf("(- %s)", new(big.Int).Neg(v).String())
	}
	return v.String()
}

func smtString(v string) string {
	var b strings.Builder
	b.WriteByte('"')
	for _, c := range []byte(v) {
		switch {
		case c == '"':
			b.WriteString(`""`)
		case c >= 32 && c < 127 && c != '\\':
			b.WriteByte(c)
		default:
			fmt.Fprintf(&b, `\u{%x}`, c)
		}
	}
	b.WriteByte('"')
	return b.String()
}

// ---- solver race

type SolveResult struct {
	Status string // unsat, sat, unknown, timeout, error
	Solver string
	Time   float64
	Output string
	Model  map[string]string
}

var solverCmds = [][]string{
	{"z3-new", "-in", "-smt2"},
	{"z3", "-in", "-smt2"},
	{"cvc5", "--lang=smt2", "--strings-exp", "--produce-models"},
}

var SolverSet = []int{0, 1, 2}

func runSolver(ctx context.Context, idx int, query string, timeout time.Duration) SolveResult {
	cmdv := solverCmds[idx]
	args := append([]string{}, cmdv[1:]...)
	switch idx {
	case 0, 1:
		args = append(args, fmt.Sprintf("-T:%d", int(timeout.Seconds())+1))
	case 2:
		args = append(args, fmt.Sprintf("--tlimit=%d", timeout.Milliseconds()))
	}
	cctx, cancel := context.WithTimeout(ctx, timeout+2*time.Second)
	defer cancel()
	cmd := exec.CommandContext(cctx, cmdv[0], args...)
	cmd.Stdin = strings.NewReader(query)
	var out bytes.Buffer
	cmd.Stdout = &out
	cmd.Stderr = &out
	t0 := time.Now()
	cmd.Run()
	el := time.Since(t0).Seconds()
	o := out.String()
	first := ""
	for _, l := range strings.Split(o, "\n") {
		l = strings.TrimSpace(l)
		if l == "" || strings.HasPrefix(l, "WARNING") {
			continue // e.g. z3's "'not' cannot be used in patterns"
		}
		first = l
		break
	}
	r := SolveResult{Solver: cmdv[0], Time: el, Output: o}
	switch first {
	case "unsat", "sat", "unknown":
		r.Status = first
	default:
		if ctx.Err() != nil {
			r.Status = "cancelled"
		} else if cctx.Err() != nil || strings.Contains(o, "timeout") || strings.Contains(o, "interrupted") {
			r.Status = "timeout"
		} else {
			r.Status = "error"
		}
	}
	return r
}

// Solve races the solvers; first definite answer (sat/unsat) wins.
func Solve(query string, timeout time.Duration, crossCheck bool) (SolveResult, []SolveResult) {
	ctx, cancel := context.WithCancel(context.Background())
	defer cancel()
	ch := make(chan SolveResult, len(SolverSet))
	for _, i := range SolverSet {
		go func(i int) { ch <- runSolver(ctx, i, query, timeout) }(i)
	}
	var all []SolveResult
	var best *SolveResult
	for range SolverSet {
		r := <-ch
		all = append(all, r)
		if r.Status == "sat" || r.Status == "unsat" {
			if best == nil {
				rr := r
				best = &rr
				if !crossCheck {
					cancel()
				}
			} else if crossCheck && best.Status != r.Status {
				rr := r
				rr.Status = "error"
				rr.Output = fmt.Sprintf("SOLVER DISAGREEMENT: %s says %s, %s says %s", best.Solver, best.Status, r.Solver, r.Status)
				return rr, all
			}
		}
	}
	if best != nil {
		return *best, all
	}
	// no definite answer: prefer unknown over timeout over error
	pick := all[0]
	rank := map[string]int{"unknown": 3, "timeout": 2, "error": 1, "cancelled": 0}
	for _, r := range all {
		if rank[r.Status] > rank[pick.Status] {
			pick = r
		}
	}
	return pick, all
}

// parseGetValue parses "((a 1) (b (- 2)) ...)" output of (get-value ...).
func parseGetValue(out string) map[string]string {
	m := map[string]string{}
	i := strings.Index(out, "((")
	if i < 0 {
		return m
	}
	s := out[i+1:]
	// iterate top-level pairs
	depth := 0
	start := -1
	for k := 0; k < len(s); k++ {
		switch s[k] {
		case '"':
			// skip string literal
			k++
			for k < len(s) {
				if s[k] == '"' {
					if k+1 < len(s) && s[k+1] == '"' {
						k += 2
						continue
					}
					break
				}
				k++
			}
		case '(':
			if depth == 0 {
				start = k
			}
			depth++
		case ')':
			depth--
			if depth == 0 && start >= 0 {
				pair := s[start+1 : k]
				// key is first sexpr
				key, val := splitFirstSexpr(pair)
				m[strings.TrimSpace(key)] = strings.TrimSpace(val)
				start = -1
			}
			if depth < 0 {
				return m
			}
		}
	}
	return m
}

func splitFirstSexpr(s string) (string, string) {
	s = strings.TrimSpace(s)
	if s == "" {
		return "", ""
	}
	if s[0] != '(' {
		i := strings.IndexAny(s, " \t\n")
		if i < 0 {
			return s, ""
		}
		return s[:i], s[i+1:]
	}
	d := 0
	for k := 0; k < len(s); k++ {
		switch s[k] {
		case '(':
			d++
		case ')':
			d--
			if d == 0 {
				return s[:k+1], s[k+1:]
			}
		}
	}
	return s, ""
}

func writeFileMk(path, content string) error {
	os.MkdirAll(filepath.Dir(path), 0o755)
	return os.WriteFile(path, []byte(content), 0o644)
}
