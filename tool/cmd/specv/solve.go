package main

import (
	"crypto/sha256"
	"fmt"
	"go/types"
	"os"
	"path/filepath"
	"regexp"
	"sort"
	"strings"
	"sync"
	"sync/atomic"
	"time"
)

type OblResult struct {
	Name      string            `json:"name"`
	Kind      string            `json:"kind"`
	Src       string            `json:"src,omitempty"`
	Status    string            `json:"status"` // discharged, failed, undischarged, trivial, cover-ok, cover-vacuous, cover-unknown
	Solver    string            `json:"solver,omitempty"`
	Time      float64           `json:"solver_time_s"`
	MaxQuery  float64           `json:"max_query_s"` // slowest single path query (stability indicator)
	Paths     int               `json:"paths"`
	Model     map[string]string `json:"model,omitempty"`
	FailPath  int               `json:"failed_path,omitempty"`
	Output    string            `json:"solver_output,omitempty"`
	QueryFile string            `json:"query_file,omitempty"`
	Trace     []string          `json:"trace,omitempty"`
	Unit      string            `json:"unit"`
	query     string
}

type UnitResult struct {
	Unit        string
	Err         string
	Obls        []*OblResult
	Assumptions []string
	Unmodelled  []string
	UsedContr   []string
	UsedLib     []string
	Paths       int
	Arith       string
	Wall        float64
	SampleQuery string
}

var (
	// the slowest single query of the quick tier takes about 6 s on a loaded 16-core machine (evidence key
	// max_query_s); the limits leave a factor of five so that a busy harness does not turn a proof into an alarm
	quickTimeout    = 30 * time.Second
	fastTimeout     = 5 * time.Second
	workers         = 14
	crossCheck      = false
	queryCache      sync.Map
	totalSolverTime float64
	stMu            sync.Mutex
	buildMu         sync.Mutex
)

func (e *Engine) modelTerms() []string {
	var ts []string
	seen := map[string]bool{}
	add := func(t string) {
		if !seen[t] {
			seen[t] = true
			ts = append(ts, t)
		}
	}
	for _, in := range e.inputs {
		switch u := in.Typ.Underlying().(type) {
		case *types.Slice:
			add(fmt.Sprintf("(sl_len %s)", in.Term))
			add(fmt.Sprintf("(sl_cap %s)", in.Term))
			add(fmt.Sprintf("(sl_ref %s)", in.Term))
			name, _ := e.arrMapName(u.Elem())
			if _, ok := e.heapSorts[name]; ok {
				for i := 0; i < 6; i++ {
					add(fmt.Sprintf("(select (select %s!0 (sl_ref %s)) %s)", name, in.Term, e.slIdx(in.Term, e.intLit(int64(i), tInt))))
				}
			}
		case *types.Pointer:
			add(in.Term)
			if st, ok := u.Elem().Underlying().(*types.Struct); ok {
				for i := 0; i < st.NumFields(); i++ {
					name, _ := e.fieldMapName(u.Elem(), i)
					if _, ok := e.heapSorts[name]; ok {
						add(fmt.Sprintf("(select %s!0 %s)", name, in.Term))
					}
				}
			}
		default:
			add(in.Term)
		}
	}
	return ts
}

func (e *Engine) buildQuery(p *OblPath, withModel bool, uses []string) string {
	var b strings.Builder
	var body strings.Builder
	isCover := p.Goal == "false" && !withModel
	for _, a := range uses {
		if isCover && strings.Contains(a, "forall") {
			continue // reachability covers are decided without the quantified background facts
		}
		body.WriteString("(assert " + a + ")\n")
	}
	for _, c := range p.PC {
		body.WriteString("(assert " + c + ")\n")
	}
	body.WriteString("(assert (not " + p.Goal + "))\n")
	mt := ""
	if withModel {
		ts := e.modelTerms()
		// ground applications of pure (uninterpreted) functions that occur on this path
		bs := body.String()
		seenT := map[string]bool{}
		for i := 0; i+6 < len(bs) && len(seenT) < 40; i++ {
			if strings.HasPrefix(bs[i:], "(pure_") {
				if j := matchParen(bs, i); j > 0 {
					t := bs[i : j+1]
					if !seenT[t] && !boundVarRe.MatchString(t) && len(t) < 400 {
						seenT[t] = true
						ts = append(ts, t)
					}
				}
			}
		}
		if len(ts) > 0 {
			mt = "(get-value (" + strings.Join(ts, " ") + "))\n"
		}
	}
	e.S.NoAxioms = p.Goal == "false" && !withModel
	decls := e.S.Relevant(body.String() + mt)
	e.S.NoAxioms = false
	// pure bit-vector goals go to the bit-blasting engines
	logic := "ALL"
	all := decls + body.String()
	if e.S.BV && !strings.Contains(all, "forall") && !strings.Contains(all, "exists") && !strings.Contains(all, "Array") &&
		!strings.Contains(all, "declare-datatypes") && !strings.Contains(all, "String") && !strings.Contains(all, " Int") && !strings.Contains(all, "declare-sort") {
		logic = "QF_UFBV"
		if !strings.Contains(all, "declare-fun") || !hasNonConstFun(all) {
			logic = "QF_BV"
		}
	}
	b.WriteString("(set-option :produce-models true)\n(set-logic " + logic + ")\n")
	b.WriteString(decls)
	b.WriteString(body.String())
	b.WriteString("(check-sat)\n")
	b.WriteString(mt)
	if e.unit != nil && e.unit.C != nil && e.unit.C.Opts["strings"] == "abstract" {
		return abstractStrings(b.String())
	}
	return b.String()
}

var boundVarRe = regexp.MustCompile(`![qfhsapc]\d*\b|\b[a-z]!\d|r!f|i!h|i!p|j!p|i!a|i!c`)

type pathJob struct {
	obl   *Obl
	idx   int
	query string
	res   SolveResult
}

func solveQuery(q string, timeout time.Duration) SolveResult {
	h := sha256.Sum256([]byte(q))
	key := fmt.Sprintf("%x", h[:16])
	if v, ok := queryCache.Load(key); ok {
		return v.(SolveResult)
	}
	if len(q) > 2<<20 {
		return SolveResult{Status: "error", Output: "tool limit: query larger than 2 MB"}
	}
	// fast path: newest z3 alone (quantifier-free bit-vector goals are raced at once: cvc5 is often the quickest there)
	var r SolveResult
	if strings.Contains(q[:min(len(q), 120)], "(set-logic QF_") {
		r = SolveResult{Status: "skipped"}
	} else {
		r = runSolverSimple(0, q, fastTimeout)
	}
	if r.Status != "sat" && r.Status != "unsat" {
		rr, _ := Solve(q, timeout, false)
		rr.Time += r.Time
		r = rr
	} else if crossCheck {
		rr, _ := Solve(q, timeout, true)
		if rr.Status == "error" {
			r = rr
		}
	}
	stMu.Lock()
	totalSolverTime += r.Time
	stMu.Unlock()
	queryCache.Store(key, r)
	return r
}

func runSolverSimple(idx int, q string, t time.Duration) SolveResult {
	return runSolver(bgCtx(), idx, q, t)
}

// SolveUnit discharges all obligations collected by the engine.
func (e *Engine) SolveUnit(unitName string, uses []string) []*OblResult {
	var jobs []*pathJob
	for _, name := range e.oblOrder {
		o := e.obls[name]
		for i, p := range o.Paths {
			if o.Expect == "sat" && i > 0 {
				break // covers: one reachable path is enough; the others are tried lazily below
			}
			jobs = append(jobs, &pathJob{obl: o, idx: i, query: e.buildQuery(p, o.Expect != "sat", uses)})
		}
	}
	var wg sync.WaitGroup
	ch := make(chan *pathJob)
	for w := 0; w < workers; w++ {
		wg.Add(1)
		go func() {
			defer wg.Done()
			for j := range ch {
				if j.obl.Expect != "sat" && atomic.LoadInt32(&j.obl.failed) != 0 {
					// another path of this obligation already failed: no need to burn solver time
					j.res = SolveResult{Status: "unsat", Solver: "skipped"}
					continue
				}
				jt := quickTimeout
				if j.obl.Kind == "reach" {
					jt = fastTimeout
				}
				j.res = solveQuery(j.query, jt)
				if j.obl.Expect != "sat" && j.res.Status != "unsat" && j.res.Status != "sat" {
					// undecided as a whole: conjuncts of the goal one by one, then with single quantified
					// hypotheses left out (splitgoal.go); both only ever weaken what is assumed
					e.solveByParts(j, uses)
				}
				if j.obl.Expect != "sat" && j.res.Status != "unsat" {
					atomic.StoreInt32(&j.obl.failed, 1)
				}
			}
		}()
	}
	for _, j := range jobs {
		ch <- j
	}
	close(ch)
	wg.Wait()
	by := map[*Obl][]*pathJob{}
	for _, j := range jobs {
		by[j.obl] = append(by[j.obl], j)
	}
	var out []*OblResult
	for _, name := range e.oblOrder {
		o := e.obls[name]
		r := &OblResult{Name: o.Name, Kind: o.Kind, Src: o.Src, Paths: len(o.Paths), Unit: unitName}
		js := by[o]
		if o.Expect == "sat" {
			r.Status = "cover-vacuous"
			for _, j := range js {
				r.Time += j.res.Time
				if j.res.Status == "sat" {
					r.Status = "cover-ok"
					r.Solver = j.res.Solver
					break
				}
				if j.res.Status != "unsat" {
					r.Status = "cover-unknown"
				}
				r.query = j.query
			}
			// branch-edge probes are diagnostics: they get the short time limit and a bounded number of paths, so
			// that an edge no path of the model takes costs seconds, not (paths x solvers x the long limit)
			tmo, maxTry := quickTimeout, len(o.Paths)
			if o.Kind == "reach" {
				tmo = fastTimeout
				if maxTry > 3 {
					maxTry = 3
				}
			}
			if r.Status == "cover-unknown" {
				// satisfiability with quantified path facts is often undecided: retry the same paths without the
				// quantified conjuncts (a weaker guard against contradictory assumptions, but still a guard against
				// contradictory ground preconditions and dead code)
				for i := 0; i < maxTry; i++ {
					res := solveQuery(stripQuantified(e.buildQuery(o.Paths[i], false, uses)), tmo)
					r.Time += res.Time
					if res.Status == "sat" {
						r.Status = "cover-ok"
						r.Solver = res.Solver + " (ground part)"
						break
					}
				}
			}
			if r.Status != "cover-ok" && o.Kind != "reach" {
				for i := 1; i < maxTry; i++ {
					res := solveQuery(e.buildQuery(o.Paths[i], false, uses), tmo)
					r.Time += res.Time
					if res.Status == "sat" {
						r.Status = "cover-ok"
						r.Solver = res.Solver
						break
					}
					if res.Status != "unsat" {
						r.Status = "cover-unknown"
					}
				}
			}
			if len(o.Paths) == 0 {
				r.Status = "cover-vacuous"
			}
			out = append(out, r)
			continue
		}
		if len(js) == 0 {
			r.Status = "trivial"
			out = append(out, r)
			continue
		}
		r.Status = "discharged"
		solvers := map[string]bool{}
		if d := os.Getenv("SPECV_ALLQ"); d != "" {
			// development aid: keep the query of every path of every obligation
			for _, j := range js {
				saveQuery(d, fmt.Sprintf("%s_path%d_%s", o.Name, j.idx, j.res.Status), j.query)
			}
		}
		for _, j := range js {
			r.Time += j.res.Time
			if j.res.Time > r.MaxQuery {
				r.MaxQuery = j.res.Time
			}
			solvers[j.res.Solver] = true
			if j.res.Status == "unsat" {
				continue
			}
			if j.res.Status == "sat" {
				r.Status = "failed"
				r.Model = parseGetValue(j.res.Output)
				r.Model = e.prettyModel(r.Model)
				r.FailPath = j.idx
				r.Output = truncate(j.res.Output, 4000)
				r.query = j.query
				r.Trace = o.Paths[j.idx].Trace
				r.Solver = j.res.Solver
				break
			}
			if r.Status == "discharged" {
				r.Status = "undischarged"
				r.FailPath = j.idx
				r.Output = j.res.Status + ": " + truncate(j.res.Output, 2000)
				// an "unknown" answer may still carry a candidate model: it is only trusted if it replays
				if m := parseGetValue(j.res.Output); len(m) > 0 {
					r.Model = e.prettyModel(m)
				}
				r.query = j.query
				r.Trace = o.Paths[j.idx].Trace
				r.Solver = j.res.Solver
			}
		}
		if r.Status == "discharged" {
			var ss []string
			for s := range solvers {
				ss = append(ss, s)
			}
			sort.Strings(ss)
			r.Solver = strings.Join(ss, ",")
			if len(js) > 0 {
				r.query = js[0].query
			}
		}
		out = append(out, r)
	}
	if reachProbes {
		// diagnostics (never obligations): is each contract clause evaluated on at least one path that the model
		// can take? A clause all of whose paths are infeasible was proved vacuously.
		for _, name := range e.oblOrder {
			o := e.obls[name]
			if o.Expect == "sat" || len(o.Paths) == 0 || (o.Kind != "assert" && o.Kind != "ensures" && o.Kind != "invariant" && o.Kind != "call-pre") {
				continue
			}
			r := &OblResult{Name: o.Name + ".reached", Kind: "reach", Src: "the clause is evaluated on a feasible path", Paths: len(o.Paths), Unit: unitName, Status: "cover-vacuous"}
			for i, p := range o.Paths {
				if i >= 64 {
					break
				}
				res := solveQuery(stripQuantified(e.buildQuery(&OblPath{PC: p.PC, Goal: "false"}, false, uses)), fastTimeout)
				r.Time += res.Time
				if res.Status == "sat" {
					r.Status = "cover-ok"
					break
				}
				if res.Status != "unsat" {
					r.Status = "cover-unknown"
				}
			}
			out = append(out, r)
		}
	}
	return out
}

func (e *Engine) prettyModel(m map[string]string) map[string]string {
	out := map[string]string{}
	for _, in := range e.inputs {
		for k, v := range m {
			if strings.Contains(k, in.Term) {
				out[strings.ReplaceAll(k, in.Term, in.Name)] = truncate(strings.Join(strings.Fields(v), " "), 300)
			}
		}
	}
	return out
}

// stripQuantified drops every top-level assertion that contains a quantifier from a query.
func stripQuantified(q string) string {
	var b strings.Builder
	for _, ln := range strings.Split(q, "\n") {
		if strings.HasPrefix(ln, "(assert") && (strings.Contains(ln, "(forall ") || strings.Contains(ln, "(exists ")) {
			continue
		}
		b.WriteString(ln)
		b.WriteString("\n")
	}
	return b.String()
}

// isErrName: package-level sentinel errors are named Err… (exported) or err… (unexported).
func isErrName(n string) bool {
	return strings.HasPrefix(n, "Err") || strings.HasPrefix(n, "err") || n == "EOF"
}

func truncate(s string, n int) string {
	if len(s) > n {
		return s[:n] + "…"
	}
	return s
}

func saveQuery(dir, name, q string) string {
	p := filepath.Join(dir, mangle(name)+".smt2")
	os.MkdirAll(dir, 0o755)
	os.WriteFile(p, []byte(q), 0o644)
	return p
}
