package main

// Contract files: comment-only Go files (//go:build verif) inside the
// repository packages, plus *.spec files with assumed library contracts.
// Only lines starting with "//@" are read.

import (
	"fmt"
	"os"
	"regexp"
	"strings"
)

type Clause struct {
	Label string
	Src   string
	E     Expr
	Line  int
	File  string
}

type LoopSpec struct {
	Anchor    string
	Invs      []*Clause
	Decreases *Clause
	Unroll    int
}

type AtSpec struct {
	Anchor string
	Kind   string // assert, assume, ghost
	Var    string // for ghost
	C      *Clause
}

type Param struct {
	Name string
	Type string
}

type GhostDecl struct {
	Name string
	Type string
	Init *Clause
}

type Contract struct {
	Kind      string // func, interface, lib
	Key       string // e.g. "(*LocalNode).FindSuccessor", "Between", "VNode.FindSuccessor", "strings.ToLower"
	Pkg       string // import path the contract file belongs to ("" for lib)
	Params    []Param
	Results   []Param
	RecvName  string
	Arith     string // "int" (default) or "bv"
	Requires  []*Clause
	Ensures   []*Clause
	Assumes   []*Clause
	Modifies  []string
	ModAll    bool
	Decreases *Clause
	Loops     []*LoopSpec
	Ats       []*AtSpec
	Ghosts    []*GhostDecl
	Inline    bool
	Trusted   bool // contract is assumed, body not verified (listed in evidence)
	Safety    map[string]bool
	SafetySet bool
	Uses      []string // lemma names / axiom groups to bring into scope
	Pure      bool     // usable in specs as uninterpreted function
	File      string
	Line      int
	Opts      map[string]string
}

type SpecFunc struct {
	Name    string
	Params  []Param
	Result  string
	Body    *Clause // nil => uninterpreted
	Rec     bool
	File    string
	Pkg     string
	Generic bool
	Macro   bool
}

type Axiom struct {
	Name  string
	C     *Clause
	Group string
	Pkg   string
	Lemma bool // lemma: proved as an obligation, then usable
	Uses  []string
}

type ContractFile struct {
	Path      string
	Pkg       string
	Contracts []*Contract
	Specs     []*SpecFunc
	Axioms    []*Axiom
	Pures     []string
	Consts    []Param
	Sorts     []string
	AbsFields []AbsField
}

var keywordRe = regexp.MustCompile(`^(spec|macro|axiom|lemma|pure|func|interface|lib|arith|requires|ensures|modifies|decreases|loop|at|ghost|inline|assume|safety|use|const|sort|trusted|opt|absfield)\b`)

// AbsField declares an abstract (ghost) field of a named type, e.g. the content of a library map.
type AbsField struct {
	Type  string // qualified type name (pkgpath.Name) or local name
	Name  string
	FType string
}
var labelRe = regexp.MustCompile(`^([A-Za-z][A-Za-z0-9_\-\.]*):\s+(.*)$`)

type rawLine struct {
	text string
	line int
}

func readContractLines(path string) ([]rawLine, error) {
	b, err := os.ReadFile(path)
	if err != nil {
		return nil, err
	}
	var out []rawLine
	isSpec := strings.HasSuffix(path, ".spec")
	for i, l := range strings.Split(string(b), "\n") {
		t := strings.TrimSpace(l)
		if isSpec {
			if strings.HasPrefix(t, "#") || t == "" {
				continue
			}
			out = append(out, rawLine{t, i + 1})
			continue
		}
		if !strings.HasPrefix(t, "//@") {
			continue
		}
		t = strings.TrimSpace(strings.TrimPrefix(t, "//@"))
		if t == "" || strings.HasPrefix(t, "#") {
			continue
		}
		out = append(out, rawLine{t, i + 1})
	}
	// join continuation lines
	var joined []rawLine
	for _, r := range out {
		if keywordRe.MatchString(r.text) || len(joined) == 0 {
			joined = append(joined, r)
		} else {
			joined[len(joined)-1].text += " " + r.text
		}
	}
	return joined, nil
}

func mkClause(src, file string, line int, allowLabel bool) (*Clause, error) {
	c := &Clause{Src: src, File: file, Line: line}
	if allowLabel {
		if m := labelRe.FindStringSubmatch(src); m != nil && !strings.HasPrefix(m[2], "=") {
			c.Label = m[1]
			c.Src = m[2]
		}
	}
	e, err := ParseExpr(c.Src)
	if err != nil {
		return nil, fmt.Errorf("%s:%d: %v", file, line, err)
	}
	c.E = e
	return c, nil
}

var funcHdrRe = regexp.MustCompile(`^(?:\(\s*(?:(\w+)\s+)?(\*?)\s*([\w\./\-]+)(?:\[[^\]]*\])?\s*\)\s*)?([\w\./\-\$#@]+)\s*(?:\[[^\]]*\])?\s*(?:\((.*?)\))?\s*(?:\((.*)\)|([\w\.\*\[\]]+))?\s*$`)

func parseParams(s string) []Param {
	s = strings.TrimSpace(s)
	if s == "" {
		return nil
	}
	var out []Param
	var pend []string
	for _, part := range splitTop(s, ',') {
		part = strings.TrimSpace(part)
		f := strings.Fields(part)
		if len(f) == 1 {
			pend = append(pend, f[0])
			continue
		}
		ty := strings.Join(f[1:], " ")
		for _, n := range pend {
			out = append(out, Param{n, ty})
		}
		pend = nil
		out = append(out, Param{f[0], ty})
	}
	for _, n := range pend { // types only / names only
		out = append(out, Param{n, ""})
	}
	return out
}

func splitTop(s string, sep rune) []string {
	var out []string
	depth := 0
	last := 0
	for i, c := range s {
		switch c {
		case '(', '[', '{':
			depth++
		case ')', ']', '}':
			depth--
		}
		if c == sep && depth == 0 {
			out = append(out, s[last:i])
			last = i + 1
		}
	}
	out = append(out, s[last:])
	return out
}

func ParseContractFile(path, pkg string) (*ContractFile, error) {
	lines, err := readContractLines(path)
	if err != nil {
		return nil, err
	}
	cf := &ContractFile{Path: path, Pkg: pkg}
	var cur *Contract
	for _, r := range lines {
		kw := keywordRe.FindString(r.text)
		rest := strings.TrimSpace(strings.TrimPrefix(r.text, kw))
		fail := func(f string, a ...any) error {
			return fmt.Errorf("%s:%d: %s", path, r.line, fmt.Sprintf(f, a...))
		}
		switch kw {
		case "sort":
			cf.Sorts = append(cf.Sorts, rest)
			cur = nil
		case "absfield":
			f := strings.Fields(rest)
			if len(f) < 3 {
				return nil, fail("absfield <type> <name> <fieldtype>")
			}
			cf.AbsFields = append(cf.AbsFields, AbsField{Type: f[0], Name: f[1], FType: strings.Join(f[2:], " ")})
			cur = nil
		case "spec", "macro":
			// spec name(params) type [= expr]; a macro is expanded in the caller's state (it may read the heap)
			i := strings.Index(rest, "(")
			j := matchParen(rest, i)
			if i < 0 || j < 0 {
				return nil, fail("bad spec header")
			}
			sf := &SpecFunc{Name: strings.TrimSpace(rest[:i]), Params: parseParams(rest[i+1 : j]), File: path, Pkg: pkg, Macro: kw == "macro"}
			tail := strings.TrimSpace(rest[j+1:])
			if k := strings.Index(tail, "="); k >= 0 && !strings.HasPrefix(tail[k:], "==") {
				sf.Result = strings.TrimSpace(tail[:k])
				c, err := mkClause(strings.TrimSpace(tail[k+1:]), path, r.line, false)
				if err != nil {
					return nil, err
				}
				sf.Body = c
			} else {
				sf.Result = tail
			}
			if strings.HasPrefix(sf.Result, "rec ") {
				sf.Rec = true
				sf.Result = strings.TrimSpace(sf.Result[4:])
			}
			cf.Specs = append(cf.Specs, sf)
			cur = nil
		case "axiom", "lemma":
			c, err := mkClause(rest, path, r.line, true)
			if err != nil {
				return nil, err
			}
			name := c.Label
			if name == "" {
				name = fmt.Sprintf("%s#%d", kw, len(cf.Axioms)+1)
			}
			group := name
			if k := strings.Index(name, "."); k > 0 {
				group = name[:k]
			}
			cf.Axioms = append(cf.Axioms, &Axiom{Name: name, C: c, Group: group, Pkg: pkg, Lemma: kw == "lemma"})
			cur = nil
		case "pure":
			if rest == "" && cur != nil {
				cur.Pure = true
				continue
			}
			cf.Pures = append(cf.Pures, rest)
			cur = nil
		case "const":
			cf.Consts = append(cf.Consts, parseParams(rest)...)
			cur = nil
		case "func", "interface", "lib":
			m := parseFuncHeader(rest)
			if m == nil {
				return nil, fail("bad %s header: %q", kw, rest)
			}
			cur = &Contract{Kind: kw, Pkg: pkg, File: path, Line: r.line, Arith: "int", Opts: map[string]string{}}
			name := m[4]
			if m[3] != "" {
				cur.RecvName = m[1]
				if m[2] == "*" {
					cur.Key = "(*" + m[3] + ")." + name
				} else {
					cur.Key = "(" + m[3] + ")." + name
				}
			} else {
				cur.Key = name
			}
			cur.Params = parseParams(m[5])
			if m[6] != "" {
				cur.Results = parseParams(m[6])
			} else if m[7] != "" {
				cur.Results = []Param{{"", m[7]}}
			}
			cf.Contracts = append(cf.Contracts, cur)
		default:
			if cur == nil {
				return nil, fail("clause %q outside a func/interface/lib block", kw)
			}
			switch kw {
			case "arith":
				cur.Arith = rest
			case "inline":
				cur.Inline = true
			case "trusted":
				cur.Trusted = true
			case "pure":
				cur.Pure = true
			case "opt":
				kv := strings.SplitN(rest, "=", 2)
				if len(kv) == 2 {
					cur.Opts[strings.TrimSpace(kv[0])] = strings.TrimSpace(kv[1])
				} else {
					cur.Opts[rest] = "true"
				}
			case "use":
				for _, u := range strings.Split(rest, ",") {
					cur.Uses = append(cur.Uses, strings.TrimSpace(u))
				}
			case "safety":
				cur.SafetySet = true
				cur.Safety = map[string]bool{}
				for _, u := range strings.Split(rest, ",") {
					cur.Safety[strings.TrimSpace(u)] = true
				}
			case "requires", "ensures", "assume", "decreases":
				c, err := mkClause(rest, path, r.line, true)
				if err != nil {
					return nil, err
				}
				switch kw {
				case "requires":
					if c.Label == "" {
						c.Label = fmt.Sprintf("#%d", len(cur.Requires)+1)
					}
					cur.Requires = append(cur.Requires, c)
				case "ensures":
					if c.Label == "" {
						c.Label = fmt.Sprintf("#%d", len(cur.Ensures)+1)
					}
					cur.Ensures = append(cur.Ensures, c)
				case "assume":
					if c.Label == "" {
						c.Label = fmt.Sprintf("#%d", len(cur.Assumes)+1)
					}
					cur.Assumes = append(cur.Assumes, c)
				case "decreases":
					cur.Decreases = c
				}
			case "modifies":
				if rest == "*" {
					cur.ModAll = true
				} else {
					for _, u := range splitTop(rest, ',') {
						cur.Modifies = append(cur.Modifies, strings.TrimSpace(u))
					}
				}
			case "ghost":
				// ghost name type [= expr]
				g := &GhostDecl{}
				lhs := rest
				if k := strings.Index(rest, "="); k >= 0 {
					lhs = strings.TrimSpace(rest[:k])
					c, err := mkClause(strings.TrimSpace(rest[k+1:]), path, r.line, false)
					if err != nil {
						return nil, err
					}
					g.Init = c
				}
				f := strings.Fields(lhs)
				if len(f) < 2 {
					return nil, fail("bad ghost decl")
				}
				g.Name, g.Type = f[0], strings.Join(f[1:], " ")
				cur.Ghosts = append(cur.Ghosts, g)
			case "loop":
				// loop <anchor>: invariant e | decreases e | unroll k
				k := strings.Index(rest, ":")
				if k < 0 {
					return nil, fail("bad loop clause")
				}
				anchor := strings.TrimSpace(rest[:k])
				body := strings.TrimSpace(rest[k+1:])
				var ls *LoopSpec
				for _, l := range cur.Loops {
					if l.Anchor == anchor {
						ls = l
					}
				}
				if ls == nil {
					ls = &LoopSpec{Anchor: anchor}
					cur.Loops = append(cur.Loops, ls)
				}
				switch {
				case strings.HasPrefix(body, "invariant"):
					c, err := mkClause(strings.TrimSpace(strings.TrimPrefix(body, "invariant")), path, r.line, true)
					if err != nil {
						return nil, err
					}
					if c.Label == "" {
						c.Label = fmt.Sprintf("#%d", len(ls.Invs)+1)
					}
					ls.Invs = append(ls.Invs, c)
				case strings.HasPrefix(body, "decreases"):
					c, err := mkClause(strings.TrimSpace(strings.TrimPrefix(body, "decreases")), path, r.line, false)
					if err != nil {
						return nil, err
					}
					ls.Decreases = c
				case strings.HasPrefix(body, "unroll"):
					fmt.Sscanf(strings.TrimSpace(strings.TrimPrefix(body, "unroll")), "%d", &ls.Unroll)
				default:
					return nil, fail("bad loop clause body %q", body)
				}
			case "at":
				k := strings.Index(rest, ":")
				if k < 0 {
					return nil, fail("bad at clause")
				}
				anchor := strings.TrimSpace(rest[:k])
				body := strings.TrimSpace(rest[k+1:])
				as := &AtSpec{Anchor: anchor}
				switch {
				case strings.HasPrefix(body, "havoc "):
					// at <anchor>: havoc p.a, p.b -- other threads may change these locations here (a blocking
					// call that releases a mutex); follow it with an `assume` of the monitor invariant
					as.Kind = "havoc"
					as.Var = strings.TrimSpace(strings.TrimPrefix(body, "havoc"))
					as.C = &Clause{Label: anchor, Src: body}
					cur.Ats = append(cur.Ats, as)
					continue
				case strings.HasPrefix(body, "assert"):
					as.Kind = "assert"
					body = strings.TrimSpace(strings.TrimPrefix(body, "assert"))
				case strings.HasPrefix(body, "assume"):
					as.Kind = "assume"
					body = strings.TrimSpace(strings.TrimPrefix(body, "assume"))
				case strings.HasPrefix(body, "ghost"):
					as.Kind = "ghost"
					body = strings.TrimSpace(strings.TrimPrefix(body, "ghost"))
					kk := strings.Index(body, ":=")
					if kk < 0 {
						return nil, fail("bad ghost update")
					}
					as.Var = strings.TrimSpace(body[:kk])
					body = strings.TrimSpace(body[kk+2:])
				default:
					return nil, fail("bad at clause body %q", body)
				}
				c, err := mkClause(body, path, r.line, as.Kind != "ghost")
				if err != nil {
					return nil, err
				}
				if c.Label == "" {
					c.Label = anchor
				}
				as.C = c
				cur.Ats = append(cur.Ats, as)
			}
		}
	}
	return cf, nil
}

func matchParen(s string, i int) int {
	if i < 0 {
		return -1
	}
	d := 0
	for j := i; j < len(s); j++ {
		switch s[j] {
		case '(':
			d++
		case ')':
			d--
			if d == 0 {
				return j
			}
		}
	}
	return -1
}
