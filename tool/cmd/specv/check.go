package main

import (
	"encoding/json"
	"fmt"
	"os"
	"os/exec"
	"path/filepath"
	"regexp"
	"sort"
	"strconv"
	"strings"
	"time"
)

type CheckDef struct {
	Title       string   `json:"title"`
	Units       []string `json:"units"`
	Thorough    []string `json:"thorough_units,omitempty"` // extra units only in the thorough tier
	Depends     []string `json:"depends_on,omitempty"`     // other property ids whose units are also run
	LevelText   string   `json:"level_text"`
	NotDecided  []string `json:"not_decided,omitempty"`
	Trusted     []string `json:"trusted,omitempty"`
	MinObls     int      `json:"min_obligations"`
	Bounded     []string `json:"bounded_standins,omitempty"`
	BoundedRuns []BoundedDef `json:"bounded_runs,omitempty"`
	ExtraPkgs   []string `json:"extra_packages,omitempty"`
	Scripts     []string `json:"scripts,omitempty"` // auxiliary deductive checks (name registered in scripts.go)
}

// BoundedDef: a bounded check of one function that is outside the verifier's reach.
// It executes the real code through an overlay test; it is labelled bounded in the
// evidence and never counted as a discharged obligation.
type BoundedDef struct {
	Name  string `json:"name"`
	Pkg   string `json:"pkg"`
	File  string `json:"file"` // test source under /verif/bounded
	Bound string `json:"bound"`
	Why   string `json:"why_not_proved"`
}

type KnownFinding struct {
	Property   string `json:"property"`
	Obligation string `json:"obligation"`
	Witness    string `json:"witness_signature,omitempty"`
	WhatFails  string `json:"what_fails"`
	Status     string `json:"status"` // open | fixed:<commit>
}

func loadChecks() map[string]*CheckDef {
	b, err := os.ReadFile(filepath.Join(verifDir, "checks.json"))
	if err != nil {
		fmt.Printf("ERROR reading checks.json: %v\n", err)
		os.Exit(2)
	}
	m := map[string]*CheckDef{}
	if err := json.Unmarshal(b, &m); err != nil {
		fmt.Printf("ERROR parsing checks.json: %v\n", err)
		os.Exit(2)
	}
	return m
}

func loadKnown() []KnownFinding {
	b, err := os.ReadFile(filepath.Join(verifDir, "known_findings.json"))
	if err != nil {
		return nil
	}
	var k []KnownFinding
	if err := json.Unmarshal(b, &k); err != nil {
		fmt.Printf("ERROR parsing known_findings.json: %v\n", err)
		os.Exit(2)
	}
	return k
}

var boundedCasesRe = regexp.MustCompile(`BOUNDED-CASES (\d+)`)

type violation struct {
	boundedSrc string
	boundedPkg string
	obl       *OblResult
	replay    string
	confirmed bool
	note      string
}

func cmdCheck(args []string) int {
	t0 := time.Now()
	if len(args) < 1 {
		usage()
	}
	id := args[0]
	tier := os.Getenv("VERIF_TIER")
	for i := 1; i < len(args); i++ {
		if args[i] == "--tier" && i+1 < len(args) {
			tier = args[i+1]
			i++
		}
	}
	if tier != "thorough" {
		tier = "quick"
	}
	seed, _ := strconv.Atoi(os.Getenv("VERIF_SEED"))
	if tier == "thorough" {
		quickTimeout = 120 * time.Second
		fastTimeout = 10 * time.Second
		crossCheck = true
		reachProbes = true // branch-edge reachability diagnostics (loopfx.go)
	}
	checks := loadChecks()
	def, ok := checks[id]
	if !ok {
		fmt.Printf("ERROR unknown property %s\n", id)
		return 2
	}
	// units: own + dependencies
	type unitRef struct {
		unit string
		from string
	}
	var units []unitRef
	seen := map[string]bool{}
	add := func(us []string, from string) {
		for _, u := range us {
			if !seen[u] {
				seen[u] = true
				units = append(units, unitRef{u, from})
			}
		}
	}
	add(def.Units, id)
	if tier == "thorough" {
		add(def.Thorough, id)
	}
	for _, d := range def.Depends {
		if dd, ok := checks[d]; ok {
			add(dd.Units, d)
		}
	}
	var names []string
	for _, u := range units {
		names = append(names, u.unit)
	}
	p := loadAll(names, def.ExtraPkgs)
	loadT := time.Since(t0).Seconds()

	var results []*UnitResult
	var toolErrs []string
	for _, u := range units {
		r := verifyUnit(p, u.unit)
		results = append(results, r)
		if r.Err != "" {
			toolErrs = append(toolErrs, fmt.Sprintf("%s: %s", u.unit, r.Err))
		}
	}
	// auxiliary scripted checks
	for _, s := range def.Scripts {
		r := runScript(p, s, tier)
		results = append(results, r)
		if r.Err != "" {
			toolErrs = append(toolErrs, fmt.Sprintf("script %s: %s", s, r.Err))
		}
	}
	known := loadKnown()
	isKnown := func(o *OblResult) *KnownFinding {
		for i := range known {
			k := &known[i]
			if k.Property == id && k.Obligation == o.Name && k.Status == "open" {
				if k.Witness == "" || witnessMatches(k.Witness, o) {
					return k
				}
			}
		}
		return nil
	}
	var viols []*violation
	var knownHit []string
	nObl, nDis, nCover, nCoverOK := 0, 0, 0, 0
	nReach := 0
	deadBranches := []string{}
	var samples []map[string]any
	var oblList []map[string]any
	solvers := map[string]bool{}
	for _, r := range results {
		for _, o := range r.Obls {
			entry := map[string]any{"name": o.Name, "kind": o.Kind, "status": o.Status, "solver": o.Solver, "solver_time_s": round3(o.Time), "max_query_s": round3(o.MaxQuery), "paths": o.Paths, "unit": o.Unit}
			if o.Src != "" {
				entry["clause"] = o.Src
			}
			oblList = append(oblList, entry)
			for _, s := range strings.Split(o.Solver, ",") {
				if s != "" {
					solvers[s] = true
				}
			}
			if o.Kind == "reach" {
				// diagnostics only: branch edges that no path of the model takes
				nReach++
				if o.Status != "cover-ok" {
					deadBranches = append(deadBranches, o.Name+" ("+o.Status+")")
				}
				continue
			}
			if o.Kind == "cover" {
				nCover++
				switch o.Status {
				case "cover-ok":
					nCoverOK++
				case "cover-vacuous":
					if strings.HasSuffix(o.Name, ".vacuity.requires") {
						toolErrs = append(toolErrs, "vacuous precondition: "+o.Name)
					} else {
						viols = append(viols, &violation{obl: o, note: "no return path of the function is reachable under its precondition"})
					}
				}
				continue
			}
			switch o.Status {
			case "discharged", "trivial":
				nObl++
				nDis++
				if len(samples) < 3 && o.query != "" {
					samples = append(samples, map[string]any{"obligation": o.Name, "clause": o.Src, "smt_query_excerpt": tailLines(o.query, 12)})
				}
			default:
				if k := isKnown(o); k != nil {
					knownHit = append(knownHit, fmt.Sprintf("KNOWN-FINDING: property=%s %s %s", id, o.Name, k.WhatFails))
					entry["known_finding"] = true
					continue
				}
				nObl++
				viols = append(viols, &violation{obl: o})
			}
		}
	}
	// bounded stand-ins (never counted as obligations)
	boundedResults := []map[string]any{}
	for _, bd := range def.BoundedRuns {
		src, err := os.ReadFile(filepath.Join(verifDir, "bounded", bd.File))
		if err != nil {
			toolErrs = append(toolErrs, "bounded "+bd.Name+": "+err.Error())
			continue
		}
		tb := time.Now()
		out, ok := runOverlayTestNamed(bd.Pkg, string(src), "TestVerifBounded", "zz_verif_bounded_test.go")
		res := map[string]any{"name": bd.Name, "label": "bounded", "bound": bd.Bound, "why_not_proved": bd.Why, "passed": ok, "wall_s": round3(time.Since(tb).Seconds())}
		if m := boundedCasesRe.FindStringSubmatch(out); m != nil {
			res["cases"], _ = strconv.Atoi(m[1])
		}
		boundedResults = append(boundedResults, res)
		if !ok {
			if strings.Contains(out, "SPEC-VIOLATED") {
				o := &OblResult{Name: "bounded." + bd.Name, Kind: "bounded", Status: "failed", Unit: bd.Pkg, Output: truncate(out, 3000), Src: bd.Bound}
				viols = append(viols, &violation{obl: o, boundedSrc: string(src), boundedPkg: bd.Pkg})
			} else {
				toolErrs = append(toolErrs, "bounded "+bd.Name+" did not run: "+truncate(out, 600))
			}
		}
	}
	if len(toolErrs) > 0 && len(viols) == 0 {
		for _, e := range toolErrs {
			fmt.Printf("ERROR %s\n", e)
		}
		return 2
	}
	if nObl < def.MinObls && len(viols) == 0 {
		fmt.Printf("ERROR vacuity guard: only %d obligations generated for %s, expected at least %d\n", nObl, id, def.MinObls)
		return 2
	}
	// replays for violations
	for _, v := range viols {
		v.replay, v.confirmed, v.note = makeReplay(p, id, v)
	}
	// evidence
	assumptions, unmodelled, funcs, usedC, usedL := []string{}, []string{}, []string{}, []string{}, []string{}
	if knownHit == nil {
		knownHit = []string{}
	}
	if def.NotDecided == nil {
		def.NotDecided = []string{}
	}
	if def.Bounded == nil {
		def.Bounded = []string{}
	}
	if def.Depends == nil {
		def.Depends = []string{}
	}
	aset := map[string]bool{}
	for _, r := range results {
		funcs = append(funcs, r.Unit)
		for _, a := range r.Assumptions {
			if !aset["a"+a] {
				aset["a"+a] = true
				assumptions = append(assumptions, a)
			}
		}
		for _, a := range r.Unmodelled {
			if !aset["u"+a] {
				aset["u"+a] = true
				unmodelled = append(unmodelled, a)
			}
		}
		for _, a := range r.UsedContr {
			if !aset["c"+a] {
				aset["c"+a] = true
				usedC = append(usedC, a)
			}
		}
		for _, a := range r.UsedLib {
			if !aset["l"+a] {
				aset["l"+a] = true
				usedL = append(usedL, a)
			}
		}
	}
	sort.Strings(assumptions)
	sort.Strings(unmodelled)
	var solverList []string
	for s := range solvers {
		solverList = append(solverList, s)
	}
	sort.Strings(solverList)
	trusted := append([]string{
		"golang.org/x/tools v0.50.0 go/packages + go/ssa (NaiveForm|InstantiateGenerics) as the semantics of the Go source in /repo",
		"specv VC generator and contract parser (/verif/tool), guarded by the must-fail selftest corpus and vacuity covers",
		"SMT solvers: z3 5.1.0 (z3-new), z3 4.8.12, cvc5 1.0.3",
	}, def.Trusted...)
	for _, l := range usedL {
		trusted = append(trusted, "assumed library contract: "+l)
	}
	if len(samples) == 0 {
		samples = append(samples, map[string]any{"note": "no discharged obligation with a non-trivial query in this run"})
	}
	cov := map[string]any{
		"obligations":            nObl,
		"discharged":             nDis,
		"checker_cmd":            fmt.Sprintf("./bin/specv check %s --tier %s", id, tier),
		"trusted_base":           trusted,
		"samples":                samples,
		"functions_under_contract": funcs,
		"obligation_list":        oblList,
		"covers":                 nCover,
		"covers_reachable":       nCoverOK,
		"branch_probes":          nReach,
		"branches_unreachable_in_model": deadBranches,
		"back_ends":              solverList,
		"solver_time_s":          round3(totalSolverTime),
		"load_time_s":            round3(loadT),
		"unmodelled_calls":       unmodelled,
		"callee_contracts_used":  usedC,
		"not_decided":            def.NotDecided,
		"bounded_standins":       def.Bounded,
		"bounded_results":        boundedResults,
		"depends_on":             def.Depends,
		"known_findings_hit":     knownHit,
		"contract_files":         p.contractSource,
		"contract_mirror":        p.mirrorNote,
		"arith":                  "per function: 'bv' = all integers are fixed-width bit-vectors (exact machine arithmetic); 'int' = unsigned arithmetic wraps exactly, signed int is mathematical (overflow of signed int not modelled)",
	}
	ev := map[string]any{
		"property_id": id, "tier": tier, "seed": seed, "level": "proof", "coverage": cov,
		"assumptions": assumptions, "wall_s": round3(time.Since(t0).Seconds()), "violations": len(viols),
	}
	b, _ := json.MarshalIndent(ev, "", " ")
	os.MkdirAll(filepath.Join(outDir(), "evidence"), 0o755)
	os.WriteFile(filepath.Join(outDir(), "evidence", id+".json"), b, 0o644)

	for _, k := range knownHit {
		fmt.Println(k)
	}
	if len(viols) > 0 {
		for _, v := range viols {
			o := v.obl
			fmt.Printf("FAIL %s  [%s] %s %.2fs\n", o.Name, o.Status, o.Solver, o.Time)
			if len(o.Model) > 0 {
				var ks []string
				for k := range o.Model {
					ks = append(ks, k)
				}
				sort.Strings(ks)
				for _, k := range ks {
					fmt.Printf("  model: %s = %s\n", k, o.Model[k])
				}
			}
			if v.note != "" {
				fmt.Printf("  %s\n", v.note)
			}
		}
		for _, v := range viols {
			suffix := ""
			if !v.confirmed {
				suffix = " no-failing-input-found"
			}
			fmt.Printf("VIOLATION property=%s replay=%s%s\n", id, v.replay, suffix)
		}
		for _, e := range toolErrs {
			fmt.Printf("ERROR %s\n", e)
		}
		return 1
	}
	fmt.Printf("OK %s %d/%d obligations discharged (%d units, %d covers reachable, %.1fs)\n", id, nDis, nObl, len(results), nCoverOK, time.Since(t0).Seconds())
	return 0
}

func witnessMatches(w string, o *OblResult) bool {
	// witness signature: "key=value" pairs that must appear in the model
	for _, kv := range strings.Split(w, ",") {
		kv = strings.TrimSpace(kv)
		if kv == "" {
			continue
		}
		parts := strings.SplitN(kv, "=", 2)
		if len(parts) != 2 {
			continue
		}
		found := false
		for k, v := range o.Model {
			if strings.Contains(k, parts[0]) && strings.ReplaceAll(v, " ", "") == strings.ReplaceAll(parts[1], " ", "") {
				found = true
			}
		}
		if !found {
			return false
		}
	}
	return true
}

func outDir() string {
	if d := os.Getenv("SPECV_OUT"); d != "" {
		return d
	}
	return verifDir
}

func round3(f float64) float64 { return float64(int(f*1000+0.5)) / 1000 }

func tailLines(s string, n int) string {
	ls := strings.Split(strings.TrimSpace(s), "\n")
	if len(ls) > n {
		ls = ls[len(ls)-n:]
	}
	for i, l := range ls {
		if len(l) > 400 {
			ls[i] = l[:400] + "…"
		}
	}
	return strings.Join(ls, "\n")
}

// makeReplay writes the replay file for a failed obligation and tries to confirm
// the counterexample on the real code.
func makeReplay(p *Prog, id string, v *violation) (string, bool, string) {
	o := v.obl
	dir := filepath.Join(outDir(), "replays", id)
	os.MkdirAll(dir, 0o755)
	path := filepath.Join(dir, mangle(o.Name)+".json")
	qf := ""
	if o.query != "" {
		qf = saveQuery(dir, o.Name, o.query)
	}
	rep := map[string]any{
		"property": id, "obligation": o.Name, "kind": o.Kind, "clause": o.Src, "status": o.Status,
		"solver": o.Solver, "solver_output": o.Output, "model": o.Model, "trace": o.Trace, "query_file": qf, "unit": o.Unit,
	}
	confirmed := false
	note := v.note
	if v.boundedSrc != "" {
		rep["replay_test"] = v.boundedSrc
		rep["replay_pkg"] = v.boundedPkg
		rep["replay_run"] = "TestVerifBounded"
		rep["replay_output"] = o.Output
		rep["confirmed_on_real_code"] = true
		confirmed = true
		note = "bounded check executed the real code: failing case in the replay output"
	} else if (o.Status == "failed" || len(o.Model) > 0 || hasTemplate(o.Unit)) && !strings.HasPrefix(o.Unit, "script:") {
		// an undecided obligation carries no model, but a template may search for a failing input by itself
		// (directed candidates derived from the clause); only a run that prints SPEC-VIOLATED confirms
		ok, out, test := replayOnRealCode(p, id, o)
		rep["replay_test"] = test
		rel, _ := splitUnit(o.Unit)
		rep["replay_pkg"] = rel
		rep["replay_output"] = out
		rep["confirmed_on_real_code"] = ok
		confirmed = ok
		if ok {
			note = "counterexample replayed on the real code: confirmed"
		} else if test != "" {
			note = "counterexample from the solver did not reproduce on the real code (see replay file)"
		}
	}
	if !confirmed {
		rep["result"] = "no-failing-input-found"
	}
	b, _ := json.MarshalIndent(rep, "", " ")
	os.WriteFile(path, b, 0o644)
	return path, confirmed, note
}

func cmdReplay(args []string) int {
	if len(args) < 1 {
		usage()
	}
	b, err := os.ReadFile(args[0])
	if err != nil {
		fmt.Println("ERROR", err)
		return 2
	}
	var rep map[string]any
	json.Unmarshal(b, &rep)
	fmt.Printf("obligation: %v\nclause: %v\nstatus: %v\nmodel: %v\n", rep["obligation"], rep["clause"], rep["status"], rep["model"])
	if t, ok := rep["replay_test"].(string); ok && t != "" {
		pkgDir, _ := rep["replay_pkg"].(string)
		run, _ := rep["replay_run"].(string)
		if run == "" {
			run = "TestVerifReplay"
		}
		out, ok := runOverlayTest(pkgDir, t, run)
		fmt.Println(out)
		if !ok {
			fmt.Printf("VIOLATION property=%v replay=%s\n", rep["property"], args[0])
			return 1
		}
		return 0
	}
	fmt.Println("no executable replay recorded (no-failing-input-found); solver output:")
	fmt.Println(rep["solver_output"])
	return 1
}

// runOverlayTest injects a test file into a package of /repo through -overlay and runs it.
func runOverlayTest(pkgRel, testSrc, run string) (string, bool) {
	return runOverlayTestNamed(pkgRel, testSrc, run, "zz_verif_replay_test.go")
}

func runOverlayTestNamed(pkgRel, testSrc, run, fileName string) (string, bool) {
	tmp, err := os.MkdirTemp("", "specv-replay-")
	if err != nil {
		return err.Error(), false
	}
	defer os.RemoveAll(tmp)
	tf := filepath.Join(tmp, fileName)
	os.WriteFile(tf, []byte(testSrc), 0o644)
	ov := map[string]any{"Replace": map[string]string{
		filepath.Join(repoDir, pkgRel, fileName): tf,
	}}
	// tun/client needs a placeholder for its embed directive
	ph := filepath.Join(tmp, "index.html")
	os.WriteFile(ph, []byte("<html></html>"), 0o644)
	if _, err := os.Stat(filepath.Join(repoDir, "tun/client/ui/build/index.html")); err != nil {
		ov["Replace"].(map[string]string)[filepath.Join(repoDir, "tun/client/ui/build/index.html")] = ph
	}
	ob, _ := json.Marshal(ov)
	of := filepath.Join(tmp, "overlay.json")
	os.WriteFile(of, ob, 0o644)
	cmd := exec.Command("go", "test", "-overlay", of, "-vet=off", "-count=1", "-timeout", "60s", "-run", run, "./"+pkgRel)
	cmd.Dir = repoDir
	cmd.Env = append(os.Environ(), "GOFLAGS=-mod=mod", "GOPROXY=off", "GOSUMDB=off", "GOTOOLCHAIN=local")
	out, err := cmd.CombinedOutput()
	return truncate(string(out), 6000), err == nil
}

func cmdSelftest(args []string) int { return runSelftest(args) }
