package main

func cmdCheck(args []string) int    { return 2 }
func cmdReplay(args []string) int   { return 2 }
func cmdSelftest(args []string) int { return 2 }
