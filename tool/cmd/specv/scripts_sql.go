package main

// Script "sqlite_sql": deductive checks over the SQL text constants of kv/sqlite3.
// The WHERE clause of each listed statement is extracted mechanically from the Go constant
// (read from the type-checked working tree), translated to an SMT formula over the row's
// columns and the positional parameters, and proved equivalent to the condition the
// property statement requires. The prepared-statement table is checked syntactically
// (query constant <-> struct field). SQLite's evaluation of the text is assumed.

import (
	"fmt"
	"go/ast"
	"go/constant"
	"go/types"
	"strings"
	"time"
	"unicode"
)

const sqlitePkg = modulePath + "/kv/sqlite3"

type sqlSpec struct {
	Const    string // Go constant holding the statement
	Label    string
	Pre      string // SMT precondition over parameters (e.g. ordering of low/high)
	Expected string // SMT condition over col_* and p1..pn
	Why      string
}

var sqlSpecs = []sqlSpec{
	{"queryLeaseAcquire", "acquire-overwrites-only-expired", "true", "(<= col_token p3)",
		"an existing lease row is overwritten only if its token (expiry) is not after now (p3)"},
	{"queryLeaseRenew", "renew-needs-current-unexpired-token", "true", "(and (= col_owner p2) (= col_token p3) (> col_token p4))",
		"a lease is renewed only by its owner with the current token (p3) that has not expired (now = p4)"},
	{"queryLeaseRelease", "release-needs-current-token", "true", "(and (= col_owner p1) (= col_token p2))",
		"a lease is released only with the owner's current token"},
	{"queryRangeKeysNorm", "range-open-closed-no-wrap", "(and (<= 0 p1) (< p1 p2) (= p3 p2) (<= 0 col_hash))",
		"(or (and (< p1 col_hash) (< col_hash p2)) (= col_hash p2))", "(low, high] for low < high with arguments [low, high, high]"},
	{"queryRangeKeysWrap", "range-open-closed-wrap", "(and (<= 0 p2) (<= p2 p1) (= p3 p2) (<= 0 col_hash))",
		"(or (< p1 col_hash) (< col_hash p2) (= col_hash p2))", "(low, high] wrapping past zero for high <= low (everything when low == high) with arguments [low, high, high]"},
}

func init() {
	scripts["sqlite_sql"] = scriptSqliteSQL
}

type sqlTok struct{ kind, text string }

func sqlLex(s string) []sqlTok {
	var out []sqlTok
	r := []rune(s)
	for i := 0; i < len(r); {
		c := r[i]
		switch {
		case unicode.IsSpace(c):
			i++
		case c == '`':
			j := i + 1
			for j < len(r) && r[j] != '`' {
				j++
			}
			out = append(out, sqlTok{"id", string(r[i+1 : j])})
			i = j + 1
		case c == '?':
			out = append(out, sqlTok{"param", "?"})
			i++
		case c == '(' || c == ')' || c == ',' || c == '*' || c == '.':
			out = append(out, sqlTok{"punct", string(c)})
			i++
		case c == '<' || c == '>' || c == '=' || c == '!':
			j := i + 1
			if j < len(r) && (r[j] == '=' || r[j] == '>') {
				j++
			}
			out = append(out, sqlTok{"op", string(r[i:j])})
			i = j
		case unicode.IsLetter(c) || c == '_':
			j := i
			for j < len(r) && (unicode.IsLetter(r[j]) || unicode.IsDigit(r[j]) || r[j] == '_') {
				j++
			}
			out = append(out, sqlTok{"word", strings.ToUpper(string(r[i:j]))})
			i = j
		case unicode.IsDigit(c):
			j := i
			for j < len(r) && unicode.IsDigit(r[j]) {
				j++
			}
			out = append(out, sqlTok{"num", string(r[i:j])})
			i = j
		default:
			out = append(out, sqlTok{"other", string(c)})
			i++
		}
	}
	return out
}

type sqlParser struct {
	toks   []sqlTok
	p      int
	nparam int
}

func (q *sqlParser) peek() sqlTok {
	if q.p < len(q.toks) {
		return q.toks[q.p]
	}
	return sqlTok{"eof", ""}
}

// parse: or-expr
func (q *sqlParser) parseOr() (string, error) {
	l, err := q.parseAnd()
	if err != nil {
		return "", err
	}
	for q.peek().kind == "word" && q.peek().text == "OR" {
		q.p++
		r, err := q.parseAnd()
		if err != nil {
			return "", err
		}
		l = fmt.Sprintf("(or %s %s)", l, r)
	}
	return l, nil
}

func (q *sqlParser) parseAnd() (string, error) {
	l, err := q.parseCmp()
	if err != nil {
		return "", err
	}
	for q.peek().kind == "word" && q.peek().text == "AND" {
		q.p++
		r, err := q.parseCmp()
		if err != nil {
			return "", err
		}
		l = fmt.Sprintf("(and %s %s)", l, r)
	}
	return l, nil
}

func (q *sqlParser) parseCmp() (string, error) {
	if q.peek().kind == "punct" && q.peek().text == "(" {
		q.p++
		e, err := q.parseOr()
		if err != nil {
			return "", err
		}
		if q.peek().text != ")" {
			return "", fmt.Errorf("expected )")
		}
		q.p++
		return e, nil
	}
	l, err := q.parseAtom()
	if err != nil {
		return "", err
	}
	op := q.peek()
	if op.kind != "op" {
		return "", fmt.Errorf("expected comparison operator, found %q", op.text)
	}
	q.p++
	r, err := q.parseAtom()
	if err != nil {
		return "", err
	}
	switch op.text {
	case "=", "==":
		return fmt.Sprintf("(= %s %s)", l, r), nil
	case "<", ">", "<=", ">=":
		return fmt.Sprintf("(%s %s %s)", op.text, l, r), nil
	case "!=", "<>":
		return fmt.Sprintf("(not (= %s %s))", l, r), nil
	}
	return "", fmt.Errorf("operator %q", op.text)
}

func (q *sqlParser) parseAtom() (string, error) {
	t := q.peek()
	q.p++
	switch t.kind {
	case "id":
		return "col_" + mangle(t.text), nil
	case "param":
		q.nparam++
		return fmt.Sprintf("p%d", q.nparam), nil
	case "num":
		return t.text, nil
	}
	return "", fmt.Errorf("unexpected %q in condition", t.text)
}

// whereOf returns the SMT translation of the (last) WHERE clause of a statement.
func whereOf(stmt string) (string, int, error) {
	toks := sqlLex(stmt)
	wi := -1
	for i, t := range toks {
		if t.kind == "word" && t.text == "WHERE" {
			wi = i
		}
	}
	if wi < 0 {
		return "", 0, fmt.Errorf("no WHERE clause")
	}
	n := 0
	for _, t := range toks[:wi] {
		if t.kind == "param" {
			n++
		}
	}
	// condition ends at ORDER / LIMIT / end
	end := len(toks)
	for i := wi + 1; i < len(toks); i++ {
		if toks[i].kind == "word" && (toks[i].text == "ORDER" || toks[i].text == "LIMIT" || toks[i].text == "GROUP") {
			end = i
			break
		}
	}
	q := &sqlParser{toks: toks[wi+1 : end], nparam: n}
	cond, err := q.parseOr()
	if err != nil {
		return "", 0, err
	}
	if q.p != len(q.toks) {
		return "", 0, fmt.Errorf("trailing tokens in WHERE clause")
	}
	return cond, q.nparam, nil
}

func scriptSqliteSQL(p *Prog, tier string) *UnitResult {
	t0 := time.Now()
	res := &UnitResult{Unit: "script:sqlite_sql"}
	pk := p.pkgs[sqlitePkg]
	if pk == nil || pk.Types == nil {
		res.Err = "package kv/sqlite3 not loaded"
		return res
	}
	for _, sp := range sqlSpecs {
		name := "kv/sqlite3." + sp.Const + ".where." + sp.Label
		o := &OblResult{Name: name, Kind: "sql", Src: sp.Why, Unit: res.Unit, Paths: 1}
		c, ok := pk.Types.Scope().Lookup(sp.Const).(*types.Const)
		if !ok || c.Val().Kind() != constant.String {
			o.Status = "undischarged"
			o.Output = "contract does not bind: string constant " + sp.Const + " not found"
			res.Obls = append(res.Obls, o)
			continue
		}
		text := constant.StringVal(c.Val())
		cond, nparam, err := whereOf(text)
		if err != nil {
			o.Status = "undischarged"
			o.Output = "cannot extract WHERE clause of " + sp.Const + ": " + err.Error() + " in " + text
			res.Obls = append(res.Obls, o)
			continue
		}
		var decl strings.Builder
		decl.WriteString("(set-option :produce-models true)\n(set-logic ALL)\n")
		for _, v := range []string{"col_token", "col_owner", "col_hash", "col_key", "col_flags"} {
			fmt.Fprintf(&decl, "(declare-fun %s () Int)\n", v)
		}
		np := nparam
		if np < 4 {
			np = 4
		}
		var vals []string
		for i := 1; i <= np; i++ {
			fmt.Fprintf(&decl, "(declare-fun p%d () Int)\n", i)
			vals = append(vals, fmt.Sprintf("p%d", i))
		}
		q := decl.String() + fmt.Sprintf("(assert %s)\n(assert (not (= %s %s)))\n(check-sat)\n(get-value (col_token col_owner col_hash %s))\n", sp.Pre, cond, sp.Expected, strings.Join(vals, " "))
		r := solveQuery(q, quickTimeout)
		o.Time = r.Time
		o.Solver = r.Solver
		o.query = q
		switch r.Status {
		case "unsat":
			o.Status = "discharged"
		case "sat":
			o.Status = "failed"
			o.Model = parseGetValue(r.Output)
			o.Output = fmt.Sprintf("WHERE clause of %s is %s, required %s; statement: %s\n%s", sp.Const, cond, sp.Expected, text, truncate(r.Output, 800))
		default:
			o.Status = "undischarged"
			o.Output = r.Status + ": " + truncate(r.Output, 800)
		}
		res.Obls = append(res.Obls, o)
	}
	// prepared-statement table: {db, query<Name>, &s.<name>}
	for _, f := range pk.Syntax {
		ast.Inspect(f, func(n ast.Node) bool {
			cl, ok := n.(*ast.CompositeLit)
			if !ok || len(cl.Elts) != 3 {
				return true
			}
			qid, ok1 := cl.Elts[1].(*ast.Ident)
			un, ok2 := cl.Elts[2].(*ast.UnaryExpr)
			if !ok1 || !ok2 || !strings.HasPrefix(qid.Name, "query") {
				return true
			}
			sel, ok := un.X.(*ast.SelectorExpr)
			if !ok {
				return true
			}
			field := sel.Sel.Name
			want := strings.TrimPrefix(qid.Name, "query")
			o := &OblResult{Name: "kv/sqlite3.prepareStatements.binds." + field, Kind: "sql", Unit: res.Unit, Paths: 1,
				Src: "prepared statement field " + field + " is prepared from the query constant of the same name"}
			okName := strings.EqualFold(want, field) || (strings.HasPrefix(field, "export") && strings.EqualFold(want, strings.TrimPrefix(field, "export")))
			if okName {
				o.Status = "discharged"
				o.Solver = "syntactic"
			} else {
				o.Status = "failed"
				o.Output = fmt.Sprintf("field %s is prepared from %s", field, qid.Name)
			}
			res.Obls = append(res.Obls, o)
			return true
		})
	}
	res.Wall = time.Since(t0).Seconds()
	return res
}
