package main

import (
	"fmt"
	"go/constant"
	"go/types"
	"math/big"
	"sort"
	"strings"

	"golang.org/x/tools/go/ssa"
)

type Env struct {
	e          *Engine
	st         *State // state in which heap reads are evaluated
	fr         *FrameSt
	old        *State
	params     map[string]Val
	results    []Val
	bound      map[string]Val
	pkg        string
	contract   *Contract
	inEnsures  bool
	callee     bool // evaluating a callee contract at a call site
	callResult *Val
	callRecv   *Val // receiver of an interface method call at an anchor (callrecv)
	specDepth  int
	typeFn     *ssa.Function
	callArgs   []Val
	extraFr    *FrameSt
	freeBinds  map[string]Val
}

func (e *Engine) envFor(st *State, fr *FrameSt, old *State) *Env {
	env := &Env{e: e, st: st, fr: fr, old: old, params: fr.params, bound: map[string]Val{}}
	if fr.contract != nil {
		env.pkg = fr.contract.Pkg
		env.contract = fr.contract
	} else if fr.fn.Pkg != nil {
		env.pkg = fr.fn.Pkg.Pkg.Path()
	}
	return env
}

func (e *Engine) evalBool(st *State, env *Env, x Expr) string {
	env.st = st
	v := e.evalSpec(st, env, x)
	if v.K != kTerm {
		limitf("spec expression %s is not boolean", x)
	}
	return v.T
}

func (e *Engine) evalSpec(st *State, env *Env, x Expr) Val {
	saved := env.st
	env.st = st
	e.specEval++
	defer func() { env.st = saved; e.specEval-- }()
	return env.eval(x)
}

func (env *Env) resultNames() []string {
	var names []string
	if env.contract != nil {
		for _, r := range env.contract.Results {
			names = append(names, r.Name)
		}
	}
	return names
}

func (env *Env) lookupIdent(name string) (Val, bool) {
	e := env.e
	if v, ok := env.bound[name]; ok {
		return v, true
	}
	if name == "result" && len(env.results) == 1 {
		return env.results[0], true
	}
	if name == "callresult" && env.callResult != nil {
		return *env.callResult, true
	}
	if name == "callrecv" && env.callRecv != nil {
		return *env.callRecv, true
	}
	if strings.HasPrefix(name, "callarg") && env.callArgs != nil {
		var i int
		if _, err := fmt.Sscanf(name, "callarg%d", &i); err == nil && i < len(env.callArgs) && (env.callArgs[i].K != kTerm || env.callArgs[i].T != "") {
			return env.callArgs[i], true
		}
	}
	if strings.HasPrefix(name, "callresult") && env.callResult != nil && env.callResult.K == kTuple {
		var i int
		if _, err := fmt.Sscanf(name, "callresult%d", &i); err == nil && i < len(env.callResult.Tup) {
			return env.callResult.Tup[i], true
		}
	}
	if env.results != nil {
		for i, n := range env.resultNames() {
			if n == name && n != "" && i < len(env.results) {
				return env.results[i], true
			}
		}
		// named results of the Go function
		if env.fr != nil && !env.callee {
			sig := env.fr.fn.Signature
			for i := 0; i < sig.Results().Len(); i++ {
				if sig.Results().At(i).Name() == name && i < len(env.results) {
					return env.results[i], true
				}
			}
		}
	}
	if g, ok := env.st.ghost[name]; ok {
		return g, true
	}
	if env.callee && env.freeBinds != nil {
		if p, ok := env.freeBinds[name]; ok {
			return e.loadThrough(env.st, p), true
		}
	}
	if env.fr != nil && !env.callee && env.fr.freeVars != nil {
		if p, ok := env.fr.freeVars[name]; ok {
			return e.loadThrough(env.st, p), true
		}
	}
	if env.callee || env.inEnsures {
		if v, ok := env.params[name]; ok {
			return v, true
		}
	}
	// local variables of the current frame (current value)
	if env.fr != nil && !env.callee {
		if v, ok := env.localVar(name, true); ok {
			return v, true
		}
	}
	if v, ok := env.params[name]; ok {
		return v, true
	}
	if env.fr != nil && !env.callee {
		if v, ok := env.localVar(name, false); ok {
			return v, true
		}
	}
	// variables and parameters of the enclosing inlined frames (closures nested in the function under contract)
	if env.fr != nil && !env.callee && env.st != nil {
		for i := len(env.st.frames) - 1; i >= 0; i-- {
			f := env.st.frames[i]
			if f == env.fr {
				continue
			}
			if v, ok := env.localVarIn(f, name, true); ok {
				return v, true
			}
			if v, ok := f.params[name]; ok {
				return v, true
			}
		}
	}
	// ghosts maintained by the atomic-operation models: arbitrary on paths without such an operation
	if name == "cas_seen" || name == "load_seen" {
		return term(e.S.Fresh("no_"+name, e.sortOf(tUint64)), tUint64), true
	}
	// package-level names
	if obj := e.P.lookupObj(name, env.pkg); obj != nil {
		return env.objVal(obj)
	}
	// spec constants
	if sc, ok := e.P.specConsts[name]; ok {
		t := e.P.resolveType(sc.Type, env.pkg, nil)
		n := "sc_" + mangle(name)
		e.S.DeclareConst(n, e.sortOf(t))
		return term(n, t), true
	}
	return Val{}, false
}

func (env *Env) objVal(obj types.Object) (Val, bool) {
	e := env.e
	switch o := obj.(type) {
	case *types.Const:
		return e.constOf(o), true
	case *types.Func:
		if fn := e.P.prog.FuncValue(o); fn != nil {
			return Val{K: kFunc, Fn: fn, Typ: o.Type()}, true
		}
		return Val{}, false
	case *types.Var:
		// package-level variable
		pkg := e.P.prog.Package(o.Pkg())
		if pkg == nil {
			return Val{}, false
		}
		g, ok := pkg.Members[o.Name()].(*ssa.Global)
		if !ok {
			return Val{}, false
		}
		return e.loadThrough(env.st, e.globalAddr(g)), true
	}
	return Val{}, false
}

func (e *Engine) constOf(o *types.Const) Val {
	t := o.Type()
	v := o.Val()
	switch v.Kind() {
	case constant.Bool:
		if constant.BoolVal(v) {
			return term("true", t)
		}
		return term("false", t)
	case constant.String:
		return term(smtString(constant.StringVal(v)), t)
	case constant.Int:
		bi, _ := new(big.Int).SetString(v.ExactString(), 10)
		if b, ok := t.Underlying().(*types.Basic); ok && b.Info()&types.IsUntyped != 0 {
			return Val{K: kConst, Const: bi}
		}
		return term(e.S.IntLit(bi, t), t)
	}
	limitf("constant %s of unsupported kind", o.Name())
	return Val{}
}

func (env *Env) localVar(name string, onlyScoped bool) (Val, bool) {
	if v, ok := env.localVarIn(env.fr, name, onlyScoped); ok {
		return v, true
	}
	if env.extraFr != nil && env.extraFr != env.fr {
		// the inlined callee whose loop/anchor is being specified
		return env.localVarIn(env.extraFr, name, onlyScoped)
	}
	return Val{}, false
}

func (env *Env) localVarIn(fr *FrameSt, name string, onlyScoped bool) (Val, bool) {
	// disambiguation suffix name#k
	want := 1
	base := name
	if i := strings.Index(name, "#"); i > 0 {
		fmt.Sscanf(name[i+1:], "%d", &want)
		base = name[:i]
	}
	// compiler-introduced variables such as rangeint.iter are written rangeint$iter
	if strings.Contains(base, "$") {
		base = strings.ReplaceAll(base, "$", ".")
	}
	n := 0
	var found *ssa.Alloc
	for _, b := range fr.fn.Blocks {
		for _, in := range b.Instrs {
			if a, ok := in.(*ssa.Alloc); ok && a.Comment == base {
				n++
				if n == want {
					found = a
				}
			}
		}
	}
	if found == nil {
		return Val{}, false
	}
	pv, ok := fr.cells[found]
	if !ok && onlyScoped {
		return Val{}, false
	}
	if !ok {
		// the variable is not yet in scope on this path: its value is arbitrary
		el := found.Type().(*types.Pointer).Elem()
		return term(env.e.S.Fresh("unscoped_"+base, env.e.sortOf(el)), el), true
	}
	return env.e.loadThrough(env.st, pv), true
}

func (env *Env) eval(x Expr) Val {
	e := env.e
	switch n := x.(type) {
	case EInt:
		bi, ok := new(big.Int).SetString(n.Text, 0)
		if !ok {
			limitf("bad integer literal %s", n.Text)
		}
		return Val{K: kConst, Const: bi}
	case EBool:
		if n.Val {
			return term("true", tBool)
		}
		return term("false", tBool)
	case EStr:
		return term(smtString(n.Val), tString)
	case ENil:
		return Val{K: kConst, Const: big.NewInt(0), Typ: types.Typ[types.UntypedNil]}
	case EIdent:
		if v, ok := env.lookupIdent(n.Name); ok {
			return v
		}
		limitf("contract does not bind: unknown identifier %q", n.Name)
	case EOld:
		sub := *env
		sub.st = env.old
		sub.inEnsures = true
		// locals in old() are not meaningful; parameters are entry values
		return sub.eval(n.X)
	case ELet:
		v := env.eval(n.Val)
		sub := *env
		sub.bound = map[string]Val{}
		for k, b := range env.bound {
			sub.bound[k] = b
		}
		sub.bound[n.Name] = v
		return sub.eval(n.Body)
	case EUn:
		v := env.eval(n.X)
		switch n.Op {
		case "!":
			return term(fmt.Sprintf("(not %s)", v.T), tBool)
		case "-":
			if v.K == kConst {
				return Val{K: kConst, Const: new(big.Int).Neg(v.Const)}
			}
			if e.S.BV {
				return term(fmt.Sprintf("(bvneg %s)", v.T), v.Typ)
			}
			return term(fmt.Sprintf("(- %s)", v.T), v.Typ)
		case "^":
			if v.K == kConst {
				return Val{K: kConst, Const: new(big.Int).Not(v.Const)}
			}
			if e.S.BV {
				return term(fmt.Sprintf("(bvnot %s)", v.T), v.Typ)
			}
		}
		limitf("unary %s", n.Op)
	case EBin:
		return env.evalBin(n)
	case ECond:
		c := env.eval(n.C)
		a := env.eval(n.A)
		b := env.eval(n.B)
		a, b = env.unify(a, b)
		return term(fmt.Sprintf("(ite %s %s %s)", c.T, e.asTerm(env.st, a), e.asTerm(env.st, b)), a.Typ)
	case EQuant:
		return env.evalQuant(n)
	case ESel:
		return env.evalSel(n)
	case EIndex:
		return env.evalIndex(n)
	case ESlice:
		limitf("slice expressions in specs are not supported")
	case ECall:
		return env.evalCall(n)
	}
	limitf("spec expression %T", x)
	return Val{}
}

func (env *Env) unify(a, b Val) (Val, Val) {
	e := env.e
	if a.K == kConst && b.K == kConst {
		return e.coerce(a, tInt), e.coerce(b, tInt)
	}
	if a.K == kConst {
		return env.coerceTo(a, b.Typ), b
	}
	if b.K == kConst {
		return a, env.coerceTo(b, a.Typ)
	}
	// comparing an interface value with a concrete pointer: box the pointer
	if a.K == kTerm && b.K == kTerm && a.Typ != nil && b.Typ != nil {
		_, ai := a.Typ.Underlying().(*types.Interface)
		_, bi := b.Typ.Underlying().(*types.Interface)
		_, ap := a.Typ.Underlying().(*types.Pointer)
		_, bp := b.Typ.Underlying().(*types.Pointer)
		if ai && bp {
			return a, e.makeInterface(env.st, b, b.Typ, a.Typ)
		}
		if bi && ap {
			return e.makeInterface(env.st, a, a.Typ, b.Typ), b
		}
	}
	return a, b
}

func (env *Env) coerceTo(v Val, t types.Type) Val {
	e := env.e
	if v.K != kConst {
		return v
	}
	if t == nil {
		return e.coerce(v, tInt)
	}
	if v.Typ == types.Typ[types.UntypedNil] || (v.Const.Sign() == 0 && !isInteger(t)) {
		return term(e.zero(t), t)
	}
	return e.coerce(v, t)
}

func (env *Env) evalBin(n EBin) Val {
	e := env.e
	switch n.Op {
	case "&&", "||", "==>", "<==>":
		a := env.eval(n.L)
		b := env.eval(n.R)
		op := map[string]string{"&&": "and", "||": "or", "==>": "=>", "<==>": "="}[n.Op]
		return term(fmt.Sprintf("(%s %s %s)", op, a.T, b.T), tBool)
	}
	a := env.eval(n.L)
	b := env.eval(n.R)
	if a.K == kConst && b.K == kConst {
		switch n.Op {
		case "==", "!=", "<", "<=", ">", ">=":
			c := a.Const.Cmp(b.Const)
			r := map[string]bool{"==": c == 0, "!=": c != 0, "<": c < 0, "<=": c <= 0, ">": c > 0, ">=": c >= 0}[n.Op]
			if r {
				return term("true", tBool)
			}
			return term("false", tBool)
		}
		if r, ok := constFold(n.Op, a.Const, b.Const); ok {
			return Val{K: kConst, Const: r}
		}
	}
	// shifts: right operand keeps its own type
	if n.Op == "<<" || n.Op == ">>" {
		if a.K == kConst {
			a = e.coerce(a, tInt)
			if b.K == kTerm && e.S.BV {
				a = e.coerce(Val{K: kConst, Const: a.Const}, b.Typ)
			}
		}
		if b.K == kConst {
			b = e.coerce(b, a.Typ)
		} else if e.S.BV {
			b = term(e.convertInt(b.T, b.Typ, a.Typ), a.Typ)
		}
		return term(e.arith(n.Op, a.T, b.T, a.Typ), a.Typ)
	}
	a, b = env.unify(a, b)
	switch n.Op {
	case "==", "!=":
		return term(e.compare(n.Op, e.asTerm(env.st, a), e.asTerm(env.st, b), a.Typ), tBool)
	case "<", "<=", ">", ">=":
		return term(e.compare(n.Op, a.T, b.T, a.Typ), tBool)
	}
	if bt, ok := a.Typ.Underlying().(*types.Basic); ok && bt.Info()&types.IsString != 0 && n.Op == "+" {
		return term(fmt.Sprintf("(str.++ %s %s)", a.T, b.T), a.Typ)
	}
	if _, ok := a.Typ.(*GhostT); ok {
		limitf("arithmetic on ghost collection")
	}
	// spec arithmetic on math ints does not wrap when both are plain int
	return term(e.arith(n.Op, a.T, b.T, a.Typ), a.Typ)
}

func (env *Env) evalQuant(n EQuant) Val {
	e := env.e
	sub := *env
	sub.bound = map[string]Val{}
	for k, b := range env.bound {
		sub.bound[k] = b
	}
	var decls, guards []string
	for _, v := range n.Vars {
		t := e.P.resolveType(v.Type, env.pkg, env.fnForTypes())
		name := fmt.Sprintf("%s!q%d", mangle(v.Name), e.S.fresh)
		e.S.fresh++
		decls = append(decls, fmt.Sprintf("(%s %s)", name, e.sortOf(t)))
		sub.bound[v.Name] = term(name, t)
		if g := e.rangeConstraint(name, t); g != "" && isInteger(t) && !isPlainInt(t) {
			guards = append(guards, g)
		}
	}
	body := sub.eval(n.Body)
	if body.K != kTerm {
		limitf("quantifier body is not boolean")
	}
	bt := body.T
	if len(guards) > 0 {
		g := strings.Join(guards, " ")
		if n.Forall {
			bt = fmt.Sprintf("(=> (and %s) %s)", g, bt)
		} else {
			bt = fmt.Sprintf("(and %s %s)", g, bt)
		}
	}
	q := "exists"
	if n.Forall {
		q = "forall"
	}
	if len(n.Trig) > 0 {
		var ps []string
		for _, t := range n.Trig {
			ps = append(ps, e.asTerm(env.st, sub.eval(t)))
		}
		pats := fmt.Sprintf(":pattern (%s)", strings.Join(ps, " "))
		for _, grp := range n.Alt {
			var as []string
			for _, t := range grp {
				as = append(as, e.asTerm(env.st, sub.eval(t)))
			}
			pats += fmt.Sprintf(" :pattern (%s)", strings.Join(as, " "))
		}
		bt = fmt.Sprintf("(! %s %s)", bt, pats)
	}
	return term(fmt.Sprintf("(%s (%s) %s)", q, strings.Join(decls, " "), bt), tBool)
}

func isPlainInt(t types.Type) bool {
	b, ok := t.(*types.Basic)
	return ok && b.Kind() == types.Int
}

func (env *Env) fnForTypes() *ssa.Function {
	if env.typeFn != nil {
		return env.typeFn
	}
	if env.fr != nil {
		return env.fr.fn
	}
	return nil
}

func (env *Env) evalSel(n ESel) Val {
	e := env.e
	// package-qualified name?
	if id, ok := n.X.(EIdent); ok {
		if _, isVal := env.lookupIdent(id.Name); !isVal {
			if obj := e.P.lookupQualified(id.Name, n.Name, env.pkg); obj != nil {
				if v, ok := env.objVal(obj); ok {
					return v
				}
			}
			limitf("contract does not bind: %s.%s", id.Name, n.Name)
		}
	}
	// abstract field of a library object embedded BY VALUE in a heap struct (s.handlers.keys where handlers is a
	// sync.Map field): the object is identified by the address of the field, not by the struct value
	if inner, ok := n.X.(ESel); ok {
		if _, isPkg := inner.X.(EIdent); !isPkg || func() bool { _, isVal := env.lookupIdent(inner.X.(EIdent).Name); return isVal }() {
			outer := env.eval(inner.X)
			if outer.K == kTerm {
				if pt, ok := outer.Typ.Underlying().(*types.Pointer); ok {
					if st, ok := pt.Elem().Underlying().(*types.Struct); ok {
						if i, path, ok := findField(st, inner.Name); ok && len(path) == 1 {
							ft := st.Field(i).Type()
							if _, isPtr := ft.Underlying().(*types.Pointer); !isPtr {
								if h, srt, aft, ok := e.absFieldOf(ft, n.Name); ok {
									p := &Ptr{Kind: pField, Ref: outer.T, Root: pt.Elem(), Path: []int{i}}
									ref := e.asTerm(env.st, ptrVal(p, types.NewPointer(ft)))
									return term(fmt.Sprintf("(select %s %s)", e.heapGet(env.st, h, srt), ref), aft)
								}
							}
						}
					}
				}
			}
		}
	}
	base := env.eval(n.X)
	return env.selectField(base, n.Name)
}

func (env *Env) selectField(base Val, name string) Val {
	e := env.e
	if base.K == kPtr {
		// pointer to local struct etc.
		st, ok := e.ptrElemType(base.P).Underlying().(*types.Struct)
		if ok {
			for i := 0; i < st.NumFields(); i++ {
				if st.Field(i).Name() == name {
					return e.loadPtr(env.st, base.P.withField(i))
				}
			}
		}
		limitf("contract does not bind: field %s", name)
	}
	if base.K != kTerm {
		limitf("field selection on non-term")
	}
	if h, srt, ft, ok := e.absFieldOf(base.Typ, name); ok {
		hm := e.heapGet(env.st, h, srt)
		return term(fmt.Sprintf("(select %s %s)", hm, e.absRef(base)), ft)
	}
	switch t := base.Typ.Underlying().(type) {
	case *types.Pointer:
		st, ok := t.Elem().Underlying().(*types.Struct)
		if !ok {
			break
		}
		if i, path, ok := findField(st, name); ok {
			p := &Ptr{Kind: pField, Ref: base.T, Root: t.Elem(), Path: []int{}}
			_ = i
			for _, k := range path {
				p = p.withField(k)
			}
			return e.loadPtr(env.st, p)
		}
	case *types.Struct:
		for i := 0; i < t.NumFields(); i++ {
			if t.Field(i).Name() == name {
				return term(fmt.Sprintf("(%s %s)", e.S.structAcc(base.Typ, i), base.T), t.Field(i).Type())
			}
		}
	case *types.Slice:
		switch name {
		case "ref":
			return term(fmt.Sprintf("(sl_ref %s)", base.T), types.Typ[types.Uintptr])
		case "off":
			return term(fmt.Sprintf("(sl_off %s)", base.T), tInt)
		}
	}
	limitf("contract does not bind: no field %s in %s", name, base.Typ)
	return Val{}
}

// findField finds a (possibly promoted through embedded structs by value) field
func findField(st *types.Struct, name string) (int, []int, bool) {
	for i := 0; i < st.NumFields(); i++ {
		if st.Field(i).Name() == name {
			return i, []int{i}, true
		}
	}
	for i := 0; i < st.NumFields(); i++ {
		f := st.Field(i)
		if f.Embedded() {
			if inner, ok := f.Type().Underlying().(*types.Struct); ok {
				if _, p, ok := findField(inner, name); ok {
					return i, append([]int{i}, p...), true
				}
			}
		}
	}
	return 0, nil, false
}

func (env *Env) evalIndex(n EIndex) Val {
	e := env.e
	base := env.eval(n.X)
	idx := env.eval(n.I)
	if g, ok := base.Typ.(*GhostT); ok {
		idx = env.coerceTo(idx, g.Key)
		if g.Kind == "set" {
			return term(fmt.Sprintf("(select %s %s)", base.T, e.asTerm(env.st, idx)), tBool)
		}
		return term(fmt.Sprintf("(select %s %s)", base.T, e.asTerm(env.st, idx)), g.Elem)
	}
	switch t := base.Typ.Underlying().(type) {
	case *types.Slice:
		idx = env.coerceTo(idx, tInt)
		name, sort := e.arrMapName(t.Elem())
		h := e.heapGet(env.st, name, sort)
		return term(fmt.Sprintf("(select (select %s (sl_ref %s)) %s)", h, base.T, e.slIdx(base.T, idx.T)), t.Elem())
	case *types.Array:
		idx = env.coerceTo(idx, tInt)
		return term(fmt.Sprintf("(select %s %s)", base.T, idx.T), t.Elem())
	case *types.Map:
		idx = env.coerceTo(idx, t.Key())
		hn, hs, vn, vs := e.mapHeapNames(t)
		h := e.heapGet(env.st, hn, hs)
		vv := e.heapGet(env.st, vn, vs)
		k := e.asTerm(env.st, idx)
		return term(fmt.Sprintf("(ite (and (not (= %s 0)) (select (select %s %s) %s)) (select (select %s %s) %s) %s)", base.T, h, base.T, k, vv, base.T, k, e.zero(t.Elem())), t.Elem())
	case *types.Basic:
		idx = env.coerceTo(idx, tInt)
		e.S.DefineFun("str_byte", "(declare-fun str_byte (String Int) Int)")
		return term(e.fromMathIntT(fmt.Sprintf("(str_byte %s %s)", base.T, e.toMathInt(idx.T)), types.Typ[types.Byte]), types.Typ[types.Byte])
	}
	limitf("index on %s", base.Typ)
	return Val{}
}

func (env *Env) evalCall(n ECall) Val {
	e := env.e
	// method call on a value: x.M(args)
	if sel, ok := n.Fun.(ESel); ok {
		// qualified spec/builtin like errors.Is
		if id, ok := sel.X.(EIdent); ok {
			if _, isVal := env.lookupIdent(id.Name); !isVal {
				q := id.Name + "." + sel.Name
				if sf := e.P.specs[q]; sf != nil {
					return env.applySpec(sf, n.Args)
				}
				if sf := e.P.specs[sel.Name]; sf != nil && strings.HasSuffix(sf.Pkg, "/"+id.Name) {
					return env.applySpec(sf, n.Args)
				}
				if q == "errors.Is" {
					ea := env.coerceTo(env.eval(n.Args[0]), types.Universe.Lookup("error").Type())
					eb := env.coerceTo(env.eval(n.Args[1]), types.Universe.Lookup("error").Type())
					return env.errorsIs(ea, eb)
				}
				// a Go function of another package used as a pure function
				if obj := e.P.lookupQualified(id.Name, sel.Name, env.pkg); obj != nil {
					if fo, ok := obj.(*types.Func); ok {
						if fn := e.P.prog.FuncValue(fo); fn != nil {
							var args []Val
							for i, a := range n.Args {
								args = append(args, env.coerceTo(env.eval(a), fn.Params[i].Type()))
							}
							return e.pureApp(env.st, fn, args)
						}
					}
				}
				limitf("contract does not bind: %s", q)
			}
		}
		recv := env.eval(sel.X)
		return env.pureMethod(recv, sel.Name, n.Args)
	}
	id, ok := n.Fun.(EIdent)
	if !ok {
		limitf("call of non-identifier in spec")
	}
	switch id.Name {
	case "len":
		v := env.eval(n.Args[0])
		switch t := v.Typ.Underlying().(type) {
		case *types.Slice:
			return term(fmt.Sprintf("(sl_len %s)", v.T), tInt)
		case *types.Basic:
			return term(e.fromMathInt(fmt.Sprintf("(str.len %s)", v.T)), tInt)
		case *types.Array:
			return term(e.intLit(t.Len(), tInt), tInt)
		}
		limitf("len of %s in spec", v.Typ)
	case "cap":
		v := env.eval(n.Args[0])
		if _, ok := v.Typ.Underlying().(*types.Chan); ok {
			// buffer size of a channel: fixed by the make that created it (chan_cap is set there)
			e.S.DefineFun("chan_cap", "(declare-fun chan_cap (Int) Int)")
			return term(fmt.Sprintf("(chan_cap %s)", v.T), tInt)
		}
		return term(fmt.Sprintf("(sl_cap %s)", v.T), tInt)
	case "has":
		m := env.eval(n.Args[0])
		mt, ok := m.Typ.Underlying().(*types.Map)
		if !ok {
			limitf("has() on non-map")
		}
		k := env.coerceTo(env.eval(n.Args[1]), mt.Key())
		hn, hs, _, _ := e.mapHeapNames(mt)
		h := e.heapGet(env.st, hn, hs)
		return term(fmt.Sprintf("(and (not (= %s 0)) (select (select %s %s) %s))", m.T, h, m.T, e.asTerm(env.st, k)), tBool)
	case "upd", "add", "remove":
		m := env.eval(n.Args[0])
		g, ok := m.Typ.(*GhostT)
		if !ok {
			limitf("%s() on non-ghost collection", id.Name)
		}
		k := env.coerceTo(env.eval(n.Args[1]), g.Key)
		var v string
		switch {
		case id.Name == "upd" && g.Kind == "gmap":
			v = e.asTerm(env.st, env.coerceTo(env.eval(n.Args[2]), g.Elem))
		case id.Name == "add" && g.Kind == "set":
			v = "true"
		case id.Name == "remove" && g.Kind == "set":
			v = "false"
		default:
			limitf("%s() does not apply to %s", id.Name, g)
		}
		return term(fmt.Sprintf("(store %s %s %s)", m.T, e.asTerm(env.st, k), v), m.Typ)
	case "snap":
		// snap(s): a ghost copy (gmap[int]T, indices from 0) of the current content of slice s.
		// Only meaningful in ghost assignments: the defining fact is added to the path condition.
		v := env.eval(n.Args[0])
		sl, ok := v.Typ.Underlying().(*types.Slice)
		if !ok {
			limitf("snap() of non-slice")
		}
		gt := &GhostT{Kind: "gmap", Key: tInt, Elem: sl.Elem()}
		a := e.S.Fresh("snap", e.sortOf(gt))
		name, sort := e.arrMapName(sl.Elem())
		h := e.heapGet(env.st, name, sort)
		iv := fmt.Sprintf("i!s%d", e.S.fresh)
		is := e.S.IntSort()
		env.st.assume(fmt.Sprintf("(forall ((%s %s)) (! (= (select %s %s) (select (select %s (sl_ref %s)) %s)) :pattern ((select %s %s))))",
			iv, is, a, iv, h, v.T, e.slIdx(v.T, iv), a, iv))
		return term(a, gt)
	case "callresult0", "callresult1", "callresult2":
		limitf("callresultN is an identifier, not a function")
	case "keptArrays":
		// keptArrays("T"): every backing array of element type T that existed in the old state has its old contents
		t := e.P.resolveType(typeArgText(n.Args[0]), env.pkg, env.fnForTypes())
		name, sort := e.arrMapName(t)
		cur := e.heapGet(env.st, name, sort)
		old := e.heapGet(env.old, name, sort)
		if cur == old {
			return term("true", tBool)
		}
		return term(fmt.Sprintf("(forall ((r!k Int)) (! (=> (and (<= 0 r!k) (<= r!k %s)) (= (select %s r!k) (select %s r!k))) :pattern ((select %s r!k))))", env.old.alloc, cur, old, cur), tBool)
	case "absheap":
		// absheap("pkg.T", "field"): the current abstract field `field` of all objects of type T, as one ghost
		// map from object to value; lets a ghost variable snapshot library state at a program point
		t := e.P.resolveType(typeArgText(n.Args[0]), env.pkg, env.fnForTypes())
		h, sort, ft, ok := e.absFieldOf(t, typeArgText(n.Args[1]))
		if !ok {
			limitf("contract does not bind: absheap(%s, %s)", typeArgText(n.Args[0]), typeArgText(n.Args[1]))
		}
		return term(e.heapGet(env.st, h, sort), &GhostT{Kind: "gmap", Key: types.NewPointer(t), Elem: ft})
	case "keptArraysExcept":
		// keptArraysExcept("T", s): every backing array of element type T that existed in the old state,
		// other than the one slice s had in the old state, has its old contents
		t := e.P.resolveType(typeArgText(n.Args[0]), env.pkg, env.fnForTypes())
		name, sort := e.arrMapName(t)
		cur := e.heapGet(env.st, name, sort)
		old := e.heapGet(env.old, name, sort)
		if cur == old {
			return term("true", tBool)
		}
		oenv := *env
		oenv.st = env.old
		oenv.inEnsures = true
		sv := oenv.eval(n.Args[1])
		return term(fmt.Sprintf("(forall ((r!k Int)) (! (=> (and (<= 0 r!k) (<= r!k %s) (not (= r!k (sl_ref %s)))) (= (select %s r!k) (select %s r!k))) :pattern ((select %s r!k))))", env.old.alloc, sv.T, cur, old, cur), tBool)
	case "card":
		// card(s): number of elements of a ghost set (only the facts >= 0, element => positive, zero => empty are known)
		v := env.eval(n.Args[0])
		g, ok := v.Typ.(*GhostT)
		if !ok || g.Kind != "set" {
			limitf("card() of a non-set")
		}
		return term(fmt.Sprintf("(%s %s)", e.declCard(e.sortOf(g.Key)), v.T), tInt)
	case "allocated":
		// allocated(p): p refers to an object that exists in the current state (or is nil)
		v := env.eval(n.Args[0])
		ref := e.asTerm(env.st, v)
		if _, ok := v.Typ.Underlying().(*types.Slice); ok {
			ref = fmt.Sprintf("(sl_ref %s)", ref)
		}
		return term(fmt.Sprintf("(and (<= 0 %s) (<= %s %s))", ref, ref, env.st.alloc), tBool)
	case "deref":
		// deref(p): the value a pointer points to
		v := env.eval(n.Args[0])
		if len(n.Args) == 2 {
			// deref(p, "T"): p is an untyped pointer (unsafe.Pointer inside atomic.Pointer[T])
			v.Typ = types.NewPointer(e.P.resolveType(typeArgText(n.Args[1]), env.pkg, env.fnForTypes()))
		}
		return e.loadThrough(env.st, v)
	case "dyncall":
		// dyncall(f, args..., "resultType"): the application of a pure function value (see opt puredyn);
		// string arguments stand for byte-slice contents
		fv := env.eval(n.Args[0])
		rt := e.P.resolveType(typeArgText(n.Args[len(n.Args)-1]), env.pkg, env.fnForTypes())
		name := "dyn_pure"
		sorts := []string{"Int"}
		ts := []string{e.asTerm(env.st, fv)}
		for _, a := range n.Args[1 : len(n.Args)-1] {
			v := env.eval(a)
			if v.K == kConst {
				v = e.coerce(v, tInt)
			}
			if b, ok := v.Typ.Underlying().(*types.Basic); ok && b.Info()&types.IsString != 0 {
				sorts = append(sorts, "String")
				ts = append(ts, v.T)
				name += "_bytes"
				continue
			}
			sorts = append(sorts, e.sortOf(v.Typ))
			ts = append(ts, e.asTerm(env.st, v))
			name += "_" + mangle(e.sortOf(v.Typ))
		}
		name += "_to_" + mangle(e.sortOf(rt))
		e.S.DeclareFun(name, sorts, e.sortOf(rt))
		e.pureRangeAxiom(name, sorts, rt)
		return term(fmt.Sprintf("(%s %s)", name, strings.Join(ts, " ")), rt)
	case "implements":
		// implements(x, pkg.Iface): the dynamic type of x implements the interface (same predicate as a type assertion)
		v := env.eval(n.Args[0])
		t := e.P.resolveType(typeArgText(n.Args[1]), env.pkg, env.fnForTypes())
		pred := "impl_" + shortTypeName(t)
		e.S.DeclareFun(pred, []string{"Int"}, "Bool")
		return term(fmt.Sprintf("(and (not (= %s (mk_iface 0 0))) (%s (ityp %s)))", v.T, pred, v.T), tBool)
	case "cast":
		// cast(x, T): x viewed at another interface type, or the concrete pointer/value it boxes
		v := env.eval(n.Args[0])
		t := e.P.resolveType(typeArgText(n.Args[1]), env.pkg, env.fnForTypes())
		if _, ok := t.Underlying().(*types.Interface); ok {
			return term(v.T, t)
		}
		e.dispatchAxioms(v.Typ, t)
		return term(e.unboxIface(v.T, t), t)
	case "strCount":
		// number of non-overlapping occurrences of a one-character separator
		s0, sub := env.eval(n.Args[0]), env.eval(n.Args[1])
		return term(e.fromMathInt(fmt.Sprintf("(- (str.len %s) (str.len (str.replace_all %s %s \"\")))", s0.T, s0.T, sub.T)), tInt)
	case "lower", "indexOf", "substr", "contains", "hasPrefix", "hasSuffix", "concat", "upper":
		// SMT-LIB string theory (str.to_lower/str.to_upper are decided by cvc5 only)
		var as []string
		for _, a := range n.Args {
			v := env.eval(a)
			if v.K == kConst {
				v = e.coerce(v, tInt)
				as = append(as, e.toMathInt(v.T))
				continue
			}
			if isInteger(v.Typ) {
				as = append(as, e.toMathInt(v.T))
			} else {
				as = append(as, v.T)
			}
		}
		switch id.Name {
		case "lower":
			return term(fmt.Sprintf("(str.to_lower %s)", as[0]), tString)
		case "upper":
			return term(fmt.Sprintf("(str.to_upper %s)", as[0]), tString)
		case "indexOf":
			return term(e.fromMathInt(fmt.Sprintf("(str.indexof %s %s 0)", as[0], as[1])), tInt)
		case "substr":
			return term(fmt.Sprintf("(str.substr %s %s %s)", as[0], as[1], as[2]), tString)
		case "contains":
			return term(fmt.Sprintf("(str.contains %s %s)", as[0], as[1]), tBool)
		case "hasPrefix":
			return term(fmt.Sprintf("(str.prefixof %s %s)", as[1], as[0]), tBool)
		case "hasSuffix":
			return term(fmt.Sprintf("(str.suffixof %s %s)", as[1], as[0]), tBool)
		case "concat":
			return term(fmt.Sprintf("(str.++ %s)", strings.Join(as, " ")), tString)
		}
	case "zero":
		t := e.P.resolveType(n.Args[0].String(), env.pkg, env.fnForTypes())
		return term(e.zero(t), t)
	case "sameBacking":
		a, b := env.eval(n.Args[0]), env.eval(n.Args[1])
		return term(fmt.Sprintf("(and (= (sl_ref %s) (sl_ref %s)) (= (sl_off %s) (sl_off %s)))", a.T, b.T, a.T, b.T), tBool)
	case "emptyset":
		t := e.P.resolveType("set["+n.Args[0].String()+"]", env.pkg, env.fnForTypes())
		return term(e.zero(t), t)
	case "typeid":
		v := env.eval(n.Args[0])
		return term(fmt.Sprintf("(ityp %s)", v.T), tInt)
	case "dyntype":
		// dyntype(x, T): dynamic type of interface x is T
		v := env.eval(n.Args[0])
		t := e.P.resolveType(typeArgText(n.Args[1]), env.pkg, env.fnForTypes())
		return term(fmt.Sprintf("(= (ityp %s) %d)", v.T, e.S.TypeID(t)), tBool)
	case "isfunc":
		// isfunc(f, "Name"): the function value f is one that THIS execution made from the function, method
		// value or closure called Name (for a method value `x.M` written `M`; optionally a third argument: the
		// receiver it is bound to). Decided over the closures the execution has created so far: a disjunction
		// of identities with those of that name, so a value of unknown origin is never accepted.
		v := env.eval(n.Args[0])
		ft := e.asTerm(env.st, v)
		want := strings.Trim(typeArgText(n.Args[1]), "\"")
		var recv string
		if len(n.Args) > 2 {
			recv = e.asTerm(env.st, env.eval(n.Args[2]))
		}
		var ds []string
		keys := make([]string, 0, len(e.closureRev))
		for k := range e.closureRev {
			keys = append(keys, k)
		}
		sort.Strings(keys)
		for _, k := range keys {
			cv := e.closureRev[k]
			if cv.Fn == nil {
				continue
			}
			name := strings.TrimSuffix(cv.Fn.Name(), "$bound")
			if name != want {
				continue
			}
			d := fmt.Sprintf("(= %s %s)", ft, k)
			if recv != "" {
				if len(cv.Binds) != 1 {
					continue
				}
				d = fmt.Sprintf("(and %s (= %s %s))", d, e.asTerm(env.st, cv.Binds[0]), recv)
			}
			ds = append(ds, d)
		}
		if len(ds) == 0 {
			return term("false", tBool)
		}
		if len(ds) == 1 {
			return term(ds[0], tBool)
		}
		return term("(or "+strings.Join(ds, " ")+")", tBool)
	case "fresh":
		v := env.eval(n.Args[0])
		ref := e.asTerm(env.st, v)
		if _, ok := v.Typ.Underlying().(*types.Slice); ok {
			ref = fmt.Sprintf("(sl_ref %s)", ref)
		}
		if _, ok := v.Typ.Underlying().(*types.Interface); ok {
			// the object behind an interface value
			ref = e.absRef(v)
		}
		return term(fmt.Sprintf("(> %s %s)", ref, env.old.alloc), tBool)
	case "unchanged":
		// unchanged(s): the backing array of slice s is what it was at entry
		v := env.eval(n.Args[0])
		sl, ok := v.Typ.Underlying().(*types.Slice)
		if !ok {
			limitf("unchanged() of non-slice")
		}
		name, sort := e.arrMapName(sl.Elem())
		cur := e.heapGet(env.st, name, sort)
		old := e.heapGet(env.old, name, sort)
		return term(fmt.Sprintf("(= (select %s (sl_ref %s)) (select %s (sl_ref %s)))", cur, v.T, old, v.T), tBool)
	case "implies":
		a, b := env.eval(n.Args[0]), env.eval(n.Args[1])
		return term(fmt.Sprintf("(=> %s %s)", a.T, b.T), tBool)
	case "bytes":
		// bytes(s): content of a byte slice as an SMT array view starting at 0 -- not supported
		limitf("bytes()")
	case "str":
		// str(b): string content of byte slice b
		v := env.eval(n.Args[0])
		e.S.DeclareFun("bytes_to_str", []string{fmt.Sprintf("(Array %s %s)", e.S.IntSort(), e.sortOf(types.Typ[types.Byte])), e.S.IntSort(), e.S.IntSort()}, "String")
		name, sort := e.arrMapName(types.Typ[types.Byte])
		h := e.heapGet(env.st, name, sort)
		return term(fmt.Sprintf("(bytes_to_str (select %s (sl_ref %s)) (sl_off %s) (sl_len %s))", h, v.T, v.T, v.T), tString)
	}
	// conversions
	if t := e.P.tryResolveType(id.Name, env.pkg, env.fnForTypes()); t != nil && len(n.Args) == 1 {
		v := env.eval(n.Args[0])
		if _, toIface := t.Underlying().(*types.Interface); toIface && v.Typ != nil {
			if _, fromIface := v.Typ.Underlying().(*types.Interface); !fromIface && v.K != kConst {
				// any(x): box a concrete value exactly as the MakeInterface instruction does
				return e.makeInterface(env.st, v, v.Typ, t)
			}
		}
		if v.K == kConst {
			return env.coerceTo(v, t)
		}
		return e.convert(env.st, v, v.Typ, t)
	}
	if sf := e.P.specFor(id.Name, env.pkg); sf != nil {
		return env.applySpec(sf, n.Args)
	}
	// pure Go function of the package
	if obj := e.P.lookupObj(id.Name, env.pkg); obj != nil {
		if fo, ok := obj.(*types.Func); ok {
			fn := e.P.prog.FuncValue(fo)
			if fn != nil {
				var args []Val
				for i, a := range n.Args {
					args = append(args, env.coerceTo(env.eval(a), fn.Params[i].Type()))
				}
				return e.pureApp(env.st, fn, args)
			}
		}
	}
	limitf("contract does not bind: unknown function %q", id.Name)
	return Val{}
}

func (env *Env) errorsIs(a, b Val) Val {
	e := env.e
	e.S.DeclareFun("errors_Is", []string{"Iface", "Iface"}, "Bool")
	if !e.S.has("ax_errors_Is") {
		e.S.decls["ax_errors_Is"] = &Decl{}
		e.S.AddAxiom([]string{"errors_Is"}, "(forall ((x Iface)) (! (=> (not (= x (mk_iface 0 0))) (errors_Is x x)) :pattern ((errors_Is x x))))")
		e.S.AddAxiom([]string{"errors_Is"}, "(forall ((y Iface)) (! (=> (not (= y (mk_iface 0 0))) (not (errors_Is (mk_iface 0 0) y))) :pattern ((errors_Is (mk_iface 0 0) y))))")
	}
	return term(fmt.Sprintf("(errors_Is %s %s)", a.T, b.T), tBool)
}

func (env *Env) pureMethod(recv Val, name string, argx []Expr) Val {
	e := env.e
	if recv.K != kTerm {
		limitf("method call on non-term in spec")
	}
	// find the method
	ms := types.NewMethodSet(recv.Typ)
	var sel *types.Selection
	for i := 0; i < ms.Len(); i++ {
		if ms.At(i).Obj().Name() == name {
			sel = ms.At(i)
		}
	}
	if sel == nil {
		limitf("contract does not bind: method %s on %s", name, recv.Typ)
	}
	sig := sel.Type().(*types.Signature)
	var args []Val
	for i, a := range argx {
		args = append(args, env.coerceTo(env.eval(a), sig.Params().At(i).Type()))
	}
	if _, ok := recv.Typ.Underlying().(*types.Interface); ok {
		return e.pureMethodApp(env.st, recv.Typ, name, recv, args, sig)
	}
	fn := e.P.prog.MethodValue(sel)
	if fn == nil {
		limitf("no method value for %s", name)
	}
	return e.pureApp(env.st, fn, append([]Val{recv}, args...))
}

// applySpec applies a spec function (define-fun or uninterpreted)
func (env *Env) applySpec(sf *SpecFunc, argx []Expr) Val {
	e := env.e
	if len(argx) != len(sf.Params) {
		limitf("spec %s: wrong number of arguments", sf.Name)
	}
	if sf.Macro {
		// expand in the current state: parameters are bound, heap reads see the caller's heap
		sub := *env
		sub.bound = map[string]Val{}
		for k, b := range env.bound {
			sub.bound[k] = b
		}
		for i, a := range argx {
			pt := e.P.resolveType(sf.Params[i].Type, sf.Pkg, env.fnForTypes())
			sub.bound[sf.Params[i].Name] = env.coerceTo(env.eval(a), pt)
		}
		sub.pkg = sf.Pkg
		return sub.eval(sf.Body.E)
	}
	name, rt, ptypes := e.declareSpec(sf)
	var ts []string
	for i, a := range argx {
		v := env.coerceTo(env.eval(a), ptypes[i])
		ts = append(ts, e.asTerm(env.st, v))
	}
	if len(ts) == 0 {
		return term(name, rt)
	}
	return term(fmt.Sprintf("(%s %s)", name, strings.Join(ts, " ")), rt)
}

// declareSpec makes sure the SMT definition of a spec function exists.
func (e *Engine) declareSpec(sf *SpecFunc) (string, types.Type, []types.Type) {
	name := "spec_" + mangle(sf.Name)
	var ptypes []types.Type
	for _, p := range sf.Params {
		ptypes = append(ptypes, e.P.resolveType(p.Type, sf.Pkg, nil))
	}
	rt := e.P.resolveType(sf.Result, sf.Pkg, nil)
	if e.S.has(name) {
		return name, rt, ptypes
	}
	var sorts, decl []string
	for i, p := range sf.Params {
		s := e.sortOf(ptypes[i])
		sorts = append(sorts, s)
		decl = append(decl, fmt.Sprintf("(%s %s)", "p_"+mangle(p.Name), s))
	}
	if sf.Body == nil || e.isOpaque(sf.Name) {
		// uninterpreted, or hidden in this unit (opt opaque=...): only lemmas speak about it
		e.S.DeclareFun(name, sorts, e.sortOf(rt))
		return name, rt, ptypes
	}
	if sf.Rec {
		// declare first, then define via axiom-free define-fun-rec
		e.S.decls[name] = &Decl{Name: name}
	}
	env := &Env{e: e, st: &State{heap: map[string]string{}, cells: map[int]Val{}, ghost: map[string]Val{}, alloc: "alloc!0"}, params: map[string]Val{}, bound: map[string]Val{}, pkg: sf.Pkg}
	env.old = env.st
	for i, p := range sf.Params {
		env.bound[p.Name] = term("p_"+mangle(p.Name), ptypes[i])
	}
	body := env.eval(sf.Body.E)
	body = env.coerceTo(body, rt)
	kw := "define-fun"
	if sf.Rec {
		kw = "define-fun-rec"
		delete(e.S.decls, name)
	}
	e.S.DefineFun(name, fmt.Sprintf("(%s %s (%s) %s %s)", kw, name, strings.Join(decl, " "), e.sortOf(rt), e.asTerm(env.st, body)))
	return name, rt, ptypes
}
