package main

import (
	"fmt"
	"go/token"
	"go/types"
	"math/big"
	"strings"

	"golang.org/x/tools/go/ssa"
)

func (e *Engine) safetyOn(fr *FrameSt, kind string) bool {
	c := fr.contract
	if c == nil {
		// inlined callee without own contract: inherit from the unit
		c = e.unit.C
	}
	if c == nil {
		return false
	}
	if !c.SafetySet {
		return true
	}
	if c.Safety["off"] {
		return false
	}
	return c.Safety[kind] || c.Safety["all"]
}

func (e *Engine) instrLabel(fr *FrameSt, in ssa.Instruction) string {
	if n, ok := e.anchorsOf(fr.fn)[in]; ok {
		return n
	}
	// ordinal among same-kind instructions
	kind := fmt.Sprintf("%T", in)
	kind = strings.TrimPrefix(kind, "*ssa.")
	n := 0
	for _, b := range fr.fn.Blocks {
		for _, x := range b.Instrs {
			if fmt.Sprintf("%T", x) == fmt.Sprintf("%T", in) {
				n++
			}
			if x == in {
				return fmt.Sprintf("%s#%d", strings.ToLower(kind), n)
			}
		}
	}
	return kind
}

func (e *Engine) nilCheck(st *State, in ssa.Instruction, v Val, what string) {
	fr := st.top()
	if v.K != kTerm {
		return
	}
	if !e.safetyOn(fr, "nil") {
		// still assume non-nil afterwards (execution continued)
		return
	}
	var goal string
	switch v.Typ.Underlying().(type) {
	case *types.Interface:
		goal = fmt.Sprintf("(not (= %s (mk_iface 0 0)))", v.T)
	default:
		goal = fmt.Sprintf("(not (= %s 0))", v.T)
	}
	name := fmt.Sprintf("%s.nil-deref.%s", e.oblPrefix(fr.fn), what)
	e.addObl(st, name, "safety", "non-nil "+what, goal)
	st.assume(goal)
}

func (e *Engine) boundsCheck(st *State, in ssa.Instruction, idx, length string, what string, inclusive bool) {
	fr := st.top()
	if !e.safetyOn(fr, "bounds") {
		return
	}
	op := "<"
	if inclusive {
		op = "<="
	}
	goal := fmt.Sprintf("(and %s %s)", e.compare("<=", e.intLit(0, tInt), idx, tInt), e.compare(op, idx, length, tInt))
	name := fmt.Sprintf("%s.bounds.%s", e.oblPrefix(fr.fn), what)
	e.addObl(st, name, "safety", "index in range "+what, goal)
	st.assume(goal)
}

func (e *Engine) execInstrs(st *State, b *ssa.BasicBlock, start int) {
	for i := start; i < len(b.Instrs); i++ {
		if st.dead {
			return
		}
		in := b.Instrs[i]
		if cont := e.execInstr(st, b, i, in); !cont {
			return
		}
	}
}

// execInstr returns false when control was transferred (or the path ended).
func (e *Engine) execInstr(st *State, b *ssa.BasicBlock, idx int, in ssa.Instruction) bool {
	fr := st.top()
	switch x := in.(type) {
	case *ssa.DebugRef:
		return true
	case *ssa.Alloc:
		el := x.Type().(*types.Pointer).Elem()
		_, isFuncVar := el.Underlying().(*types.Signature)
		// a variable of function type that escapes only because a closure captures it (a callback parameter used
		// inside an inner closure) stays a local cell: in the box heap its value would be forgotten at the first loop
		// head that stores any function value, and the callback could then not be executed (seeded change C09_m3
		// showed closestPrecedingNode's callback was never run)
		if x.Heap && !isFuncVar {
			_, isArr := el.Underlying().(*types.Array)
			_ = isArr
			v := e.allocObject(st, el, x.Comment)
			fr.cells[x] = v
			fr.regs[x] = v
		} else {
			if at, ok := el.Underlying().(*types.Array); ok {
				// local arrays live in the array heap so that they can be sliced
				_ = at
				v := e.allocObject(st, el, x.Comment)
				fr.cells[x] = v
				fr.regs[x] = v
				return true
			}
			var init Val
			switch el.Underlying().(type) {
			case *types.Signature:
				init = term("0", el)
			default:
				init = term(e.zero(el), el)
			}
			c := e.newCell(st, init)
			v := ptrVal(&Ptr{Kind: pCell, Cell: c, Root: el}, x.Type())
			fr.cells[x] = v
			fr.regs[x] = v
		}
		return true
	case *ssa.Store:
		e.runAts(st, in, false)
		addr := e.reg(st, x.Addr)
		if addr.K == kTerm {
			e.nilCheck(st, in, addr, e.instrLabel(fr, in))
		}
		v := e.reg(st, x.Val)
		e.storeThrough(st, addr, v)
		e.runAts(st, in, true)
		return true
	case *ssa.UnOp:
		xv := e.reg(st, x.X)
		switch x.Op {
		case token.MUL:
			if xv.K == kTerm {
				e.nilCheck(st, in, xv, e.instrLabel(fr, in))
			}
			fr.regs[x] = e.loadThrough(st, xv)
		case token.NOT:
			fr.regs[x] = term(fmt.Sprintf("(not %s)", xv.T), x.Type())
		case token.SUB:
			if e.S.BV {
				fr.regs[x] = term(fmt.Sprintf("(bvneg %s)", xv.T), x.Type())
			} else if isInteger(x.Type()) {
				fr.regs[x] = term(e.wrapUnsigned(fmt.Sprintf("(- %s)", xv.T), x.Type()), x.Type())
			} else {
				fr.regs[x] = term(fmt.Sprintf("(- %s)", xv.T), x.Type())
			}
		case token.XOR:
			if e.S.BV {
				fr.regs[x] = term(fmt.Sprintf("(bvnot %s)", xv.T), x.Type())
			} else if isUnsigned(x.Type()) {
				fr.regs[x] = term(fmt.Sprintf("(- %s %s)", new(big.Int).Sub(pow2(e.width(x.Type())), big.NewInt(1)).String(), xv.T), x.Type())
			} else {
				fr.regs[x] = term(fmt.Sprintf("(- (- %s) 1)", xv.T), x.Type())
			}
		case token.ARROW:
			// channel receive: arbitrary value
			e.noteAssumption("channel receives return arbitrary values (no channel model)")
			if x.CommaOk {
				t := x.Type().(*types.Tuple)
				fr.regs[x] = Val{K: kTuple, Typ: t, Tup: []Val{e.freshOf(st, "recv", t.At(0).Type()), e.freshOf(st, "recvok", tBool)}}
			} else {
				fr.regs[x] = e.freshOf(st, "recv", x.Type())
			}
			e.runAts(st, in, false)
			e.runAts(st, in, true)
		default:
			limitf("unop %s", x.Op)
		}
		return true
	case *ssa.BinOp:
		fr.regs[x] = e.binop(st, x.Op, e.reg(st, x.X), e.reg(st, x.Y), x.X.Type(), x.Type(), in)
		return true
	case *ssa.Phi:
		for i, p := range b.Preds {
			if p == fr.prev {
				fr.regs[x] = e.reg(st, x.Edges[i])
				return true
			}
		}
		limitf("phi without matching predecessor")
	case *ssa.FieldAddr:
		xv := e.reg(st, x.X)
		if xv.K == kTerm {
			e.nilCheck(st, in, xv, fmt.Sprintf("field %s", fieldName(x.X.Type(), x.Field))+e.disamb(fr, in))
		}
		p := e.asPtr(st, xv)
		fr.regs[x] = ptrVal(p.withField(x.Field), x.Type())
		return true
	case *ssa.Field:
		xv := e.reg(st, x.X)
		ft := x.X.Type().Underlying().(*types.Struct).Field(x.Field).Type()
		fr.regs[x] = term(fmt.Sprintf("(%s %s)", e.S.structAcc(x.X.Type(), x.Field), xv.T), ft)
		return true
	case *ssa.IndexAddr:
		xv := e.reg(st, x.X)
		iv := e.coerceIdx(e.reg(st, x.Index), x.Index.Type())
		switch t := x.X.Type().Underlying().(type) {
		case *types.Slice:
			e.boundsCheck(st, in, iv, fmt.Sprintf("(sl_len %s)", xv.T), e.instrLabel(fr, in), false)
			idx := e.slIdx(xv.T, iv)
			fr.regs[x] = ptrVal(&Ptr{Kind: pElem, Ref: fmt.Sprintf("(sl_ref %s)", xv.T), Idx: idx, Root: t.Elem()}, x.Type())
		case *types.Pointer:
			at := t.Elem().Underlying().(*types.Array)
			p := e.asPtr(st, xv)
			if p.Kind == pField && len(p.Path) == 1 {
				// array-typed field of a heap struct
				e.boundsCheck(st, in, iv, e.intLit(at.Len(), tInt), e.instrLabel(fr, in), false)
				fr.regs[x] = ptrVal(&Ptr{Kind: pFieldElem, Ref: p.Ref, Idx: iv, Root: p.Root, Path: []int{p.Path[0]}}, x.Type())
				return true
			}
			if p.Kind != pBox || len(p.Path) != 0 {
				limitf("index into array that is a struct field")
			}
			e.boundsCheck(st, in, iv, e.intLit(at.Len(), tInt), e.instrLabel(fr, in), false)
			fr.regs[x] = ptrVal(&Ptr{Kind: pElem, Ref: p.Ref, Idx: iv, Root: at.Elem()}, x.Type())
		default:
			limitf("indexaddr on %s", x.X.Type())
		}
		return true
	case *ssa.Index:
		xv := e.reg(st, x.X)
		iv := e.coerceIdx(e.reg(st, x.Index), x.Index.Type())
		switch t := x.X.Type().Underlying().(type) {
		case *types.Array:
			e.boundsCheck(st, in, iv, e.intLit(t.Len(), tInt), e.instrLabel(fr, in), false)
			fr.regs[x] = term(fmt.Sprintf("(select %s %s)", xv.T, iv), t.Elem())
		case *types.Basic: // string
			ivI := e.toMathInt(iv)
			e.boundsCheck(st, in, iv, e.fromMathInt(fmt.Sprintf("(str.len %s)", xv.T)), e.instrLabel(fr, in), false)
			e.S.DefineFun("str_byte", "(declare-fun str_byte (String Int) Int)")
			r := e.fromMathIntT(fmt.Sprintf("(str_byte %s %s)", xv.T, ivI), x.Type())
			if !e.S.BV {
				st.assume(fmt.Sprintf("(and (<= 0 %s) (< %s 256))", r, r))
			}
			fr.regs[x] = term(r, x.Type())
		default:
			limitf("index on %s", x.X.Type())
		}
		return true
	case *ssa.Slice:
		fr.regs[x] = e.sliceOp(st, x, in)
		return true
	case *ssa.MakeSlice:
		r := e.allocRef(st, "slice")
		l := e.coerceIdx(e.reg(st, x.Len), x.Len.Type())
		c := e.coerceIdx(e.reg(st, x.Cap), x.Cap.Type())
		el := x.Type().Underlying().(*types.Slice).Elem()
		name, sort := e.arrMapName(el)
		h := e.heapGet(st, name, sort)
		e.heapSet(st, name, sort, fmt.Sprintf("(store %s %s %s)", h, r, e.zero(types.NewArray(el, 0))))
		fr.regs[x] = term(fmt.Sprintf("(mk_slice %s %s %s %s)", r, e.intLit(0, tInt), l, c), x.Type())
		return true
	case *ssa.MakeMap:
		r := e.allocRef(st, "map")
		m := x.Type().Underlying().(*types.Map)
		hn, hs, vn, vs := e.mapHeapNames(m)
		h := e.heapGet(st, hn, hs)
		e.heapSet(st, hn, hs, fmt.Sprintf("(store %s %s ((as const (Array %s Bool)) false))", h, r, e.sortOf(m.Key())))
		v := e.heapGet(st, vn, vs)
		e.heapSet(st, vn, vs, fmt.Sprintf("(store %s %s ((as const (Array %s %s)) %s))", v, r, e.sortOf(m.Key()), e.sortOf(m.Elem()), e.zero(m.Elem())))
		fr.regs[x] = term(r, x.Type())
		return true
	case *ssa.MakeChan:
		ref := e.allocRef(st, "chan")
		fr.regs[x] = term(ref, x.Type())
		// the buffer size is a property of the channel object for its whole life
		e.S.DefineFun("chan_cap", "(declare-fun chan_cap (Int) Int)")
		st.assume(fmt.Sprintf("(= (chan_cap %s) %s)", ref, e.asTerm(st, e.coerce(e.reg(st, x.Size), tInt))))
		return true
	case *ssa.MapUpdate:
		e.runAts(st, in, false)
		mv := e.reg(st, x.Map)
		m := x.Map.Type().Underlying().(*types.Map)
		k := e.asTerm(st, e.coerce(e.reg(st, x.Key), m.Key()))
		v := e.asTerm(st, e.coerce(e.reg(st, x.Value), m.Elem()))
		if e.safetyOn(fr, "nil") {
			goal := fmt.Sprintf("(not (= %s 0))", mv.T)
			e.addObl(st, fmt.Sprintf("%s.nil-map.%s", e.oblPrefix(fr.fn), e.instrLabel(fr, in)), "safety", "write to nil map", goal)
			st.assume(goal)
		}
		hn, hs, vn, vs := e.mapHeapNames(m)
		h := e.heapGet(st, hn, hs)
		e.heapSet(st, hn, hs, fmt.Sprintf("(store %s %s (store (select %s %s) %s true))", h, mv.T, h, mv.T, k))
		vv := e.heapGet(st, vn, vs)
		e.heapSet(st, vn, vs, fmt.Sprintf("(store %s %s (store (select %s %s) %s %s))", vv, mv.T, vv, mv.T, k, v))
		e.runAts(st, in, true)
		return true
	case *ssa.Lookup:
		xv := e.reg(st, x.X)
		if m, ok := x.X.Type().Underlying().(*types.Map); ok {
			e.runAts(st, in, false)
			k := e.asTerm(st, e.coerce(e.reg(st, x.Index), m.Key()))
			hn, hs, vn, vs := e.mapHeapNames(m)
			h := e.heapGet(st, hn, hs)
			vv := e.heapGet(st, vn, vs)
			has := fmt.Sprintf("(and (not (= %s 0)) (select (select %s %s) %s))", xv.T, h, xv.T, k)
			val := fmt.Sprintf("(ite %s (select (select %s %s) %s) %s)", has, vv, xv.T, k, e.zero(m.Elem()))
			if x.CommaOk {
				fr.regs[x] = Val{K: kTuple, Typ: x.Type(), Tup: []Val{e.loaded(st, term(val, m.Elem())), term(has, tBool)}}
			} else {
				fr.regs[x] = e.loaded(st, term(val, m.Elem()))
			}
			e.runAts(st, in, true)
			return true
		}
		// string index
		iv := e.coerceIdx(e.reg(st, x.Index), x.Index.Type())
		e.S.DefineFun("str_byte", "(declare-fun str_byte (String Int) Int)")
		e.boundsCheck(st, in, iv, e.fromMathInt(fmt.Sprintf("(str.len %s)", xv.T)), e.instrLabel(fr, in), false)
		r := e.fromMathIntT(fmt.Sprintf("(str_byte %s %s)", xv.T, e.toMathInt(iv)), x.Type())
		fr.regs[x] = term(r, x.Type())
		return true
	case *ssa.Range:
		xv := e.reg(st, x.X)
		// iterator: remember the collection
		fr.regs[x] = Val{K: kTuple, Tup: []Val{xv}, Typ: x.X.Type()}
		if m, ok := x.X.Type().Underlying().(*types.Map); ok {
			// ghost set of the keys this iteration has produced so far (`visited` in loop invariants):
			// Next yields a present key not yet visited and reports the end exactly when none is left
			visT := &GhostT{Kind: "set", Key: m.Key()}
			st.ghost["visited"] = term(e.zero(visT), visT)
		}
		return true
	case *ssa.Next:
		it := e.reg(st, x.Iter)
		coll := it.Tup[0]
		tup := x.Type().(*types.Tuple)
		ok := e.freshOf(st, "next_ok", tBool)
		var k, v Val
		if x.IsString {
			k = e.freshOf(st, "next_i", tup.At(1).Type())
			v = e.freshOf(st, "next_r", tup.At(2).Type())
			st.assume(fmt.Sprintf("(=> %s (and %s %s))", ok.T, e.compare("<=", e.intLit(0, tInt), k.T, tInt), e.compare("<", k.T, e.fromMathInt(fmt.Sprintf("(str.len %s)", coll.T)), tInt)))
		} else {
			m := coll.Typ.Underlying().(*types.Map)
			k = e.freshOf(st, "next_k", m.Key())
			hn, hs, vn, vs := e.mapHeapNames(m)
			h := e.heapGet(st, hn, hs)
			vv := e.heapGet(st, vn, vs)
			st.assume(fmt.Sprintf("(=> %s (and (not (= %s 0)) (select (select %s %s) %s)))", ok.T, coll.T, h, coll.T, k.T))
			v = e.loaded(st, term(fmt.Sprintf("(select (select %s %s) %s)", vv, coll.T, k.T), m.Elem()))
			if vis, has := st.ghost["visited"]; has {
				if g, isSet := vis.Typ.(*GhostT); isSet && g.Kind == "set" && types.Identical(g.Key, m.Key()) {
					kv := fmt.Sprintf("k!v%d", e.S.fresh)
					e.S.fresh++
					// a produced key is new; the iteration ends exactly when every present key has been produced
					st.assume(fmt.Sprintf("(=> %s (not (select %s %s)))", ok.T, vis.T, k.T))
					st.assume(fmt.Sprintf("(=> (not %s) (forall ((%s %s)) (! (=> (and (not (= %s 0)) (select (select %s %s) %s)) (select %s %s)) :pattern ((select (select %s %s) %s)) :pattern ((select %s %s)))))",
						ok.T, kv, e.sortOf(m.Key()), coll.T, h, coll.T, kv, vis.T, kv, h, coll.T, kv, vis.T, kv))
					st.ghost["visited"] = term(fmt.Sprintf("(ite %s (store %s %s true) %s)", ok.T, vis.T, k.T, vis.T), vis.Typ)
				}
			}
			e.noteAssumption("map iteration yields each present key exactly once in an arbitrary order (ghost set `visited`); the map is not modified while it is ranged over")
		}
		fr.regs[x] = Val{K: kTuple, Typ: tup, Tup: []Val{ok, k, v}}
		return true
	case *ssa.Extract:
		t := e.reg(st, x.Tuple)
		if t.K != kTuple {
			limitf("extract from non-tuple")
		}
		fr.regs[x] = t.Tup[x.Index]
		return true
	case *ssa.MakeInterface:
		fr.regs[x] = e.makeInterface(st, e.reg(st, x.X), x.X.Type(), x.Type())
		return true
	case *ssa.ChangeInterface:
		v := e.reg(st, x.X)
		fr.regs[x] = term(v.T, x.Type())
		return true
	case *ssa.ChangeType:
		v := e.reg(st, x.X)
		v.Typ = x.Type()
		fr.regs[x] = v
		return true
	case *ssa.Convert:
		fr.regs[x] = e.convert(st, e.reg(st, x.X), x.X.Type(), x.Type())
		return true
	case *ssa.MultiConvert:
		fr.regs[x] = e.convert(st, e.reg(st, x.X), x.X.Type(), x.Type())
		return true
	case *ssa.SliceToArrayPointer:
		limitf("slice to array pointer")
	case *ssa.TypeAssert:
		fr.regs[x] = e.typeAssert(st, x, in)
		return true
	case *ssa.MakeClosure:
		var binds []Val
		for _, bnd := range x.Bindings {
			binds = append(binds, e.reg(st, bnd))
		}
		fr.regs[x] = Val{K: kClosure, Fn: x.Fn.(*ssa.Function), Binds: binds, Typ: x.Type()}
		return true
	case *ssa.Call:
		e.runAts(st, in, false)
		if st.dead {
			return false
		}
		return e.execCall(st, b, idx, x)
	case *ssa.Go:
		e.runAts(st, in, false)
		name := "go " + calleeName(x.Common())
		e.unmodelled[name] = true
		e.noteAssumption("goroutines started by functions under contract are not modelled (their effects are not part of the contract)")
		e.runAts(st, in, true)
		return true
	case *ssa.Defer:
		e.runAts(st, in, false)
		if st.dead {
			return false
		}
		cc := x.Common()
		var d deferred
		d.call = cc
		if !cc.IsInvoke() {
			d.fnv = e.reg(st, cc.Value)
		} else {
			d.fnv = e.reg(st, cc.Value)
		}
		for _, a := range cc.Args {
			d.args = append(d.args, e.reg(st, a))
		}
		fr.defers = append(fr.defers, d)
		return true
	case *ssa.RunDefers:
		return e.runDefers(st, b, idx)
	case *ssa.Send:
		e.noteAssumption("channel sends have no modelled effect")
		e.runAts(st, in, false)
		e.runAts(st, in, true)
		return !st.dead
	case *ssa.Select:
		return e.execSelect(st, b, idx, x)
	case *ssa.Jump:
		e.execBlock(st, b.Succs[0], b)
		return false
	case *ssa.If:
		c := e.reg(st, x.Cond)
		if c.T == "true" {
			if e.reachProbesFor(fr.fn) {
				e.addReach(st, fmt.Sprintf("%s.reach.b%d.then", e.oblPrefix(fr.fn), b.Index))
			}
			e.execBlock(st, b.Succs[0], b)
			return false
		}
		if c.T == "false" {
			if e.reachProbesFor(fr.fn) {
				e.addReach(st, fmt.Sprintf("%s.reach.b%d.else", e.oblPrefix(fr.fn), b.Index))
			}
			e.execBlock(st, b.Succs[1], b)
			return false
		}
		st2 := st.clone()
		st.assume(c.T)
		st.trace = append(st.trace, fmt.Sprintf("b%d:T", b.Index))
		probe := e.reachProbesFor(fr.fn)
		if probe {
			e.addReach(st, fmt.Sprintf("%s.reach.b%d.then", e.oblPrefix(fr.fn), b.Index))
		}
		e.execBlock(st, b.Succs[0], b)
		st2.assume(fmt.Sprintf("(not %s)", c.T))
		st2.trace = append(st2.trace, fmt.Sprintf("b%d:F", b.Index))
		if probe {
			e.addReach(st2, fmt.Sprintf("%s.reach.b%d.else", e.oblPrefix(fr.fn), b.Index))
		}
		e.execBlock(st2, b.Succs[1], b)
		return false
	case *ssa.Return:
		e.runAts(st, in, false)
		var rs []Val
		for _, r := range x.Results {
			rs = append(rs, e.reg(st, r))
		}
		k := fr.k
		k(st, rs)
		return false
	case *ssa.Panic:
		if e.safetyOn(fr, "panic") {
			e.addObl(st, fmt.Sprintf("%s.no-panic.%s", e.oblPrefix(fr.fn), e.instrLabel(fr, in)), "safety", "explicit panic unreachable", "false")
		}
		e.paths++
		return false
	}
	limitf("unsupported instruction %T in %s", in, fr.fn)
	return false
}

func (e *Engine) disamb(fr *FrameSt, in ssa.Instruction) string {
	// ordinal of this FieldAddr among those with the same field name
	fa := in.(*ssa.FieldAddr)
	n := 0
	for _, b := range fr.fn.Blocks {
		for _, x := range b.Instrs {
			if y, ok := x.(*ssa.FieldAddr); ok && y.Field == fa.Field && types.Identical(y.X.Type(), fa.X.Type()) {
				n++
				if y == fa {
					return fmt.Sprintf("#%d", n)
				}
			}
		}
	}
	return ""
}

func fieldName(ptrT types.Type, i int) string {
	st := ptrT.Underlying().(*types.Pointer).Elem().Underlying().(*types.Struct)
	return st.Field(i).Name()
}

func calleeName(cc *ssa.CallCommon) string {
	if cc.IsInvoke() {
		return cc.Method.Name()
	}
	if f := cc.StaticCallee(); f != nil {
		return f.Name()
	}
	if b, ok := cc.Value.(*ssa.Builtin); ok {
		return b.Name()
	}
	return "dyn"
}

// index values are Go ints (or other integer types): normalise to the int sort
func (e *Engine) coerceIdx(v Val, t types.Type) string {
	if v.K == kConst {
		return e.S.IntLit(v.Const, tInt)
	}
	return e.convertInt(v.T, t, tInt)
}

// toMathInt converts an int-sorted term to SMT Int (identity in Int mode)
func (e *Engine) toMathInt(t string) string {
	if e.S.BV {
		return fmt.Sprintf("(bv2nat %s)", t)
	}
	return t
}

func (e *Engine) fromMathInt(t string) string {
	if e.S.BV {
		return fmt.Sprintf("((_ int2bv 64) %s)", t)
	}
	return t
}

func (e *Engine) fromMathIntT(t string, typ types.Type) string {
	if e.S.BV {
		return fmt.Sprintf("((_ int2bv %d) %s)", e.width(typ), t)
	}
	return t
}

func (e *Engine) binop(st *State, op token.Token, a, b Val, opndT, resT types.Type, in ssa.Instruction) Val {
	a = e.coerce(a, opndT)
	b = e.coerce(b, opndT)
	ops := op.String()
	switch op {
	case token.EQL, token.NEQ:
		at, bt := e.asTerm(st, a), e.asTerm(st, b)
		return term(e.compare(ops, at, bt, opndT), tBool)
	case token.LSS, token.LEQ, token.GTR, token.GEQ:
		return term(e.compare(ops, a.T, b.T, opndT), tBool)
	case token.LAND:
		return term(fmt.Sprintf("(and %s %s)", a.T, b.T), tBool)
	case token.LOR:
		return term(fmt.Sprintf("(or %s %s)", a.T, b.T), tBool)
	}
	if bt, ok := opndT.Underlying().(*types.Basic); ok {
		if bt.Info()&types.IsString != 0 && op == token.ADD {
			return term(fmt.Sprintf("(str.++ %s %s)", a.T, b.T), resT)
		}
		if bt.Info()&types.IsFloat != 0 {
			m := map[token.Token]string{token.ADD: "+", token.SUB: "-", token.MUL: "*", token.QUO: "/"}
			return term(fmt.Sprintf("(%s %s %s)", m[op], a.T, b.T), resT)
		}
		if bt.Info()&types.IsBoolean != 0 {
			switch op {
			case token.AND:
				return term(fmt.Sprintf("(and %s %s)", a.T, b.T), resT)
			case token.OR:
				return term(fmt.Sprintf("(or %s %s)", a.T, b.T), resT)
			}
		}
	}
	switch op {
	case token.SHL, token.SHR:
		// shift count may have a different type: convert to operand type
		yt := in.(*ssa.BinOp).Y.Type()
		bt := b.T
		if e.S.BV {
			bt = e.convertInt(b.T, yt, resT)
			if !isUnsigned(yt) {
				// negative shift panics; ignore
			}
		}
		return term(e.arith(ops, a.T, bt, resT), resT)
	case token.QUO, token.REM:
		if isInteger(resT) && e.safetyOn(st.top(), "div") {
			goal := fmt.Sprintf("(not (= %s %s))", b.T, e.intLit(0, resT))
			e.addObl(st, fmt.Sprintf("%s.div-zero.%s", e.oblPrefix(st.top().fn), e.instrLabel(st.top(), in)), "safety", "division by zero", goal)
			st.assume(goal)
		}
	}
	return term(e.arith(ops, a.T, b.T, resT), resT)
}

func (e *Engine) sliceOp(st *State, x *ssa.Slice, in ssa.Instruction) Val {
	fr := st.top()
	xv := e.reg(st, x.X)
	zero := e.intLit(0, tInt)
	var lo, hi, mx string
	if x.Low != nil {
		lo = e.coerceIdx(e.reg(st, x.Low), x.Low.Type())
	} else {
		lo = zero
	}
	lbl := e.instrLabel(fr, in)
	switch t := x.X.Type().Underlying().(type) {
	case *types.Slice:
		ln, cp := fmt.Sprintf("(sl_len %s)", xv.T), fmt.Sprintf("(sl_cap %s)", xv.T)
		if x.High != nil {
			hi = e.coerceIdx(e.reg(st, x.High), x.High.Type())
		} else {
			hi = ln
		}
		if x.Max != nil {
			mx = e.coerceIdx(e.reg(st, x.Max), x.Max.Type())
		} else {
			mx = cp
		}
		e.boundsCheck(st, in, hi, cp, lbl+".high", true)
		e.boundsCheck(st, in, lo, hi, lbl+".low", true)
		ns := fmt.Sprintf("(mk_slice (sl_ref %s) %s %s %s)", xv.T,
			e.arith("+", fmt.Sprintf("(sl_off %s)", xv.T), lo, tInt), e.arith("-", hi, lo, tInt), e.arith("-", mx, lo, tInt))
		if !e.S.BV && lo != zero {
			// element i of s[lo:] is element lo+i of s: stated over the index function so that facts about the
			// elements of s (whose patterns mention sidx(s, .)) are found for the elements of the re-slice
			iv := fmt.Sprintf("i!r%d", e.S.fresh)
			e.S.fresh++
			st.assume(fmt.Sprintf("(forall ((%s Int)) (! (= %s %s) :pattern (%s)))", iv, e.slIdx(ns, iv), e.slIdx(xv.T, fmt.Sprintf("(+ %s %s)", lo, iv)), e.slIdx(ns, iv)))
		}
		return term(ns, x.Type())
	case *types.Pointer:
		at := t.Elem().Underlying().(*types.Array)
		p := e.asPtr(st, xv)
		n := e.intLit(at.Len(), tInt)
		if x.High != nil {
			hi = e.coerceIdx(e.reg(st, x.High), x.High.Type())
		} else {
			hi = n
		}
		e.boundsCheck(st, in, hi, n, lbl+".high", true)
		e.boundsCheck(st, in, lo, hi, lbl+".low", true)
		return term(fmt.Sprintf("(mk_slice %s %s %s %s)", p.Ref, lo, e.arith("-", hi, lo, tInt), e.arith("-", n, lo, tInt)), x.Type())
	case *types.Basic: // string
		ln := e.fromMathInt(fmt.Sprintf("(str.len %s)", xv.T))
		if x.High != nil {
			hi = e.coerceIdx(e.reg(st, x.High), x.High.Type())
		} else {
			hi = ln
		}
		e.boundsCheck(st, in, hi, ln, lbl+".high", true)
		e.boundsCheck(st, in, lo, hi, lbl+".low", true)
		return term(fmt.Sprintf("(str.substr %s %s %s)", xv.T, e.toMathInt(lo), e.toMathInt(e.arith("-", hi, lo, tInt))), x.Type())
	}
	limitf("slice of %s", x.X.Type())
	return Val{}
}

func (e *Engine) makeInterface(st *State, v Val, from, to types.Type) Val {
	r := e.makeInterface0(st, v, from, to)
	// dynamic dispatch of pure methods: I.M(box(v)) == T.M(v) when both are declared pure
	if it, ok := to.Underlying().(*types.Interface); ok && v.K == kTerm {
		ms := types.NewMethodSet(from)
		for i := 0; i < it.NumMethods(); i++ {
			m := it.Method(i)
			sig := m.Type().(*types.Signature)
			if sig.Params().Len() != 0 || sig.Results().Len() != 1 || !e.P.pures[e.P.ifaceKey(to, m.Name())] {
				continue
			}
			sel := ms.Lookup(m.Pkg(), m.Name())
			if sel == nil {
				continue
			}
			fn := e.P.prog.MethodValue(sel)
			if fn == nil || !(e.P.pures[fn.String()] || e.P.pures[e.P.funcKey(fn)]) {
				continue
			}
			a := e.pureMethodApp(st, to, m.Name(), r, nil, sig)
			b := e.pureApp(st, fn, []Val{v})
			st.assume(fmt.Sprintf("(= %s %s)", a.T, b.T))
		}
	}
	return r
}

func (e *Engine) makeInterface0(st *State, v Val, from, to types.Type) Val {
	id := e.S.TypeID(from)
	switch from.Underlying().(type) {
	case *types.Pointer, *types.Map, *types.Chan:
		return term(fmt.Sprintf("(mk_iface %d %s)", id, e.asTerm(st, v)), to)
	case *types.Signature:
		return term(fmt.Sprintf("(mk_iface %d %s)", id, e.asTerm(st, v)), to)
	}
	srt := e.sortOf(from)
	box := "box_" + mangle(srt)
	unbox := "unbox_" + mangle(srt)
	e.S.DeclareFun(box, []string{srt}, "Int")
	e.S.DeclareFun(unbox, []string{"Int"}, srt)
	if !e.S.has("ax_" + box) {
		e.S.decls["ax_"+box] = &Decl{}
		e.S.AddAxiom([]string{box}, fmt.Sprintf("(forall ((x %s)) (! (= (%s (%s x)) x) :pattern ((%s x))))", srt, unbox, box, box))
	}
	return term(fmt.Sprintf("(mk_iface %d (%s %s))", id, box, e.asTerm(st, e.coerce(v, from))), to)
}

func (e *Engine) unboxIface(iv string, to types.Type) string {
	switch to.Underlying().(type) {
	case *types.Pointer, *types.Map, *types.Chan, *types.Signature:
		return fmt.Sprintf("(ival %s)", iv)
	}
	srt := e.sortOf(to)
	box := "box_" + mangle(srt)
	unbox := "unbox_" + mangle(srt)
	e.S.DeclareFun(box, []string{srt}, "Int")
	e.S.DeclareFun(unbox, []string{"Int"}, srt)
	return fmt.Sprintf("(%s (ival %s))", unbox, iv)
}

func (e *Engine) typeAssert(st *State, x *ssa.TypeAssert, in ssa.Instruction) Val {
	fr := st.top()
	v := e.reg(st, x.X)
	var ok, val string
	if _, isIface := x.AssertedType.Underlying().(*types.Interface); isIface {
		// interface-to-interface: dynamic type implements target
		pred := "impl_" + shortTypeName(x.AssertedType)
		e.S.DeclareFun(pred, []string{"Int"}, "Bool")
		// known implementers
		for k, id := range e.S.typeID {
			_ = k
			_ = id
		}
		ok = fmt.Sprintf("(and (not (= %s (mk_iface 0 0))) (%s (ityp %s)))", v.T, pred, v.T)
		val = v.T
		e.noteAssumption("interface-to-interface type assertions use an uninterpreted implements-predicate")
	} else {
		id := e.S.TypeID(x.AssertedType)
		ok = fmt.Sprintf("(= (ityp %s) %d)", v.T, id)
		val = e.unboxIface(v.T, x.AssertedType)
	}
	if x.CommaOk {
		res := term(fmt.Sprintf("(ite %s %s %s)", ok, val, e.zero(x.AssertedType)), x.AssertedType)
		return Val{K: kTuple, Typ: x.Type(), Tup: []Val{res, term(ok, tBool)}}
	}
	if e.safetyOn(fr, "assert") {
		e.addObl(st, fmt.Sprintf("%s.type-assert.%s", e.oblPrefix(fr.fn), e.instrLabel(fr, in)), "safety", "type assertion holds", ok)
	}
	st.assume(ok)
	return e.loaded(st, term(val, x.AssertedType))
}

func (e *Engine) convert(st *State, v Val, from, to types.Type) Val {
	if v.K != kTerm {
		v.Typ = to
		return v
	}
	fb, fok := from.Underlying().(*types.Basic)
	tb, tok := to.Underlying().(*types.Basic)
	if fok && tok {
		switch {
		case fb.Info()&types.IsInteger != 0 && tb.Info()&types.IsInteger != 0:
			return term(e.convertInt(v.T, from, to), to)
		case fb.Info()&types.IsInteger != 0 && tb.Info()&types.IsFloat != 0:
			if e.S.BV {
				limitf("int to float in bv mode")
			}
			return term(fmt.Sprintf("(to_real %s)", v.T), to)
		case fb.Info()&types.IsFloat != 0 && tb.Info()&types.IsInteger != 0:
			if e.S.BV {
				limitf("float to int in bv mode")
			}
			e.noteAssumption("float-to-int conversion modelled as truncation of a real (no overflow, no NaN)")
			return term(fmt.Sprintf("(ite (>= %s 0.0) (to_int %s) (- (to_int (- %s))))", v.T, v.T, v.T), to)
		case fb.Info()&types.IsFloat != 0 && tb.Info()&types.IsFloat != 0:
			return term(v.T, to)
		case fb.Info()&types.IsString != 0 && tb.Info()&types.IsString != 0:
			return term(v.T, to)
		case fb.Info()&types.IsInteger != 0 && tb.Info()&types.IsString != 0:
			return e.freshOf(st, "runestr", to)
		}
	}
	// string <-> []byte
	if tok && tb.Info()&types.IsString != 0 {
		if _, ok := from.Underlying().(*types.Slice); ok {
			e.S.DeclareFun("bytes_to_str", []string{fmt.Sprintf("(Array %s %s)", e.S.IntSort(), e.sortOf(types.Typ[types.Byte])), e.S.IntSort(), e.S.IntSort()}, "String")
			name, sort := e.arrMapName(types.Typ[types.Byte])
			h := e.heapGet(st, name, sort)
			r := fmt.Sprintf("(bytes_to_str (select %s (sl_ref %s)) (sl_off %s) (sl_len %s))", h, v.T, v.T, v.T)
			n := e.S.Fresh("str", "String")
			st.assume(fmt.Sprintf("(= %s %s)", n, r))
			st.assume(fmt.Sprintf("(= (str.len %s) %s)", n, e.toMathInt(fmt.Sprintf("(sl_len %s)", v.T))))
			return term(n, to)
		}
	}
	if fok && fb.Info()&types.IsString != 0 {
		if sl, ok := to.Underlying().(*types.Slice); ok {
			// fresh backing array whose contents are tied to the string by an uninterpreted function
			r := e.allocRef(st, "bytes")
			e.S.DeclareFun("str_to_bytes", []string{"String"}, fmt.Sprintf("(Array %s %s)", e.S.IntSort(), e.sortOf(sl.Elem())))
			if !e.S.BV && !e.S.has("ax_str_bytes") {
				e.S.decls["ax_str_bytes"] = &Decl{}
				e.S.AddAxiom([]string{"str_to_bytes", "bytes_to_str"}, "(forall ((s String)) (! (= (bytes_to_str (str_to_bytes s) 0 (str.len s)) s) :pattern ((str_to_bytes s))))")
			}
			name, sort := e.arrMapName(sl.Elem())
			h := e.heapGet(st, name, sort)
			e.heapSet(st, name, sort, fmt.Sprintf("(store %s %s (str_to_bytes %s))", h, r, v.T))
			ln := e.fromMathInt(fmt.Sprintf("(str.len %s)", v.T))
			return term(fmt.Sprintf("(mk_slice %s %s %s %s)", r, e.intLit(0, tInt), ln, ln), to)
		}
	}
	v.Typ = to
	return v
}

func (e *Engine) execSelect(st *State, b *ssa.BasicBlock, idx int, x *ssa.Select) bool {
	fr := st.top()
	e.noteAssumption("select is a nondeterministic choice among its cases (no blocking, no fairness)")
	n := len(x.States)
	total := n
	if !x.Blocking {
		total++
	}
	tup := x.Type().(*types.Tuple)
	for c := 0; c < total; c++ {
		s2 := st
		if c < total-1 {
			s2 = st.clone()
		}
		f2 := s2.top()
		var vs []Val
		which := c
		if c == n {
			which = -1
		}
		vs = append(vs, term(e.intLit(int64(which), tInt), tInt))
		vs = append(vs, e.freshOf(s2, "selok", tBool))
		for i := 2; i < tup.Len(); i++ {
			vs = append(vs, e.freshOf(s2, "selrecv", tup.At(i).Type()))
		}
		f2.regs[x] = Val{K: kTuple, Typ: tup, Tup: vs}
		s2.trace = append(s2.trace, fmt.Sprintf("select:%d", which))
		// "at after select#k": callresult0 is the index of the case taken, callargN the channel of case N
		e.runAts(s2, x, true)
		if s2.dead {
			continue
		}
		e.execInstrs(s2, b, idx+1)
	}
	_ = fr
	return false
}
