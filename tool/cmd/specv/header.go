package main

import (
	"regexp"
	"strings"
)

type regexpT = regexp.Regexp

func regexpMustCompile(s string) *regexp.Regexp { return regexp.MustCompile(s) }

var hdrNameRe = mustRe(`^([\w\./\-\$#@]+)\s*(?:\[[^\]]*\])?\s*`)
var hdrRecvRe = mustRe(`^(?:(\w+)\s+)?(\*?)\s*([\w\./\-]+)(?:\[[^\]]*\])?\s*$`)

// parseFuncHeader parses "(recv *T) Name(params) (results)" with nested parentheses.
// Returns the same 8-slot layout the old regular expression produced.
func parseFuncHeader(s string) []string {
	s = strings.TrimSpace(s)
	m := make([]string, 8)
	if strings.HasPrefix(s, "(") {
		j := matchParen(s, 0)
		if j < 0 {
			return nil
		}
		r := hdrRecvRe.FindStringSubmatch(strings.TrimSpace(s[1:j]))
		if r == nil {
			return nil
		}
		m[1], m[2], m[3] = r[1], r[2], r[3]
		s = strings.TrimSpace(s[j+1:])
	}
	nm := hdrNameRe.FindStringSubmatch(s)
	if nm == nil {
		return nil
	}
	m[4] = nm[1]
	s = strings.TrimSpace(s[len(nm[0]):])
	if strings.HasPrefix(s, "(") {
		j := matchParen(s, 0)
		if j < 0 {
			return nil
		}
		m[5] = s[1:j]
		s = strings.TrimSpace(s[j+1:])
	}
	if strings.HasPrefix(s, "(") {
		j := matchParen(s, 0)
		if j < 0 {
			return nil
		}
		m[6] = s[1:j]
		s = strings.TrimSpace(s[j+1:])
		if s != "" {
			return nil
		}
	} else if s != "" {
		m[7] = s
	}
	return m
}

func mustRe(s string) *regexpT { return regexpMustCompile(s) }
