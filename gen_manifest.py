#!/usr/bin/env python3
"""Regenerates MANIFEST.json from checks.json (claimed checks) and na.json (reasons for unclaimed properties)."""
import json, subprocess, os
here = os.path.dirname(os.path.abspath(__file__))
checks = json.load(open(os.path.join(here, 'checks.json')))
na = json.load(open(os.path.join(here, 'na.json')))
props = [json.loads(l) for l in open(os.path.join(here, 'properties.jsonl'))]
try:
    hooks = subprocess.check_output(['git', '-C', '/repo', 'log', '--format=%H %s', '69370bd..HEAD'], text=True).strip().splitlines()
except Exception:
    hooks = []
hook_commits = [l.split()[0] for l in hooks if ' verif:' in l or ' hooks:' in l]
m = {
 "version": 1,
 "setup_cmd": "./build.sh",
 "hooks": {
  "guard": "verif",
  "enable": "-tags verif: the only repository changes are comment-only files zz_contracts_verif.go (//go:build verif) holding the //@ contracts; no executable code. specv reads them as text (master copies under /verif/contracts/repo).",
  "baseline_off_cmd": "cd /repo && export GOFLAGS=-mod=mod GOPROXY=off GOSUMDB=off && go test -vet=off -count=1 -timeout 25m ./...",
  "source_commits": hook_commits,
  "add_only": True
 },
 "engines": [{
  "name": "specv", "path": "/verif/tool/cmd/specv",
  "serves_properties": sorted(checks.keys()),
  "kind_free_text": "contract-based deductive verifier for Go: //@ contracts (requires/ensures/invariant/decreases/modifies/ghost) on the real functions, weakest-precondition style symbolic execution over go/ssa of /repo's working tree, one SMT-LIB obligation per clause and path, discharged by z3 5.1.0 / z3 4.8.12 / cvc5 1.0.3; counterexamples replayed on the real code through go test -overlay"
 }],
 "checks": [],
 "notes": "All checks are deductive (level proof); what each proof does not decide is listed per check in level_note and in the evidence (not_decided). Properties not claimed are under not_applicable with the reason.",
 "not_applicable": []
}
for p in props:
    i = p['id']
    if i in checks:
        c = checks[i]
        note = "Trusted: go/ssa of x/tools v0.50.0 as Go semantics; specv VC generator; SMT solvers; assumed library contracts listed in the evidence. "
        if c.get('trusted'):
            note += "Also assumed: " + "; ".join(c['trusted']) + ". "
        if c.get('not_decided'):
            note += "Not decided by this check: " + "; ".join(c['not_decided']) + "."
        m['checks'].append({
            "property_id": i,
            "quick_cmd": f"./bin/specv check {i} --tier quick",
            "thorough_cmd": f"./bin/specv check {i} --tier thorough",
            "evidence_file": f"/verif/evidence/{i}.json",
            "replay_cmd_template": "./bin/specv replay {path}",
            "engine": "specv",
            "level_claimed": {"category": "proof", "text": c['level_text'], "design_ref": f"DESIGN.md section 4, {i}"},
            "level_note": note,
            "technique": c.get('technique', "contract-based deductive verification: SMT-discharged VCs generated from go/ssa of the real functions against //@ contracts"),
        })
    else:
        m['not_applicable'].append({"property_id": i, "reason": na.get(i, "check not built yet in this round; planned contracts are described in DESIGN.md section 4")})
json.dump(m, open(os.path.join(here, 'MANIFEST.json'), 'w'), indent=1)
print(len(m['checks']), 'checks,', len(m['not_applicable']), 'not applicable')
