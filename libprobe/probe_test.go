// Package libprobe samples the library behaviours that /verif/contracts/lib/*.spec ASSUME, on the real libraries of
// /repo's module graph. It proves nothing: it is a tripwire for an assumed contract that is simply false (as the
// assumption about idna.ToASCII once was). Run by /verif/scripts/lib_probe.sh through `go test -overlay`.
package libprobe

import (
	"bytes"
	"errors"
	"fmt"
	"io"
	"math/rand"
	"net/http"
	"os"
	"regexp"
	"strings"
	"sync"
	"testing"
	"time"

	"github.com/tidwall/wal"
	"github.com/twitchtv/twirp"
	"github.com/zhangyunhao116/skipmap"
)

func rng() *rand.Rand {
	return rand.New(rand.NewSource(20260922))
}

func randString(r *rand.Rand, alphabet string, max int) string {
	n := r.Intn(max + 1)
	b := make([]byte, n)
	for i := range b {
		b[i] = alphabet[r.Intn(len(alphabet))]
	}
	return string(b)
}

// acme.spec: the pattern [^a-z0-9-.]+ finds nothing exactly in strings made of a-z 0-9 - . ; such strings are
// lower-case and contain no '*'
func TestProbeDNSFilter(t *testing.T) {
	re := regexp.MustCompile(`[^a-z0-9-.]+`)
	r := rng()
	for i := 0; i < 200000; i++ {
		s := randString(r, "abcxyz019-.*_A:Zé ", 12)
		all := true
		for _, c := range []byte(s) {
			if !(c >= 'a' && c <= 'z' || c >= '0' && c <= '9' || c == '-' || c == '.') {
				all = false
			}
		}
		if (re.FindStringIndex(s) == nil) != all {
			t.Fatalf("PROBE-FAILED dns filter on %q", s)
		}
		if all && (strings.ToLower(s) != s || strings.Contains(s, "*")) {
			t.Fatalf("PROBE-FAILED dnsChars consequences on %q", s)
		}
	}
}

// std.spec: strings.SplitN for n == 2 and n == 3 in terms of Index/substring
func TestProbeSplitN(t *testing.T) {
	r := rng()
	for i := 0; i < 200000; i++ {
		s := randString(r, "ab:", 10)
		sep := ":"
		for _, n := range []int{2, 3} {
			got := strings.SplitN(s, sep, n)
			if !strings.Contains(s, sep) {
				if len(got) != 1 || got[0] != s {
					t.Fatalf("PROBE-FAILED SplitN(%q,%d)=%q", s, n, got)
				}
				continue
			}
			k := strings.Index(s, sep)
			rest := s[k+1:]
			if n == 2 || !strings.Contains(rest, sep) {
				if len(got) != 2 || got[0] != s[:k] || got[1] != rest {
					t.Fatalf("PROBE-FAILED SplitN(%q,%d)=%q", s, n, got)
				}
				continue
			}
			k2 := strings.Index(rest, sep)
			if len(got) != 3 || got[0] != s[:k] || got[1] != rest[:k2] || got[2] != rest[k2+1:] {
				t.Fatalf("PROBE-FAILED SplitN(%q,3)=%q", s, got)
			}
		}
		if p := strings.Split(s, sep); len(p) < 1 {
			t.Fatalf("PROBE-FAILED Split(%q) is empty", s)
		}
	}
}

// std.spec: io.ReadFull over a finite stream
func TestProbeReadFull(t *testing.T) {
	r := rng()
	for i := 0; i < 50000; i++ {
		data := []byte(randString(r, "abcdefgh", 20))
		pos := r.Intn(len(data) + 1)
		rd := bytes.NewReader(data[pos:])
		buf := make([]byte, r.Intn(12))
		n, err := io.ReadFull(rd, buf)
		if n < 0 || n > len(buf) || (err == nil) != (pos+len(buf) <= len(data)) || (err == nil && n != len(buf)) || (err != nil && len(buf) > 0 && n >= len(buf)) {
			t.Fatalf("PROBE-FAILED ReadFull n=%d err=%v len(buf)=%d avail=%d", n, err, len(buf), len(data)-pos)
		}
		if !bytes.Equal(buf[:n], data[pos:pos+n]) {
			t.Fatalf("PROBE-FAILED ReadFull content")
		}
	}
}

// std.spec: time arithmetic on wall-clock values
func TestProbeTime(t *testing.T) {
	r := rng()
	base := time.Unix(1700000000, 0)
	for i := 0; i < 100000; i++ {
		d := time.Duration(r.Int63n(int64(400*24*time.Hour))) - 200*24*time.Hour
		u := base.Add(d)
		if u.UnixNano() != base.UnixNano()+int64(d) || u.Sub(base) != d {
			t.Fatalf("PROBE-FAILED Add/Sub %v", d)
		}
		if a := d.Abs(); (d >= 0 && a != d) || (d < 0 && a != -d) || a < 0 {
			t.Fatalf("PROBE-FAILED Abs %v", d)
		}
		m := time.Duration(r.Int63n(int64(time.Hour))) + 1
		if d.Truncate(m) != d-d%m {
			t.Fatalf("PROBE-FAILED Truncate %v %v", d, m)
		}
	}
}

// twirp.spec: messages survive NewError / WithMeta / WrapError
func TestProbeTwirp(t *testing.T) {
	r := rng()
	for i := 0; i < 20000; i++ {
		msg := randString(r, "abc /:", 16)
		e := twirp.NewError(twirp.FailedPrecondition, msg)
		if e == nil || e.Msg() != msg {
			t.Fatalf("PROBE-FAILED NewError")
		}
		if w := e.WithMeta("k", "v"); w == nil || w.Msg() != msg {
			t.Fatalf("PROBE-FAILED WithMeta")
		}
		if w := twirp.WrapError(e, errors.New("cause")); w == nil || w.Msg() != msg {
			t.Fatalf("PROBE-FAILED WrapError")
		}
	}
	if twirp.InternalError("x") == nil || twirp.InternalErrorWith(errors.New("x")) == nil || twirp.InvalidArgumentError("a", "b") == nil || twirp.RequiredArgumentError("a") == nil {
		t.Fatalf("PROBE-FAILED constructors")
	}
}

// wal.spec: LastIndex / Write / TruncateBack / Read of tidwall/wal against the counter model
func TestProbeWAL(t *testing.T) {
	dir, err := os.MkdirTemp("", "libprobe-wal-")
	if err != nil {
		t.Skip(err)
	}
	defer os.RemoveAll(dir)
	l, err := wal.Open(dir, &wal.Options{NoSync: true})
	if err != nil {
		t.Fatalf("open: %v", err)
	}
	defer l.Close()
	r := rng()
	var last uint64
	for i := 0; i < 3000; i++ {
		if li, err := l.LastIndex(); err != nil || li != last {
			t.Fatalf("PROBE-FAILED LastIndex=%d,%v model=%d", li, err, last)
		}
		switch r.Intn(4) {
		case 0, 1:
			idx := last + 1
			if r.Intn(5) == 0 {
				idx = last + uint64(r.Intn(3)) // sometimes out of order
			}
			err := l.Write(idx, []byte{byte(i)})
			if (err == nil) != (idx == last+1) {
				t.Fatalf("PROBE-FAILED Write(%d) with last=%d: %v", idx, last, err)
			}
			if err == nil {
				last = idx
			}
		case 2:
			if last >= 2 {
				idx := uint64(r.Intn(int(last))) + 1
				if err := l.TruncateBack(idx); err != nil {
					t.Fatalf("PROBE-FAILED TruncateBack(%d) last=%d: %v", idx, last, err)
				}
				last = idx
			}
		case 3:
			idx := uint64(r.Intn(int(last) + 3))
			_, err := l.Read(idx)
			if err == nil && !(1 <= idx && idx <= last) {
				t.Fatalf("PROBE-FAILED Read(%d) succeeded with last=%d", idx, last)
			}
		}
	}
}

// skipmap.spec / engine collection model: sequential behaviour of skipmap maps and sync.Map equals a Go map
func TestProbeMaps(t *testing.T) {
	r := rng()
	sm := skipmap.NewString[int]()
	var sy sync.Map
	model := map[string]int{}
	for i := 0; i < 100000; i++ {
		k := randString(r, "abc", 2)
		v := r.Intn(100)
		switch r.Intn(6) {
		case 0:
			sm.Store(k, v)
			sy.Store(k, v)
			model[k] = v
		case 1:
			a, ok := sm.Load(k)
			b, ok2 := sy.Load(k)
			mv, mok := model[k]
			if ok != mok || ok2 != mok || (mok && (a != mv || b.(int) != mv)) {
				t.Fatalf("PROBE-FAILED Load")
			}
		case 2:
			a, loaded := sm.LoadOrStore(k, v)
			b, loaded2 := sy.LoadOrStore(k, v)
			mv, mok := model[k]
			if !mok {
				model[k] = v
				mv = v
			}
			if loaded != mok || loaded2 != mok || a != mv || b.(int) != mv {
				t.Fatalf("PROBE-FAILED LoadOrStore")
			}
		case 3:
			sm.Delete(k)
			sy.Delete(k)
			delete(model, k)
		case 4:
			a, loaded := sm.LoadAndDelete(k)
			b, loaded2 := sy.LoadAndDelete(k)
			mv, mok := model[k]
			delete(model, k)
			if loaded != mok || loaded2 != mok || (mok && (a != mv || b.(int) != mv)) {
				t.Fatalf("PROBE-FAILED LoadAndDelete")
			}
		case 5:
			n := 0
			sm.Range(func(key string, val int) bool {
				n++
				if model[key] != val {
					t.Fatalf("PROBE-FAILED Range value")
				}
				return true
			})
			if n != len(model) || sm.Len() != len(model) {
				t.Fatalf("PROBE-FAILED Range visits %d of %d", n, len(model))
			}
		}
	}
}

// std.spec: (*http.Request).ProtoAtLeast(major, minor) == (ProtoMajor > major || (ProtoMajor == major && ProtoMinor >= minor)).
func TestProbeProtoAtLeast(t *testing.T) {
	for maj := -1; maj <= 4; maj++ {
		for min := -1; min <= 3; min++ {
			r := &http.Request{ProtoMajor: maj, ProtoMinor: min}
			for a := 0; a <= 4; a++ {
				for b := 0; b <= 2; b++ {
					want := maj > a || (maj == a && min >= b)
					if got := r.ProtoAtLeast(a, b); got != want {
						t.Fatalf("ProtoAtLeast(%d,%d) on %d.%d = %v, spec %v", a, b, maj, min, got, want)
					}
				}
			}
		}
	}
}

// trusted by the key-builder contracts of spec/tun: %s renders a string or a byte slice verbatim and %d in decimal, so
// fmt.Sprintf(prefix+"%s", id) is prefix followed by id, and distinct ids give distinct keys.
func TestProbeSprintfVerbatim(t *testing.T) {
	r := rng()
	for i := 0; i < 20000; i++ {
		b := make([]byte, r.Intn(24))
		for j := range b {
			b[j] = byte(r.Intn(256))
		}
		if got := fmt.Sprintf("/tunnel/client/token/%s", b); got != "/tunnel/client/token/"+string(b) {
			t.Fatalf("%%s of bytes %q rendered as %q", b, got)
		}
		s := string(b)
		n := r.Intn(1<<20) - 10
		if got := fmt.Sprintf("/tunnel/bundle/%s/%d", s, n); got != "/tunnel/bundle/"+s+"/"+strconvItoa(n) {
			t.Fatalf("%%s/%%d of %q,%d rendered as %q", s, n, got)
		}
	}
}

func strconvItoa(n int) string {
	if n == 0 {
		return "0"
	}
	neg := n < 0
	if neg {
		n = -n
	}
	var d []byte
	for n > 0 {
		d = append([]byte{byte('0' + n%10)}, d...)
		n /= 10
	}
	if neg {
		return "-" + string(d)
	}
	return string(d)
}
